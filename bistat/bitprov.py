"""Bit provenance: a normal form for shift / mask expressions with symbolic width and shift.

A bit field of width W (>= 1) sits S (>= 0) bits above the least significant bit of a shared
word.  Whatever way the code spells its masks and shifts --

    (I & mask) >> shift             (I >> shift) & value_mask
    ((v << shift) & mask) | (I & ~mask)      ((v & value_mask) << shift) | (I & others_mask)

-- the *result* is described, for every value of W and S at once, by where each of its bits
comes from: a set of slices (source, first source bit, first result bit, width).  The
operators & | ~ << >> and the constants 2**W - 1 act on such sets by interval arithmetic over
linear forms in S and W (Python integers are unbounded two's complement: bits exist at every
position >= 0; ``~m`` has ones wherever m has zeros).  Two expressions with the same set are
the same function of their inputs; a comparison of interval ends that is not decided by
S >= 0, W >= 1 alone raises ``Undecided``.

Nothing is evaluated on concrete numbers: this is a symbolic normal form, exact for the
operator set above, and anything outside that set is ``Undecided`` (no verdict).
"""
import ast

from . import Undecided
from .expr import canon

INF = 'inf'


# ---------------------------------------------------------------- linear forms over S, W
def L(c=0, s=0, w=0):
    return (s, w, c)


def ladd(a, b):
    if a == INF or b == INF:
        return INF
    return (a[0] + b[0], a[1] + b[1], a[2] + b[2])


def lneg(a):
    if a == INF:
        raise Undecided('negative infinity')
    return (-a[0], -a[1], -a[2])


def lsub(a, b):
    if a == INF:
        return INF
    return ladd(a, lneg(b))


def sign(d):
    """sign of a linear form for every S >= 0, W >= 1: '>=0', '>0', '<=0', '<0', '=0' or None"""
    if d == INF:
        return '>0'
    s, w, c = d
    if s == 0 and w == 0:
        return '=0' if c == 0 else ('>0' if c > 0 else '<0')
    if s >= 0 and w >= 0:
        lo = w + c          # minimum, at S = 0, W = 1
        if lo > 0:
            return '>0'
        if lo == 0:
            return '>=0'
        return None
    if s <= 0 and w <= 0:
        hi = w + c          # maximum
        if hi < 0:
            return '<0'
        if hi == 0:
            return '<=0'
        return None
    return None


def surely_le(a, b):
    """a <= b whatever S >= 0 and W >= 1 are (False: not for all of them, or unknown)"""
    if b == INF:
        return True
    if a == INF:
        return False
    return sign(lsub(b, a)) in ('>0', '>=0', '=0')


def le(a, b):
    """a <= b for all S, W -> True; a >= b for all S, W (and not always equal) -> False;
    raises when the order depends on the width / shift"""
    if surely_le(a, b):
        return True
    if surely_le(b, a):
        return False
    raise Undecided('the order of bit positions %s and %s depends on the width / shift' % (show(a), show(b)))


def lmax(a, b):
    return b if le(a, b) else a


def lmin(a, b):
    return a if le(a, b) else b


def show(a):
    if a == INF:
        return 'inf'
    s, w, c = a
    parts = []
    for k, n in ((s, 'S'), (w, 'W')):
        if k:
            parts.append(('%s' % n) if k == 1 else '%d*%s' % (k, n))
    if c or not parts:
        parts.append(str(c))
    return '+'.join(parts).replace('+-', '-')


# ---------------------------------------------------------------- values
class Num:
    """an integer that is a linear form in S, W (shift amounts, widths)"""
    def __init__(self, form):
        self.form = form


class Pow2:
    """2 ** form"""
    def __init__(self, form):
        self.form = form


class Ones:
    """a constant whose ones are the bit positions of the intervals [lo, hi)"""
    def __init__(self, ivs):
        self.ivs = _norm_ivs(ivs) if ivs is not None else None      # None: finite, otherwise unknown

    def finite(self):
        return self.ivs is None or all(b != INF for _, b in self.ivs)

    def text(self):
        if self.ivs is None:
            return 'a mask with no ones above a fixed position'
        return 'ones%s' % ''.join('[%s,%s)' % (show(a), show(b)) for a, b in self.ivs)


class Bits:
    """OR of slices (src, src_lo, dst_lo, width): result bit dst_lo+i = bit src_lo+i of src"""
    def __init__(self, slices, truncated=False):
        self.truncated = truncated
        out = []
        for s in slices:
            if s[3] != INF and sign(s[3]) in ('<0', '<=0', '=0'):
                continue
            if s not in out:
                out.append(s)
        self.slices = sorted(out, key=lambda x: (x[0], show(x[2]), show(x[1])))

    def text(self):
        return ' | '.join('%s[%s..+%s) at %s' % (s[0], show(s[1]), show(s[3]), show(s[2])) for s in self.slices) or '0'

    def key(self):
        return tuple((s[0], s[1], s[2], s[3]) for s in self.slices)


def _norm_ivs(ivs):
    out = []
    for a, b in ivs:
        if b != INF and not _strictly_less_possible(a, b):
            continue
        out.append((a, b))
    return out


def _strictly_less_possible(a, b):
    """not (b <= a for all S, W)"""
    return not surely_le(b, a)


def _clip(slices, ivs):
    out = []
    for src, slo, dlo, wd in slices:
        dhi = INF if wd == INF else ladd(dlo, wd)
        for a, b in ivs:
            nlo = lmax(dlo, a)
            nhi = lmin(dhi, b)
            if nhi != INF and surely_le(nhi, nlo):
                continue
            out.append((src, ladd(slo, lsub(nlo, dlo)), nlo, INF if nhi == INF else lsub(nhi, nlo)))
    return out


def _coerce(v):
    """2 ** n as a mask: the single one at position n"""
    if isinstance(v, Pow2):
        return Ones([(v.form, ladd(v.form, L(1)))])
    return v


def _shift(v, k, left):
    """v << k (left) or v >> k"""
    if isinstance(v, Pow2) and isinstance(k, Num) and left:
        return Pow2(ladd(v.form, k.form))
    v = _coerce(v)
    if not isinstance(k, Num):
        raise Undecided('shift by something that is not a width / shift amount')
    d = k.form if left else lneg(k.form)
    universe = [(L(0), INF)]
    if isinstance(v, Ones) and v.ivs is None:
        raise Undecided('shift of a mask that is only known to be finite')
    if isinstance(v, Ones):
        ivs = [(ladd(a, d), INF if b == INF else ladd(b, d)) for a, b in v.ivs]
        if not left:
            ivs = [(lmax(a, L(0)), b) for a, b in ivs if b == INF or not surely_le(b, L(0))]
        return Ones(ivs)
    if isinstance(v, Bits):
        sl = [(src, slo, ladd(dlo, d), wd) for src, slo, dlo, wd in v.slices]
        if not left:
            sl = _clip(sl, universe)
        return Bits(sl)
    if isinstance(v, Num) and left and v.form == L(1):
        return Pow2(k.form)
    raise Undecided('shift of %s' % type(v).__name__)


def _and(a, b):
    a, b = _coerce(a), _coerce(b)
    if isinstance(a, Ones) and isinstance(b, Ones) and (a.ivs is None or b.ivs is None):
        return Ones(None)
    if isinstance(a, Ones) and isinstance(b, Ones):
        out = []
        for x in a.ivs:
            for y in b.ivs:
                lo, hi = lmax(x[0], y[0]), lmin(x[1], y[1])
                if hi == INF or not surely_le(hi, lo):
                    out.append((lo, hi))
        return Ones(out)
    if isinstance(a, Ones):
        a, b = b, a
    if isinstance(a, Bits) and isinstance(b, Ones) and b.ivs is None:
        # what exactly is kept is not known, but nothing above a fixed position is
        return Bits([(s_[0] + ' (only bits below a fixed position)', s_[1], s_[2], s_[3]) for s_ in a.slices], truncated=True)
    if isinstance(a, Bits) and isinstance(b, Ones):
        return Bits(_clip(a.slices, b.ivs))
    raise Undecided('& of %s and %s' % (type(a).__name__, type(b).__name__))


def _or(a, b):
    a, b = _coerce(a), _coerce(b)
    if isinstance(a, Bits) and isinstance(b, Bits):
        return Bits(a.slices + b.slices, a.truncated or b.truncated)
    if isinstance(a, Ones) and isinstance(b, Ones):
        if a.ivs is None or b.ivs is None:
            if a.finite() and b.finite():
                return Ones(None)
            raise Undecided('| with a mask that is only known to be finite')
        return Ones(a.ivs + b.ivs)
    raise Undecided('| of %s and %s' % (type(a).__name__, type(b).__name__))


def _xor(a, b):
    try:
        return _or(_and(a, _invert(b)), _and(_invert(a), b))
    except Undecided:
        if a.finite() and b.finite():
            return Ones(None)        # some ones below a fixed position, none above
        raise


def _invert(a):
    a = _coerce(a)
    if isinstance(a, Ones) and a.ivs is None:
        raise Undecided('~ of a mask that is only known to be finite')
    if isinstance(a, Ones):
        ivs = sorted_ivs(a.ivs)
        out, cur = [], L(0)
        for lo, hi in ivs:
            if lo != cur:
                if not surely_le(cur, lo):
                    raise Undecided('overlapping mask intervals')
                out.append((cur, lo))
            cur = hi
            if cur == INF:
                break
        if cur != INF:
            out.append((cur, INF))
        return Ones(out)
    raise Undecided('~ of %s' % type(a).__name__)


def sorted_ivs(ivs):
    ivs = list(ivs)
    out = []
    while ivs:
        m = ivs[0]
        for x in ivs[1:]:
            if x[0] != m[0] and le(x[0], m[0]):
                m = x
        ivs.remove(m)
        out.append(m)
    return out


class Eval:
    """evaluate an (already walker-evaluated) expression.  ``leaf(text, node)`` maps a canonical
    text to a value of this domain (or to an AST to evaluate further), None when unknown"""

    def __init__(self, leaf):
        self.leaf = leaf
        self.depth = 0

    def ev(self, e):
        t = canon(e)
        got = self.leaf(t, e)
        if got is not None:
            if isinstance(got, ast.AST):
                self.depth += 1
                if self.depth > 12:
                    raise Undecided('cyclic mask definition')
                try:
                    return self.ev(got)
                finally:
                    self.depth -= 1
            return got
        if isinstance(e, ast.Constant) and isinstance(e.value, int) and not isinstance(e.value, bool):
            return Num(L(e.value))
        if isinstance(e, ast.UnaryOp) and isinstance(e.op, ast.Invert):
            return _invert(self.ev(e.operand))
        if isinstance(e, ast.UnaryOp) and isinstance(e.op, ast.USub):
            v = self.ev(e.operand)
            if isinstance(v, Num):
                return Num(lneg(v.form))
        if isinstance(e, ast.BinOp):
            a, b = self.ev(e.left), self.ev(e.right)
            op = e.op
            if isinstance(op, ast.LShift):
                return _shift(a, b, True)
            if isinstance(op, ast.RShift):
                return _shift(a, b, False)
            if isinstance(op, ast.BitAnd):
                return _and(a, b)
            if isinstance(op, ast.BitOr):
                return _or(a, b)
            if isinstance(op, ast.Pow) and isinstance(a, Num) and a.form == L(2) and isinstance(b, Num):
                return Pow2(b.form)
            if isinstance(op, ast.Sub) and isinstance(a, Pow2) and isinstance(b, Num) and b.form == L(1):
                return Ones([(L(0), a.form)])
            if isinstance(op, ast.Add) and isinstance(a, Pow2) and isinstance(b, Num) and b.form == L(-1):
                return Ones([(L(0), a.form)])
            if isinstance(op, ast.BitXor) and isinstance(a, Ones) and isinstance(b, Ones):
                return _xor(a, b)
            if isinstance(op, ast.Mult) and isinstance(b, Pow2):
                return _shift(a, Num(b.form), True)
            if isinstance(op, ast.Mult) and isinstance(a, Pow2):
                return _shift(b, Num(a.form), True)
            if isinstance(op, ast.FloorDiv) and isinstance(b, Pow2):
                return _shift(a, Num(b.form), False)
            if isinstance(op, ast.Mod) and isinstance(b, Pow2):
                return _and(a, Ones([(L(0), b.form)]))
            if isinstance(op, (ast.Add, ast.Sub)) and isinstance(a, Num) and isinstance(b, Num):
                return Num(ladd(a.form, b.form if isinstance(op, ast.Add) else lneg(b.form)))
            if isinstance(op, (ast.Add, ast.BitXor)) and isinstance(a, Bits) and isinstance(b, Bits) and _disjoint(a, b):
                return _or(a, b)
            if isinstance(op, ast.BitXor) and isinstance(b, Num) and b.form == L(-1):
                return _invert(a)
            if isinstance(op, ast.Sub) and isinstance(a, Num) and a.form == L(-1) and isinstance(b, Ones):
                return _invert(b)          # -1 - m == ~m
        raise Undecided('bit expression %s is outside the shift / mask algebra' % t[:80])


def _disjoint(a, b):
    for x in a.slices:
        for y in b.slices:
            xhi = INF if x[3] == INF else ladd(x[2], x[3])
            yhi = INF if y[3] == INF else ladd(y[2], y[3])
            if not ((xhi != INF and surely_le(xhi, y[2])) or (yhi != INF and surely_le(yhi, x[2]))):
                return False
    return True


S, W = L(0, 1, 0), L(0, 0, 1)


def field_slice(src='I'):
    """the member's own bits of the shared word, brought down to bit 0"""
    return Bits([(src, S, L(0), W)])


def merged(value='V', word='I'):
    """the shared word with the member's bits replaced by the low W bits of the value"""
    return Bits([(value, L(0), S, W), (word, L(0), L(0), S), (word, ladd(S, W), ladd(S, W), INF)])


def own_mask():
    return Ones([(S, ladd(S, W))])
