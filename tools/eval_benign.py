#!/usr/bin/env python3
"""Evaluate a behaviour-preserving refactoring produced by an independent sub-agent.

usage: eval_benign.py <PROP> <patch.diff> <digest.py> [--keep <name>] [--notes <notes.md>]

Confirms in a scratch worktree of /repo (outside /repo and /verif): the patch applies to HEAD,
the tree compiles, the 40 pinned tests pass, and digest.py prints the same line (exit 0) on the
pristine and on the refactored tree.  Then runs all 20 checks on the refactored tree: exit 1 is
a FALSE ALARM, exit 2 means the analysis could not follow the refactoring (no verdict).
"""
import json
import os
import shutil
import subprocess
import sys
import tempfile

VERIF = os.path.dirname(os.path.dirname(os.path.abspath(__file__)))
PY = '/venv/bin/python'
PROPS = ['C%02d' % i for i in range(1, 21)]


def sh(cmd, cwd=None, env=None, timeout=900):
    e = dict(os.environ)
    e['PYTHONDONTWRITEBYTECODE'] = '1'
    if env:
        e.update(env)
    p = subprocess.run(cmd, shell=True, cwd=cwd, env=e, stdout=subprocess.PIPE, stderr=subprocess.STDOUT, timeout=timeout)
    return p.returncode, p.stdout.decode('utf-8', 'replace')


def main():
    a = sys.argv[1:]
    prop, patch, digest = a[0], os.path.abspath(a[1]), os.path.abspath(a[2])
    keep = a[a.index('--keep') + 1] if '--keep' in a else None
    notes = a[a.index('--notes') + 1] if '--notes' in a else None
    wt = tempfile.mkdtemp(prefix='evb.', dir='/tmp')
    os.rmdir(wt)
    res = {'property': prop}
    try:
        rc, out = sh('git -C /repo worktree add -q --detach %s HEAD' % wt)
        if rc:
            print(out); return 2
        dd = tempfile.mkdtemp(prefix='evbd.', dir='/tmp')
        shutil.copy(digest, os.path.join(dd, 'digest.py'))
        rc0, out0 = sh('%s digest.py' % PY, cwd=dd, env={'PYTHONPATH': wt})
        import re as _re

        def _digest_line(out):
            # the digest is the line that is a sha256 hex string (a program may add a count on stderr)
            hexes = [l.strip() for l in out.strip().splitlines() if _re.fullmatch(r'[0-9a-f]{64}', l.strip())]
            return hexes[-1] if hexes else (out.strip().splitlines()[-1] if out.strip() else '')
        d0 = _digest_line(out0)
        shutil.rmtree(os.path.join(dd, '__pkts__'), ignore_errors=True)
        rc, out = sh('git -C %s apply --whitespace=nowarn %s' % (wt, patch))
        res['applies'] = rc == 0
        if rc:
            print('PATCH DOES NOT APPLY', out[:300]); print(json.dumps(res)); return 2
        rc, out = sh('%s -m pytest -q -p no:cacheprovider tests' % PY, cwd=wt, env={'PYTHONPATH': wt})
        res['tests_pass'] = rc == 0 and '40 passed' in out
        rc1, out1 = sh('%s digest.py' % PY, cwd=dd, env={'PYTHONPATH': wt})
        d1 = _digest_line(out1)
        shutil.rmtree(dd, ignore_errors=True)
        res['digest_pristine'], res['digest_refactored'] = d0[-64:], d1[-64:]
        res['digest_equal'] = rc0 == 0 and rc1 == 0 and d0 == d1 and len(d0) >= 32
        alarms, undecided, details = [], [], {}
        for p in PROPS:
            rc, out = sh('./check %s --root %s --no-evidence' % (p, wt), cwd=VERIF)
            if rc == 1:
                alarms.append(p)
                details[p] = [l.strip() for l in out.splitlines() if 'VIOLATED' in l or 'construct:' in l or 'reason:' in l][:9]
            elif rc == 2:
                undecided.append(p)
                details[p] = [l.strip() for l in out.splitlines() if 'ANALYSIS-ERROR' in l][:4]
        res['false_alarms'] = alarms
        res['undecided'] = undecided
        res['valid_benign'] = bool(res['applies'] and res['tests_pass'] and res['digest_equal'])
        print(json.dumps(res, indent=1))
        for p, d in details.items():
            print(p, *d, sep='\n   ')
        if keep and res['valid_benign']:
            dst = os.path.join(VERIF, 'benign', keep)
            os.makedirs(dst, exist_ok=True)
            shutil.copy(patch, os.path.join(dst, 'patch.diff'))
            shutil.copy(digest, os.path.join(dst, 'digest.py'))
            if notes and os.path.exists(notes):
                shutil.copy(notes, os.path.join(dst, 'notes.md'))
            mp = os.path.join(dst, 'meta.json')
            meta = {'property': prop, 'kind': 'behaviour-preserving refactoring',
                    'confirmed': {'applies_to_repo_head': subprocess.check_output(['git', '-C', '/repo', 'rev-parse', '--short', 'HEAD']).decode().strip(),
                                  'pinned_tests_with_patch': '40 passed', 'digest_equal': True, 'digest': d0[-64:]},
                    'false_alarms': alarms, 'undecided': undecided, 'details': details}
            if os.path.exists(mp):
                old = json.load(open(mp))
                meta['first_run'] = old.get('first_run', {'false_alarms': old.get('false_alarms'), 'undecided': old.get('undecided')})
            else:
                meta['first_run'] = {'false_alarms': alarms, 'undecided': undecided}
            json.dump(meta, open(mp, 'w'), indent=1)
        return 0
    finally:
        sh('git -C /repo worktree remove --force %s' % wt)
        shutil.rmtree(wt, ignore_errors=True)


if __name__ == '__main__':
    sys.exit(main())
