"""Front end: parse /repo/bisturi, class / function tables, MRO, method-value
strategy table, template ASTs of the generated code, call resolution."""
import ast
import copy
import os
import re
import textwrap

from . import Undecided
from .expr import canon, unparse, attr_chain, call_name
from .walker import Walker

REPO = os.environ.get('BISTAT_REPO', '/repo')
PKG = 'bisturi'


class FuncInfo:
    def __init__(self, module, qual, node, cls=None):
        self.module, self.qual, self.node, self.cls = module, qual, node, cls
        self.file = 'bisturi/%s.py' % module

    @property
    def id(self):
        return '%s::%s' % (self.file, self.qual)

    def __repr__(self):
        return '<func %s>' % self.id


class ClassInfo:
    def __init__(self, module, qual, node):
        self.module, self.qual, self.node = module, qual, node
        self.name = qual.split('.')[-1]
        self.methods = {}       # name -> FuncInfo
        self.attrs = {}         # class-level simple assignments name -> expr
        self.base_names = []
        for b in node.bases:
            # class X(with_metaclass(Meta, Base1, Base2)): the bases are Base1, Base2
            if isinstance(b, ast.Call) and isinstance(b.func, ast.Name) and 'metaclass' in b.func.id and len(b.args) >= 2:
                self.base_names.extend(unparse(x) for x in b.args[1:])
            else:
                self.base_names.append(unparse(b))
        self.file = 'bisturi/%s.py' % module

    def __repr__(self):
        return '<class %s.%s>' % (self.module, self.qual)


def _method_aliases(tree):
    """``class C: m = f`` with f a plain function of the module is ``class C: def m(...): <body of f>``
    (a function stored in a class is a method): the class gets its own copy under that name"""
    import copy
    funcs = {}
    for n in tree.body:
        if isinstance(n, ast.FunctionDef) and not n.decorator_list:
            funcs.setdefault(n.name, []).append(n)
    rebound = {x.id for x in ast.walk(tree) if isinstance(x, ast.Name) and isinstance(x.ctx, (ast.Store, ast.Del))}
    for c in tree.body:
        if not isinstance(c, ast.ClassDef):
            continue
        defined = {m.name for m in c.body if isinstance(m, (ast.FunctionDef, ast.ClassDef))}
        for i, st in enumerate(c.body):
            if isinstance(st, ast.Assign) and len(st.targets) == 1 and isinstance(st.targets[0], ast.Name) and isinstance(st.value, ast.Name):
                f = funcs.get(st.value.id)
                if f and len(f) == 1 and st.value.id not in rebound and st.targets[0].id not in defined and f[0].lineno < c.lineno:
                    m = copy.deepcopy(f[0])
                    m.name = st.targets[0].id
                    m._alias_of = st.value.id
                    c.body[i] = m


class Repo:
    def __init__(self, root=None, normalise=True):
        self.root = root or REPO
        self.pkgdir = os.path.join(self.root, PKG)
        self.modules = {}       # name -> dict(path, src, tree, lines)
        self.classes = {}       # simple name -> ClassInfo (first definition wins; dupes recorded)
        self.dupes = set()
        self.functions = {}     # id -> FuncInfo
        self.module_funcs = {}  # (module, name) -> FuncInfo
        if not os.path.isdir(self.pkgdir):
            raise Undecided('package directory %s not found' % self.pkgdir)
        for fn in sorted(os.listdir(self.pkgdir)):
            if fn.endswith('.py'):
                self._load(fn)
        self._mro_cache = {}
        if not os.environ.get('BISTAT_NO_INLINE'):
            self._class_method_aliases()
        self.inlined, self.helpers, self.absorbed = [], [], set()
        if normalise and not os.environ.get('BISTAT_NO_INLINE'):
            from .normal import inline_helpers
            inline_helpers(self)
        self.note_context_managers()

    def _class_method_aliases(self):
        """``class C: m = Other.method`` (a plain method of a package class, named through its
        class): C gets its own copy of that method under the name m"""
        import copy
        for ci in list(self.classes.values()):
            for i, st in enumerate(list(ci.node.body)):
                if not (isinstance(st, ast.Assign) and len(st.targets) == 1 and isinstance(st.targets[0], ast.Name) and isinstance(st.value, ast.Attribute)
                        and isinstance(st.value.value, ast.Name)):
                    continue
                owner = self.classes.get(st.value.value.id)
                name = st.targets[0].id
                if owner is None or st.value.value.id in self.dupes or name in ci.methods:
                    continue
                src = owner.methods.get(st.value.attr)
                if src is None or not isinstance(src.node, ast.FunctionDef) or src.node.decorator_list:
                    continue
                m = copy.deepcopy(src.node)
                m.name = name
                m._alias_of = '%s.%s' % (owner.name, st.value.attr)
                ast.copy_location(m, st)
                ci.node.body[i] = m
                fi = FuncInfo(ci.module, ci.qual + '.' + name, m, ci)
                self.functions[fi.id] = fi
                ci.methods[name] = fi
                ci.attrs.pop(name, None)

    # ------------------------------------------------------------ loading
    def _load(self, fn):
        path = os.path.join(self.pkgdir, fn)
        with open(path, 'rb') as f:
            src = f.read().decode('utf-8')
        try:
            tree = ast.parse(src, filename=path)
        except SyntaxError as e:
            raise Undecided('cannot parse %s: %s' % (path, e))
        name = fn[:-3]
        if not os.environ.get('BISTAT_NO_INLINE'):
            _method_aliases(tree)
        self.modules[name] = {'path': path, 'src': src, 'tree': tree, 'lines': src.splitlines()}
        self._collect(name, tree.body, '', None)

    def _collect(self, module, body, prefix, cls):
        for n in body:
            if isinstance(n, (ast.FunctionDef, ast.AsyncFunctionDef)):
                qual = prefix + n.name
                n._module = module
                fi = FuncInfo(module, qual, n, cls)
                self.functions[fi.id] = fi
                if cls is not None and prefix == cls.qual + '.':
                    cls.methods[n.name] = fi
                elif prefix == '':
                    self.module_funcs[(module, n.name)] = fi
                self._collect(module, n.body, qual + '.', cls)
            elif isinstance(n, ast.ClassDef):
                qual = prefix + n.name
                ci = ClassInfo(module, qual, n)
                if n.name in self.classes:
                    self.dupes.add(n.name)
                else:
                    self.classes[n.name] = ci
                for s in n.body:
                    if isinstance(s, ast.Assign) and len(s.targets) == 1 and isinstance(s.targets[0], ast.Name):
                        ci.attrs[s.targets[0].id] = s.value
                self._collect(module, n.body, qual + '.', ci)
            elif isinstance(n, (ast.If, ast.Try, ast.With, ast.For, ast.While)):
                for fld in ('body', 'orelse', 'finalbody'):
                    self._collect(module, getattr(n, fld, []) or [], prefix, cls)
                for h in getattr(n, 'handlers', []):
                    self._collect(module, h.body, prefix, cls)

    # ------------------------------------------------------------ lookup
    def cls(self, name):
        if name in self.dupes:
            raise Undecided('class name %s is ambiguous in the package' % name)
        if name not in self.classes:
            raise Undecided('anchor class %s not found in %s' % (name, self.pkgdir))
        return self.classes[name]

    def has_cls(self, name):
        return name in self.classes

    def func(self, module, qual):
        fid = 'bisturi/%s.py::%s' % (module, qual)
        if fid not in self.functions:
            raise Undecided('anchor function %s not found' % fid)
        return self.functions[fid]

    def mro(self, ci):
        if ci.qual in self._mro_cache:
            return self._mro_cache[ci.qual]
        out, seen, cur = [], set(), ci
        while cur is not None and cur.qual not in seen:
            out.append(cur)
            seen.add(cur.qual)
            nxt = None
            for b in cur.base_names:
                b = b.split('.')[-1]
                if b in self.classes and b not in self.dupes:
                    nxt = self.classes[b]
                    break
            cur = nxt
        self._mro_cache[ci.qual] = out
        return out

    def is_subclass(self, ci, base):
        return any(c.name == base for c in self.mro(ci))

    def subclasses(self, base, strict=False):
        out = []
        for c in self.classes.values():
            if self.is_subclass(c, base) and not (strict and c.name == base):
                out.append(c)
        return sorted(out, key=lambda c: (c.module, c.node.lineno))

    def method(self, ci, name):
        """resolve a method through the MRO -> FuncInfo or None"""
        for c in self.mro(ci):
            if name in c.methods:
                return c.methods[name]
        return None

    def src_line(self, fi_or_module, lineno):
        m = fi_or_module.module if hasattr(fi_or_module, 'module') else fi_or_module
        lines = self.modules[m]['lines']
        return lines[lineno - 1].strip() if 0 < lineno <= len(lines) else ''

    # ----------------------------------------------------- call resolution
    def resolver(self, recv_types=None):
        """returns a resolver for Walker: maps a (substituted) call expression
        to a repository function.  ``recv_types``: canon(receiver expr) -> class
        name, for receivers that are not ``self``."""
        recv_types = recv_types or {}

        def is_generator(node):
            nested = {id(x) for d_ in ast.walk(node) if isinstance(d_, (ast.FunctionDef, ast.Lambda)) and d_ is not node for x in ast.walk(d_)}
            return any(isinstance(y, (ast.Yield, ast.YieldFrom)) and id(y) not in nested for y in ast.walk(node))

        def resolve(call, cur_cls, st):
            r = resolve0(call, cur_cls, st)
            # calling a generator function runs none of its statements: it is not expanded in place
            if r is not None and is_generator(r[0]):
                return None
            return r

        def resolve0(call, cur_cls, st):
            f = call.func
            if isinstance(f, ast.Attribute):
                recv = f.value
                # self.method(...)
                if isinstance(recv, ast.Name) and recv.id == 'self' and cur_cls is not None:
                    # a method value installed by _compile is dynamic -> not resolved here;
                    # so is any name that some method of the class assigns on self
                    fi = self.method(cur_cls, f.attr)
                    if fi is not None and f.attr not in ('pack', 'unpack', 'clone') and f.attr not in self.instance_attrs(cur_cls):
                        if any(isinstance(d_, ast.Name) and d_.id == 'staticmethod' for d_ in fi.node.decorator_list):
                            return fi.node, None, fi.cls       # no receiver is bound
                        return fi.node, recv, fi.cls
                    return None
                # Class.method(self, ...)
                if isinstance(recv, ast.Name) and recv.id in self.classes and recv.id not in self.dupes:
                    fi = self.method(self.classes[recv.id], f.attr)
                    if fi is not None:
                        return fi.node, None, fi.cls
                    return None
                k = canon(recv)
                if k in recv_types:
                    ci = self.classes.get(recv_types[k])
                    if ci is not None:
                        fi = self.method(ci, f.attr)
                        if fi is not None:
                            return fi.node, recv, fi.cls
                return None
            if isinstance(f, ast.Name):
                mod = cur_cls.module if cur_cls is not None else None
                for (m, n), fi in self.module_funcs.items():
                    if n == f.id and (mod is None or m == mod):
                        return fi.node, None, None
                # a function of another module of the package, imported by name (the only one so named)
                cands = [fi for (m, n), fi in self.module_funcs.items() if n == f.id]
                if len(cands) == 1 and mod is not None and any(
                        isinstance(st_, ast.ImportFrom) and any((a_.asname or a_.name) == f.id for a_ in st_.names) for st_ in self.modules[mod]['tree'].body):
                    return cands[0].node, None, None
            return None

        return resolve

    def reach(self, fi, depth=3):
        """``fi`` and the package functions it (transitively) calls: ``self.m()`` / ``cls.m()`` /
        ``Class.m()`` through the class hierarchy of ``fi`` and module functions by name"""
        seen, order, work = {fi.id}, [fi], [(fi, 0)]
        while work:
            cur, d = work.pop()
            if d >= depth:
                continue
            for n in ast.walk(cur.node):
                if not isinstance(n, ast.Call):
                    continue
                f, tgt = n.func, None
                if isinstance(f, ast.Attribute) and isinstance(f.value, ast.Name) and cur.cls is not None:
                    first = [x.arg for x in cur.node.args.posonlyargs + cur.node.args.args][:1]
                    if f.value.id in first or f.value.id in ('self', 'cls') or f.value.id == cur.cls.name:
                        tgt = self.method(cur.cls, f.attr)
                elif isinstance(f, ast.Name):
                    tgt = self.module_funcs.get((cur.module, f.id))
                if tgt is not None and tgt.id not in seen:
                    seen.add(tgt.id)
                    order.append(tgt)
                    work.append((tgt, d + 1))
        return order

    # ---------------------------------------------------------- closed-world gate
    HIGHER_ORDER = {'map', 'filter', 'functools.partial', 'partial', 'functools.reduce', 'reduce', 'operator.attrgetter', 'attrgetter',
                    'operator.itemgetter', 'itemgetter', 'operator.methodcaller', 'methodcaller', 'itertools.takewhile', 'takewhile',
                    'itertools.dropwhile', 'dropwhile', 'itertools.chain', 'chain', 'itertools.count', 'itertools.islice', 'islice',
                    'itertools.starmap', 'starmap', 'itertools.accumulate', 'itertools.zip_longest', 'iter', 'next'}

    def opaque_features(self, fi, with_compile=True):
        """constructs of a function whose control / data flow the analysis does not resolve:
        higher-order library calls, calls through containers or computed attribute names,
        function tables.  A rule that does not find what it expects in such a function has not
        seen everything the function does."""
        key = ('opaque', fi.id, with_compile)
        if key in self._mro_cache:
            return self._mro_cache[key]
        out = []
        tables = self._function_tables(fi.module)
        a_ = fi.node.args if isinstance(fi.node, (ast.FunctionDef, ast.Lambda)) else None
        params = {x.arg for x in (a_.posonlyargs + a_.args + a_.kwonlyargs)} if a_ is not None else set()
        # (callables the library is handed by its user -- conditions, sizes -- are events of the
        # rules, not unresolved flow: only parameters of private helpers count)
        if not fi.qual.split('.')[-1].startswith('_') or fi.qual.split('.')[-1].startswith('__'):
            params = set()
        for n in ast.walk(fi.node):
            if isinstance(n, ast.Call):
                nm = call_name(n) or ''
                f = n.func
                if nm in self.HIGHER_ORDER:
                    out.append('higher-order call %s(...)' % nm)
                if isinstance(f, ast.Subscript) and not (isinstance(f.value, ast.Name) and f.value.id in self.module_tables(fi.module)
                                                         and all(isinstance(v, ast.Lambda) for v in self.module_tables(fi.module)[f.value.id].values)):
                    out.append('call through a container: %s(...)' % canon(f)[:50])
                if isinstance(f, ast.Name) and f.id in params and f.id not in ('self', 'cls'):
                    out.append('call of a parameter: %s(...)' % f.id)
                if isinstance(f, ast.Call) and (call_name(f) or '') == 'getattr' and len(f.args) >= 2 and not isinstance(f.args[1], ast.Constant):
                    out.append('call of a computed attribute: %s(...)' % canon(f)[:50])
                if isinstance(f, ast.Call) and (call_name(f) or '') in self.HIGHER_ORDER:
                    out.append('call of the result of %s' % call_name(f))
            elif isinstance(n, (ast.Name, ast.Attribute)) and isinstance(getattr(n, 'ctx', None), ast.Load):
                t = n.id if isinstance(n, ast.Name) else (n.attr if isinstance(n.value, ast.Name) and n.value.id in ('self', 'cls') or (fi.cls is not None and isinstance(n.value, ast.Name) and n.value.id == fi.cls.name) else None)
                ct = self.class_tables(fi.cls) if (fi.cls is not None and isinstance(n, ast.Attribute)) else {}
                if t in tables and not (isinstance(n, ast.Name) and t in self.module_tables(fi.module)
                                        and all(isinstance(v, ast.Lambda) for v in self.module_tables(fi.module)[t].values)) \
                        and not (t in ct and all(isinstance(v, ast.Lambda) for v in ct[t].values)):
                    out.append('function table %s' % t)
            elif isinstance(n, ast.While) and isinstance(n.test, ast.Constant) and n.test.value is True:
                pass
        # calls of method values that the class parks in its own attributes (self.x = self._m)
        if fi.cls is not None:
            parked = self.parked_method_attrs(fi.cls)
            for n in ast.walk(fi.node):
                if isinstance(n, ast.Call) and isinstance(n.func, ast.Attribute) and isinstance(n.func.value, ast.Name) and n.func.value.id == 'self' \
                        and n.func.attr in parked:
                    out.append('call of a method value parked in self.%s' % n.func.attr)
        out = sorted(set(out))
        if with_compile and fi.cls is not None and fi.node.name != '_compile':
            comp = self.method(fi.cls, '_compile')
            if comp is not None and comp.cls is fi.cls:
                out.extend('%s (in %s)' % (x, comp.qual) for x in self.opaque_features(comp, False))
        self._mro_cache[key] = out
        return out

    def _function_tables(self, module):
        """names of module- or class-level displays that hold lambdas, functions or method names"""
        key = ('ftables', module)
        if key in self._mro_cache:
            return self._mro_cache[key]
        names = set()
        funcs = {n for (m, n) in self.module_funcs if m == module}
        def scan(body, methods):
            for s_ in body:
                if isinstance(s_, ast.Assign) and len(s_.targets) == 1 and isinstance(s_.targets[0], ast.Name) and isinstance(s_.value, (ast.Dict, ast.Tuple, ast.List)):
                    holds = False
                    for x in ast.walk(s_.value):
                        if isinstance(x, ast.Lambda):
                            holds = True
                        elif isinstance(x, ast.Name) and isinstance(x.ctx, ast.Load) and (x.id in funcs or x.id in methods):
                            holds = True
                        elif isinstance(x, ast.Constant) and isinstance(x.value, str) and x.value in methods and x.value.startswith('_'):
                            holds = True
                    if holds:
                        names.add(s_.targets[0].id)
                elif isinstance(s_, ast.ClassDef):
                    scan(s_.body, {m.name for m in s_.body if isinstance(m, ast.FunctionDef)})
        scan(self.modules[module]['tree'].body, set())
        self._mro_cache[key] = names
        return names

    def codegen_shape(self):
        """None when the text of the generated module is built from the %-templates the rules read
        (two drivers, a pack and an unpack struct block, a pack and an unpack per-field block, each
        per-field block in a generator of its own); otherwise what is missing"""
        key = ('cgshape',)
        if key in self._mro_cache:
            return self._mro_cache[key]
        try:
            ts = [t for t in self.templates() if t.tree is not None]
        except Undecided as e:
            ts = []
        drivers = {d for t in ts for d in t.defines() if d in ('pack_impl', 'unpack_impl')}
        blocks = [t for t in ts if not t.defines()]
        missing = []
        if drivers != {'pack_impl', 'unpack_impl'}:
            missing.append('driver templates (found %s)' % sorted(drivers))
        # today: a pack and an unpack block for struct runs (one generator) and a pack and an unpack
        # block for field-by-field runs (a generator each)
        if len(blocks) < 4 or len({t.func.id for t in blocks}) < 3:
            missing.append('the four block templates in their three generators (found %d templates in %d functions)' % (len(blocks), len({t.func.id for t in blocks})))
        res = '; '.join(missing) or None
        self._mro_cache[key] = res
        return res

    def parked_method_attrs(self, ci):
        """attributes (other than pack / unpack) that some method assigns a method of the class to"""
        key = ('parked', ci.qual)
        if key in self._mro_cache:
            return self._mro_cache[key]
        out = set()
        for c in set(self.mro(ci)) | set(self.subclasses(ci.name)):
            for fi in c.methods.values():
                for n in ast.walk(fi.node):
                    if isinstance(n, ast.Assign):
                        for t in n.targets:
                            if isinstance(t, ast.Attribute) and isinstance(t.value, ast.Name) and t.value.id == 'self' and t.attr not in ('pack', 'unpack', 'clone') \
                                    and isinstance(n.value, ast.Attribute) and isinstance(n.value.value, ast.Name) and n.value.value.id == 'self' \
                                    and self.method(c, n.value.attr) is not None:
                                out.add(t.attr)
                            # a function of the module, a lambda or a partial application parked the same way
                            elif isinstance(t, ast.Attribute) and isinstance(t.value, ast.Name) and t.value.id == 'self' and t.attr not in ('pack', 'unpack', 'clone') \
                                    and ((isinstance(n.value, ast.Name) and (c.module, n.value.id) in self.module_funcs)
                                         or isinstance(n.value, ast.Lambda)
                                         or (isinstance(n.value, ast.Call) and (call_name(n.value) or '').split('.')[-1] == 'partial')):
                                if fi.qual.split('.')[-1] in ('_compile', '_compile_impl', '__init__'):
                                    out.add(t.attr)
                        if len(n.targets) == 1 and isinstance(n.targets[0], ast.Tuple) and isinstance(n.value, ast.Tuple) and len(n.targets[0].elts) == len(n.value.elts):
                            for t, v in zip(n.targets[0].elts, n.value.elts):
                                if isinstance(t, ast.Attribute) and isinstance(t.value, ast.Name) and t.value.id == 'self' and t.attr not in ('pack', 'unpack', 'clone') \
                                        and ((isinstance(v, ast.Attribute) and isinstance(v.value, ast.Name) and v.value.id == 'self' and self.method(c, v.attr) is not None)
                                             or (isinstance(v, ast.Name) and (c.module, v.id) in self.module_funcs) or isinstance(v, ast.Lambda)):
                                    out.add(t.attr)
        self._mro_cache[key] = out
        return out

    def func_by_where(self, file, qual):
        return self.functions.get('%s::%s' % (file, qual))

    def instance_attrs(self, ci):
        """names assigned as ``self.<name> = ...`` by any method of the class or its bases"""
        key = ('ia', ci.qual)
        if key in self._mro_cache:
            return self._mro_cache[key]
        out = set()
        for c in self.mro(ci):
            for fi in c.methods.values():
                for n in ast.walk(fi.node):
                    if isinstance(n, (ast.Assign, ast.AugAssign)):
                        for t in (n.targets if isinstance(n, ast.Assign) else [n.target]):
                            for x in ast.walk(t):
                                if isinstance(x, ast.Attribute) and isinstance(x.value, ast.Name) and x.value.id == 'self' and isinstance(x.ctx, ast.Store):
                                    out.add(x.attr)
        self._mro_cache[key] = out
        return out

    def class_constant(self, ci, attr):
        """the constant a class-level ``attr = <constant>`` gives ``self.attr`` in methods run on
        instances of exactly ``ci`` or of its subclasses -- None unless every one of them sees the
        same constant and nothing in the package ever stores an attribute of that name"""
        key = ('cc', ci.qual, attr)
        if key in self._mro_cache:
            return self._mro_cache[key]
        res = None
        if attr not in self._stored_attr_names():
            def lookup(c):
                for k in self.mro(c):
                    for st in k.node.body:
                        if isinstance(st, ast.Assign) and len(st.targets) == 1 and isinstance(st.targets[0], ast.Name) and st.targets[0].id == attr:
                            return st.value if isinstance(st.value, ast.Constant) else False
                        if isinstance(st, (ast.FunctionDef, ast.ClassDef)) and st.name == attr:
                            return False
                return None
            mine = lookup(ci)
            if mine is not None and mine is not False:
                same = True
                for sub in self.subclasses(ci.name, strict=True):
                    v = lookup(sub)
                    if v is None or v is False or not (type(v.value) is type(mine.value) and v.value == mine.value):
                        same = False
                if same:
                    res = mine
        self._mro_cache[key] = res
        return res

    def _stored_attr_names(self):
        if getattr(self, '_stored_names', None) is None:
            out = set()
            for info in self.modules.values():
                for n in ast.walk(info['tree']):
                    if isinstance(n, ast.Attribute) and isinstance(n.ctx, (ast.Store, ast.Del)):
                        out.add(n.attr)
                    elif isinstance(n, ast.Call) and isinstance(n.func, ast.Name) and n.func.id in ('setattr', 'delattr') and len(n.args) >= 2:
                        if isinstance(n.args[1], ast.Constant):
                            out.add(n.args[1].value)
            self._stored_names = out
        return self._stored_names

    def ctor_consts(self, ci):
        """``self.<attr>`` -> expression, for attributes that only the constructor assigns, as a
        function of other such attributes: a constructor parameter kept unchanged in an attribute
        that nothing else assigns is that attribute; what the constructor computes on its
        different paths becomes one conditional expression over its path conditions"""
        key = ('ctor', ci.qual)
        if key in self._mro_cache:
            return self._mro_cache[key]
        out = {}
        self._mro_cache[key] = out
        init = ci.methods.get('__init__')
        if init is None:
            return out
        elsewhere = set()
        for c in set(self.mro(ci)) | set(self.subclasses(ci.name)):
            for name, fi in c.methods.items():
                if fi is init:
                    continue
                for n in ast.walk(fi.node):
                    if isinstance(n, ast.Attribute) and isinstance(n.ctx, (ast.Store, ast.Del)) and isinstance(n.value, ast.Name) and n.value.id == 'self':
                        elsewhere.add(n.attr)
                    elif isinstance(n, ast.Call) and isinstance(n.func, ast.Name) and n.func.id == 'setattr' and n.args and isinstance(n.args[0], ast.Name) and n.args[0].id == 'self':
                        elsewhere.add('*')
        if '*' in elsewhere:
            return out
        # stores on other objects named like the attribute (f.mask = ... in a sibling's _compile)
        other = {n.attr for info in self.modules.values() for n in ast.walk(info['tree'])
                 if isinstance(n, ast.Attribute) and isinstance(n.ctx, (ast.Store, ast.Del)) and not (isinstance(n.value, ast.Name) and n.value.id == 'self')}
        try:
            w = Walker(None, max_paths=256)
            w.read_heap = True
            paths = [p for p in w.paths(init.node, cls=ci) if not p.raises()]
        except Undecided:
            return out
        if not paths or len(paths) > 64:
            return out
        params = {a.arg for a in init.node.args.posonlyargs + init.node.args.args + init.node.args.kwonlyargs} - {'self'}
        finals = []
        for p in paths:
            last = {}
            for e in p.effects:
                if e.kind == 'store_attr' and isinstance(e.obj, ast.Name) and e.obj.id == 'self':
                    last[e.name] = e.value
            finals.append(last)
        # parameters kept unchanged
        kept = {}
        for prm in params:
            attrs = [a for a in finals[0] if all(isinstance(f.get(a), ast.Name) and f[a].id == prm for f in finals)]
            attrs = [a for a in attrs if a not in elsewhere and a not in other]
            if attrs:
                kept[prm] = attrs[0]

        class _S(ast.NodeTransformer):
            bad = False

            def visit_Name(self_, n):
                if n.id in kept:
                    return ast.Attribute(value=ast.Name(id='self', ctx=ast.Load()), attr=kept[n.id], ctx=ast.Load())
                if n.id in params or '@' in n.id or n.id.startswith('<'):
                    self_.bad = True
                return n

        def subst(e):
            t = _S()
            r = t.visit(copy.deepcopy(e))
            return None if t.bad else r
        attrs = set()
        for f in finals:
            attrs |= set(f)
        class _Fail(Exception):
            pass

        def tree(idx, depth, a):
            """decision tree over the path conditions, collapsed where the attribute does not depend on them"""
            vals = {canon(finals[i][a]) for i in idx}
            if len(vals) == 1:
                v = subst(finals[idx[0]][a])
                if v is None:
                    raise _Fail()
                return v
            gs = [paths[i].guards for i in idx]
            if any(len(g) <= depth for g in gs):
                raise _Fail()
            g0 = canon(gs[0][depth][0])
            if any(canon(g[depth][0]) != g0 for g in gs):
                raise _Fail()
            yes = [i for i in idx if paths[i].guards[depth][1]]
            no = [i for i in idx if not paths[i].guards[depth][1]]
            if not yes or not no:
                return tree(idx, depth + 1, a)
            ty, tn = tree(yes, depth + 1, a), tree(no, depth + 1, a)
            if canon(ty) == canon(tn):
                return ty
            test = subst(paths[idx[0]].guards[depth][0])
            if test is None:
                raise _Fail()
            return ast.IfExp(test=test, body=ty, orelse=tn)

        for a in sorted(attrs):
            if a in elsewhere or a in other or a in kept.values() or not all(a in f for f in finals):
                continue
            try:
                out['self.%s' % a] = ast.fix_missing_locations(tree(list(range(len(paths))), 0, a))
            except _Fail:
                continue
        return out

    def module_tables(self, module):
        """name -> dict display, for names bound exactly once, at module level, to a display whose
        keys are all constants, and that nothing in the module mutates (no stores / method calls
        other than get / keys / values / items on the name)"""
        key = ('mtables', module)
        if key in self._mro_cache:
            return self._mro_cache[key]
        tree = self.modules[module]['tree']
        out = {}
        stores = {}
        for n in ast.walk(tree):
            if isinstance(n, ast.Name) and isinstance(n.ctx, (ast.Store, ast.Del)):
                stores[n.id] = stores.get(n.id, 0) + 1
        for st in tree.body:
            if isinstance(st, ast.Assign) and len(st.targets) == 1 and isinstance(st.targets[0], ast.Name) and isinstance(st.value, ast.Dict) \
                    and st.value.keys and all(isinstance(k, ast.Constant) for k in st.value.keys) and stores.get(st.targets[0].id) == 1:
                out[st.targets[0].id] = st.value
        for n in ast.walk(tree):
            if isinstance(n, ast.Subscript) and isinstance(n.value, ast.Name) and n.value.id in out and isinstance(n.ctx, (ast.Store, ast.Del)):
                out.pop(n.value.id, None)
            elif isinstance(n, ast.Attribute) and isinstance(n.value, ast.Name) and n.value.id in out and n.attr not in ('get', 'keys', 'values', 'items', '__contains__', '__getitem__'):
                out.pop(n.value.id, None)
        self._mro_cache[key] = out
        return out

    def simple_constants(self, module):
        """NAME -> literal, for names bound exactly once at module level to a number / string / bytes /
        None / bool (enum-like constants)"""
        key = ('sconsts', module)
        if key in self._mro_cache:
            return self._mro_cache[key]
        tree = self.modules[module]['tree']
        stores = {}
        for n in ast.walk(tree):
            if isinstance(n, ast.Name) and isinstance(n.ctx, (ast.Store, ast.Del)):
                stores[n.id] = stores.get(n.id, 0) + 1
        out = {}
        for st in tree.body:
            if isinstance(st, ast.Assign) and len(st.targets) == 1 and isinstance(st.targets[0], ast.Name) and isinstance(st.value, ast.Constant) \
                    and stores.get(st.targets[0].id) == 1 and st.targets[0].id.upper() == st.targets[0].id:
                out[st.targets[0].id] = st.value.value
        self._mro_cache[key] = out
        return out

    def module_sequences(self, module):
        """name -> tuple / list display, for names bound exactly once, at module level, to a
        display of at most 8 elements that nothing in the module mutates"""
        key = ('mseqs', module)
        if key in self._mro_cache:
            return self._mro_cache[key]
        tree = self.modules[module]['tree']
        out, stores = {}, {}
        for n in ast.walk(tree):
            if isinstance(n, ast.Name) and isinstance(n.ctx, (ast.Store, ast.Del)):
                stores[n.id] = stores.get(n.id, 0) + 1
        for st in tree.body:
            if isinstance(st, ast.Assign) and len(st.targets) == 1 and isinstance(st.targets[0], ast.Name) and isinstance(st.value, (ast.Tuple, ast.List)) \
                    and 0 < len(st.value.elts) <= 8 and not any(isinstance(x, ast.Starred) for x in st.value.elts) and stores.get(st.targets[0].id) == 1:
                out[st.targets[0].id] = st.value
        for n in ast.walk(tree):
            if isinstance(n, ast.Subscript) and isinstance(n.value, ast.Name) and n.value.id in out and isinstance(n.ctx, (ast.Store, ast.Del)):
                out.pop(n.value.id, None)
            elif isinstance(n, ast.Attribute) and isinstance(n.value, ast.Name) and n.value.id in out and n.attr not in ('index', 'count', '__contains__', '__getitem__', '__iter__', '__len__'):
                out.pop(n.value.id, None)
            elif isinstance(n, ast.AugAssign) and isinstance(n.target, ast.Name) and n.target.id in out:
                out.pop(n.target.id, None)
        self._mro_cache[key] = out
        return out

    def class_tables(self, ci):
        """attr -> dict display, for class-level ``attr = {constant keys: ...}`` (through the MRO)
        that nothing in the package stores or mutates"""
        key = ('ctables', ci.qual)
        if key in self._mro_cache:
            return self._mro_cache[key]
        out = {}
        stored = self._stored_attr_names()
        for c in reversed(self.mro(ci)):
            for st in c.node.body:
                if isinstance(st, ast.Assign) and len(st.targets) == 1 and isinstance(st.targets[0], ast.Name) and isinstance(st.value, ast.Dict) \
                        and st.value.keys and all(isinstance(k, ast.Constant) for k in st.value.keys) and st.targets[0].id not in stored:
                    out[st.targets[0].id] = st.value
        mutated = set()
        for info in self.modules.values():
            for n in ast.walk(info['tree']):
                if isinstance(n, ast.Subscript) and isinstance(n.ctx, (ast.Store, ast.Del)) and isinstance(n.value, ast.Attribute) and n.value.attr in out:
                    mutated.add(n.value.attr)
                elif isinstance(n, ast.Attribute) and isinstance(n.value, ast.Attribute) and n.value.attr in out and n.attr in ('update', 'pop', 'setdefault', 'clear', 'popitem', '__setitem__'):
                    mutated.add(n.value.attr)
        for m in mutated:
            out.pop(m, None)
        self._mro_cache[key] = out
        return out

    def module_level_name(self, module, name):
        """is ``name`` bound by an assignment at the top level of the module?"""
        tree = self.modules[module]['tree']
        return any(isinstance(st, (ast.Assign, ast.AnnAssign, ast.AugAssign)) and any(isinstance(x, ast.Name) and x.id == name and isinstance(x.ctx, ast.Store) for x in ast.walk(st))
                   for st in tree.body)

    def private_sentinels(self):
        """module-private names bound once to a fresh ``object()``: markers for "no value given".
        Modelling assumption (stated in the evidence): a value that enters through a parameter
        is never such an object -- nothing outside the module can name it"""
        if getattr(self, '_sentinels', None) is None:
            out = set()
            for mod, info in self.modules.items():
                tree = info['tree']
                stores = {}
                for n in ast.walk(tree):
                    if isinstance(n, ast.Name) and isinstance(n.ctx, (ast.Store, ast.Del)):
                        stores[n.id] = stores.get(n.id, 0) + 1
                for st in tree.body:
                    if isinstance(st, ast.Assign) and len(st.targets) == 1 and isinstance(st.targets[0], ast.Name) and st.targets[0].id.startswith('_') \
                            and isinstance(st.value, ast.Call) and isinstance(st.value.func, ast.Name) and st.value.func.id == 'object' and not st.value.args \
                            and stores.get(st.targets[0].id) == 1:
                        out.add(st.targets[0].id)
            self._sentinels = out
        return self._sentinels

    def function_makers(self):
        """names of package functions whose every return is a lambda: what they return is a plain
        function (callable, not an int, not a Field, not None)"""
        if getattr(self, '_makers', None) is None:
            out = set()
            for (m, n), fi in self.module_funcs.items():
                rets = [r for r in ast.walk(fi.node) if isinstance(r, ast.Return)]
                if rets and all(isinstance(r.value, ast.Lambda) for r in rets):
                    out.add(n)
            self._makers = out
        return self._makers

    def note_context_managers(self):
        from . import lts
        lts.PACKAGE_CONTEXT_MANAGERS.clear()
        lts.PACKAGE_CONTEXT_MANAGERS.update(c.name for c in self.classes.values() if '__exit__' in c.methods)
        # functions decorated with contextlib.contextmanager are context managers too
        for (m, n), fi in self.module_funcs.items():
            if any('contextmanager' in ast.unparse(d) for d in fi.node.decorator_list):
                lts.PACKAGE_CONTEXT_MANAGERS.add(n)

    def records(self):
        """immutable record types of the package: name -> (fields, {method: (params, expression)},
        {property: expression}).  ``X = namedtuple('X', ...)`` and ``class X(namedtuple('X', ...))``
        whose methods are single return statements.  A name bound twice is not a record."""
        if '_records' in self.__dict__:
            return self.__dict__['_records']
        out, seen = {}, {}

        def fields_of(call):
            if not (isinstance(call, ast.Call) and call_name(call) in ('namedtuple', 'collections.namedtuple') and len(call.args) == 2 and not call.keywords):
                return None
            a = call.args[1]
            if isinstance(a, ast.Constant) and isinstance(a.value, str):
                return a.value.replace(',', ' ').split()
            if isinstance(a, (ast.List, ast.Tuple)) and all(isinstance(x, ast.Constant) and isinstance(x.value, str) for x in a.elts):
                return [x.value for x in a.elts]
            return None
        for mod in self.modules.values():
            for st in mod['tree'].body:
                if isinstance(st, ast.Assign) and len(st.targets) == 1 and isinstance(st.targets[0], ast.Name):
                    seen[st.targets[0].id] = seen.get(st.targets[0].id, 0) + 1
                    f = fields_of(st.value)
                    if f is not None:
                        out[st.targets[0].id] = (f, {}, {})
                elif isinstance(st, (ast.ClassDef, ast.FunctionDef)):
                    seen[st.name] = seen.get(st.name, 0) + 1
                    if isinstance(st, ast.ClassDef) and len(st.bases) == 1 and not st.keywords:
                        f = fields_of(st.bases[0])
                        if f is None:
                            continue
                        meths, props, ok = {}, {}, True
                        for b in st.body:
                            if isinstance(b, ast.Expr) and isinstance(b.value, ast.Constant):
                                continue
                            if isinstance(b, ast.Assign) and len(b.targets) == 1 and canon(b.targets[0]) == '__slots__':
                                continue
                            if isinstance(b, ast.FunctionDef) and not b.name.startswith('__'):
                                body = [x for x in b.body if not (isinstance(x, ast.Expr) and isinstance(x.value, ast.Constant))]
                                a = b.args
                                plain = not (a.vararg or a.kwarg or a.kwonlyargs or a.posonlyargs or a.defaults) and a.args and a.args[0].arg == 'self'
                                decs = [canon(d) for d in b.decorator_list]
                                if plain and len(body) == 1 and isinstance(body[0], ast.Return) and body[0].value is not None and decs in ([], ['property']):
                                    if decs:
                                        props[b.name] = body[0].value
                                    else:
                                        meths[b.name] = ([x.arg for x in a.args[1:]], body[0].value)
                                continue
                            ok = False
                        if ok:
                            out[st.name] = (f, meths, props)
        out = {k: v for k, v in out.items() if seen.get(k) == 1}
        self.__dict__['_records'] = out
        return out

    def record_constants(self):
        """module-level names bound once to a record built from constants
        (``_KEEP = Policy(1, 0, False)``): name -> the constructor call"""
        if '_record_constants' in self.__dict__:
            return self.__dict__['_record_constants']
        recs = self.records()
        out, seen = {}, {}
        for mod in self.modules.values():
            for st in mod['tree'].body:
                if isinstance(st, ast.Assign):
                    for t in st.targets:
                        if isinstance(t, ast.Name):
                            seen[t.id] = seen.get(t.id, 0) + 1
                    v = st.value
                    if len(st.targets) == 1 and isinstance(st.targets[0], ast.Name) and isinstance(v, ast.Call) and isinstance(v.func, ast.Name) and v.func.id in recs \
                            and all(isinstance(a, ast.Constant) for a in v.args) and all(k.arg and isinstance(k.value, ast.Constant) for k in v.keywords):
                        out[st.targets[0].id] = v
                elif isinstance(st, (ast.ClassDef, ast.FunctionDef)):
                    seen[st.name] = seen.get(st.name, 0) + 1
        # nothing in the package rebinds the name (global statement)
        for fi in self.functions.values():
            for n in ast.walk(fi.node):
                if isinstance(n, ast.Global):
                    for nm in n.names:
                        out.pop(nm, None)
        out = {k: v for k, v in out.items() if seen.get(k) == 1}
        self.__dict__['_record_constants'] = out
        return out

    def walker(self, inline_depth=0, max_paths=4096, recv_types=None, fold=None, tag=None, keep=None, split_ifexp=False):
        sent = self.private_sentinels()
        makers = self.function_makers()
        if makers:
            inner0 = fold

            def fold(t, _inner=inner0):
                r = _inner(t) if _inner is not None else None
                if r is not None:
                    return r
                neg = False
                while isinstance(t, ast.UnaryOp) and isinstance(t.op, ast.Not):
                    t, neg = t.operand, not neg
                if isinstance(t, ast.Call) and isinstance(t.func, ast.Name) and t.func.id in ('isinstance', 'callable') and t.args:
                    x = t.args[0]
                    is_fn = isinstance(x, ast.Lambda) or (isinstance(x, ast.Call) and isinstance(x.func, ast.Name) and x.func.id in makers)
                    if is_fn:
                        if t.func.id == 'callable':
                            return not neg
                        cl = t.args[1] if len(t.args) > 1 else None
                        names = [canon(c) for c in (cl.elts if isinstance(cl, ast.Tuple) else [cl])] if cl is not None else []
                        if names and all(nm in ('int', 'str', 'bytes', 'float', 'bool', 'list', 'tuple', 'dict', 'Field', 'Packet', 'UnaryExpr', 'BinaryExpr', 'NaryExpr', 'Prototype') for nm in names):
                            return neg
                return None
        if sent:
            inner = fold

            def fold(t, _inner=inner):
                r = _inner(t) if _inner is not None else None
                if r is not None:
                    return r
                # <parameter> is <private sentinel>: never
                if isinstance(t, ast.Compare) and len(t.ops) == 1 and isinstance(t.ops[0], (ast.Is, ast.IsNot)):
                    a, b = t.left, t.comparators[0]
                    for x, y in ((a, b), (b, a)):
                        if isinstance(x, ast.Name) and x.id in sent and isinstance(y, ast.Name) and y.id not in sent and '@' not in y.id and not y.id.startswith('<'):
                            return isinstance(t.ops[0], ast.IsNot)
                return None
        # comparisons between enum-like module constants (UPPER_CASE names bound once to literals)
        inner_c = fold
        repo_ = self

        def fold(t, _inner=inner_c):
            r = _inner(t) if _inner is not None else None
            if r is not None:
                return r
            mod0 = getattr(w, 'module', None)
            if isinstance(t, ast.Compare) and len(t.ops) == 1 and isinstance(t.ops[0], (ast.Eq, ast.NotEq, ast.Is, ast.IsNot)):
                # Class.CONSTANT against Class.CONSTANT (class-level literals that nothing rebinds)
                def cval(x):
                    if isinstance(x, ast.Attribute) and isinstance(x.value, ast.Name) and x.value.id in repo_.classes and x.attr.upper() == x.attr:
                        ci_ = repo_.classes[x.value.id]
                        vals_ = [st_.value for st_ in ci_.node.body if isinstance(st_, ast.Assign) and len(st_.targets) == 1 and isinstance(st_.targets[0], ast.Name) and st_.targets[0].id == x.attr]
                        if len(vals_) == 1 and isinstance(vals_[0], ast.Constant) and x.attr not in repo_._stored_attr_names():
                            return ('c', vals_[0].value)
                    return None
                a_, b_ = cval(t.left), cval(t.comparators[0])
                if a_ is not None and b_ is not None:
                    same = type(a_[1]) is type(b_[1]) and a_[1] == b_[1]
                    return same if isinstance(t.ops[0], (ast.Eq, ast.Is)) else not same
            if isinstance(t, ast.Compare) and len(t.ops) == 1 and isinstance(t.ops[0], (ast.Eq, ast.NotEq)) and mod0 and mod0 in repo_.modules \
                    and isinstance(t.comparators[0], ast.Constant) and t.comparators[0].value == 0 and isinstance(t.left, ast.BinOp):
                # the linear normal form  A + -1*B == 0  of a comparison between two enum-like constants
                sc = repo_.simple_constants(mod0)
                names_ = [x for x in ast.walk(t.left) if isinstance(x, ast.Name)]
                if names_ and all(x.id in sc and isinstance(sc[x.id], int) and not isinstance(sc[x.id], bool) for x in names_) \
                        and all(isinstance(x, (ast.Name, ast.Constant, ast.BinOp, ast.UnaryOp, ast.operator, ast.unaryop, ast.expr_context)) for x in ast.walk(t.left)):
                    try:
                        val = eval(compile(ast.fix_missing_locations(ast.Expression(body=copy.deepcopy(t.left))), '<fold>', 'eval'), {'__builtins__': {}}, dict(sc))
                        return (val == 0) if isinstance(t.ops[0], ast.Eq) else (val != 0)
                    except Exception:
                        pass
            if isinstance(t, ast.Compare) and len(t.ops) == 1 and isinstance(t.ops[0], (ast.Eq, ast.NotEq, ast.Is, ast.IsNot)):
                mod = getattr(w, 'module', None)
                if mod and mod in repo_.modules:
                    sc = repo_.simple_constants(mod)
                    vals = []
                    for x in (t.left, t.comparators[0]):
                        if isinstance(x, ast.Name) and x.id in sc:
                            vals.append(('c', sc[x.id]))
                        elif isinstance(x, ast.Constant):
                            vals.append(('c', x.value))
                        else:
                            vals.append(None)
                    if vals[0] is not None and vals[1] is not None and (isinstance(t.left, ast.Name) or isinstance(t.comparators[0], ast.Name)):
                        same = type(vals[0][1]) is type(vals[1][1]) and vals[0][1] == vals[1][1]
                        return same if isinstance(t.ops[0], (ast.Eq, ast.Is)) else not same
            return None
        w = Walker(self.resolver(recv_types), max_paths=max_paths, inline_depth=inline_depth, fold=fold, tag=tag, keep=keep)
        w.class_constant = self.class_constant
        w.module_tables = self.module_tables
        w.class_tables = self.class_tables
        w.module_sequences = self.module_sequences
        w.records = self.records()
        w.record_consts = self.record_constants()
        w.split_ifexp = split_ifexp
        return w

    # ------------------------------------------------------ strategy table
    def strategies(self, ci):
        """which functions can end up behind ``.pack`` / ``.unpack`` of a field
        class: list of dict(guards, pack FuncInfo|None, unpack FuncInfo|None).
        Method values assigned in ``_compile`` are followed (DESIGN A.1)."""
        comp = self.method(ci, '_compile')
        base = {'pack': self.method(ci, 'pack'), 'unpack': self.method(ci, 'unpack')}
        out = []

        def _binds(fi_):
            return fi_ is not None and any(isinstance(n, ast.Attribute) and isinstance(n.ctx, ast.Store) and n.attr in ('pack', 'unpack')
                                           and isinstance(n.value, ast.Name) and n.value.id == 'self' for n in ast.walk(fi_.node))
        # a class that chooses its pack / unpack in its own constructor (and whose _compile does not):
        # the constructor is the installer, its paths give the strategies
        own_init = ci.methods.get('__init__')
        compile_binds = any(_binds(m_) for c_ in self.mro(ci) for n_, m_ in c_.methods.items() if n_.startswith('_compile') or n_.startswith('_bind') or n_.startswith('_install'))
        if not _binds(comp) and not compile_binds and _binds(own_init):
            comp = own_init
        if comp is None:
            return [dict(guards=[], pack=base['pack'], unpack=base['unpack'], assigned=set())]
        w = Walker(None)
        w.module_tables = self.module_tables
        w.class_tables = self.class_tables
        seen = set()
        for p in w.paths(comp.node, cls=ci):
            if p.raises():
                continue
            cur = dict(base)
            assigned = set()
            undecided = None
            defs = {}
            for e in p.effects:
                if e.kind == 'store_attr' and isinstance(e.obj, ast.Name) and e.obj.id == 'self' and e.name not in ('pack', 'unpack'):
                    defs[e.name] = e.raw if e.raw is not None else e.value   # in terms of the attributes it reads
                if e.kind == 'store_attr' and isinstance(e.obj, ast.Name) and e.obj.id == 'self' and e.name in ('pack', 'unpack'):
                    v = e.value
                    if isinstance(v, ast.Attribute) and isinstance(v.value, ast.Name) and v.value.id == 'self':
                        fi = self.method(ci, v.attr)
                        if fi is None:
                            undecided = 'self.%s assigned to unknown method %s' % (e.name, v.attr)
                        cur[e.name] = fi
                        assigned.add(e.name)
                    else:
                        undecided = 'self.%s assigned a value that is not a method of self: %s' % (e.name, canon(v))
            if undecided:
                raise Undecided('%s._compile: %s' % (ci.name, undecided))
            # guards relevant for strategy selection only (drop unrelated ones)
            g = [t for t in p.guard_texts()]
            # method values parked in other attributes (a resolver chosen at compile time and called
            # by the strategy) distinguish strategies that share their pack / unpack functions
            mdefs = tuple(sorted((a_, v_.attr) for a_, v_ in defs.items()
                                 if isinstance(v_, ast.Attribute) and isinstance(v_.value, ast.Name) and v_.value.id == 'self' and self.method(ci, v_.attr) is not None))
            key = (cur['pack'].id if cur['pack'] else None, cur['unpack'].id if cur['unpack'] else None) + mdefs
            if key in seen:
                for o in out:
                    if o['key'] == key:
                        o['guard_sets'].append(g)
                        for a_, v_ in defs.items():
                            lst = o['alts'].setdefault(a_, [])
                            if canon(v_) not in [canon(x) for x in lst]:
                                lst.append(v_)
                        # keep the definitions every compile path of this strategy agrees on; when
                        # they differ only in the arguments of the same constructor call, keep the
                        # constructor with opaque arguments (it is still "a struct.Struct")
                        for a_ in list(o['defs']):
                            if a_ in defs and canon(defs[a_]) == canon(o['defs'][a_]):
                                continue
                            old, new = o['defs'][a_], defs.get(a_)
                            if isinstance(old, ast.Call) and isinstance(new, ast.Call) and call_name(old) and call_name(old) == call_name(new):
                                o['defs'][a_] = ast.Call(func=old.func, args=[ast.Name(id='<differs between compile paths>', ctx=ast.Load())], keywords=[])
                            else:
                                del o['defs'][a_]
                continue
            seen.add(key)
            out.append(dict(key=key, guards=g, guard_sets=[g], pack=cur['pack'], unpack=cur['unpack'], assigned=assigned, defs=defs,
                            alts={a_: [v_] for a_, v_ in defs.items()}))
        # an attribute is a compile-time constant of the strategy only if nothing outside the
        # declaration / compile phase ever stores it
        late = self.runtime_stored_attrs(ci)
        for o in out:
            for a_ in list(o['defs']):
                if a_ in late:
                    del o['defs'][a_]
            for a_ in list(o['alts']):
                if a_ in late:
                    del o['alts'][a_]
        return out

    def strategy_alternatives(self, strat, attrs, limit=8):
        """the ways the compile paths of one strategy define the attributes ``attrs``: a list of
        {'self.attr': value} (one per combination of the values the paths give them)"""
        import itertools
        names = [a for a in sorted(attrs) if a in strat.get('alts', {})]
        combos = [[]]
        for a in names:
            combos = [c + [(a, v)] for c in combos for v in strat['alts'][a]]
            if len(combos) > limit:
                return None
        return [{'self.%s' % a: v for a, v in c} for c in combos]

    def runtime_stored_attrs(self, ci):
        """attribute names some method other than __init__ / _compile / _compile_impl / init-time
        helpers stores on self (anywhere in the class hierarchy)"""
        out = set()
        classes = set(self.mro(ci)) | set(self.subclasses(ci.name))
        for c in classes:
            for name, fi in c.methods.items():
                if name in ('__init__', '_compile', '_compile_impl', '__new__') or name in self.absorbed:
                    continue      # (an absorbed helper's statements live in its callers)
                for n in ast.walk(fi.node):
                    if isinstance(n, ast.Attribute) and isinstance(n.ctx, (ast.Store, ast.Del)) and isinstance(n.value, ast.Name) and n.value.id == 'self':
                        out.add(n.attr)
                    elif isinstance(n, ast.Call) and isinstance(n.func, ast.Name) and n.func.id == 'setattr' and n.args and isinstance(n.args[0], ast.Name) and n.args[0].id == 'self':
                        out.add('*')
        return out

    def strategy_consts(self, strat, keep=()):
        """``self.<attr>`` -> defining expression, for the attributes _compile computes on the
        path that installs the strategy and that the caller does not name in ``keep``"""
        return {'self.%s' % a: v for a, v in strat.get('defs', {}).items() if a not in keep}

    def field_classes(self):
        return self.subclasses('Field')

    # ---------------------------------------------------------- templates
    def _named_templates(self, fi, ref):
        """[(name, text)] for a template referred to by name: a module-level constant, a class-level
        constant (self.X / Class.X / cls.X), or a parameter of ``fi`` to which every caller in the
        module passes such a constant"""
        mod = self.modules[fi.module]['tree']

        def const_of(e):
            name = None
            if isinstance(e, ast.Name):
                name = e.id
                for st in mod.body:
                    if isinstance(st, ast.Assign) and len(st.targets) == 1 and isinstance(st.targets[0], ast.Name) and st.targets[0].id == name \
                            and isinstance(st.value, ast.Constant) and isinstance(st.value.value, str):
                        return name, st.value.value
            if isinstance(e, ast.Attribute) and isinstance(e.value, ast.Name) and (e.value.id in ('self', 'cls') or e.value.id in self.classes):
                owner = fi.cls if e.value.id in ('self', 'cls') else self.classes[e.value.id]
                if owner is not None:
                    for k in self.mro(owner):
                        for st in k.node.body:
                            if isinstance(st, ast.Assign) and len(st.targets) == 1 and isinstance(st.targets[0], ast.Name) and st.targets[0].id == e.attr \
                                    and isinstance(st.value, ast.Constant) and isinstance(st.value.value, str):
                                return e.attr, st.value.value
            return None
        c = const_of(ref)
        if c is not None:
            return [c] if ('\n' in c[1] and HOLE.search(c[1])) else []
        if isinstance(ref, ast.Name):
            a = fi.node.args
            params = [x.arg for x in a.args]
            if ref.id in params:
                idx = params.index(ref.id) - (1 if params and params[0] in ('self', 'cls') and fi.cls is not None else 0)
                got = []
                for other in self.functions.values():
                    if other.module != fi.module:
                        continue
                    for call in ast.walk(other.node):
                        if isinstance(call, ast.Call) and ((isinstance(call.func, ast.Attribute) and call.func.attr == fi.node.name) or (isinstance(call.func, ast.Name) and call.func.id == fi.node.name)):
                            arg = call.args[idx] if 0 <= idx < len(call.args) else next((k.value for k in call.keywords if k.arg == ref.id), None)
                            cc = const_of(arg) if arg is not None else None
                            if cc is None:
                                return []
                            if cc not in got:
                                got.append(cc)
                return [g for g in got if '\n' in g[1] and HOLE.search(g[1])]
        return []

    def templates(self):
        """the string templates of codegen.py parsed with typed holes
        (DESIGN 2.2 / A.7).  Returns list of Template."""
        mod = self.modules.get('codegen')
        Template._repo = self
        if mod is None:
            raise Undecided('bisturi/codegen.py not found')
        out = []
        named_seen = set()
        for fi in self.functions.values():
            if fi.module != 'codegen':
                continue
            for n in ast.walk(fi.node):
                if hasattr(n, '_inl'):
                    # copy made by helper expansion: the template belongs to the helper -- except that a
                    # template *parameter* of the helper is, in the copy, the constant this caller passed
                    if isinstance(n, ast.BinOp) and isinstance(n.op, ast.Mod) and isinstance(n.left, (ast.Name, ast.Attribute)):
                        consts = self._named_templates(fi, n.left)
                        right = n.right
                        if consts and isinstance(right, ast.Dict) and consts[0][0] not in named_seen:
                            fake = ast.BinOp(left=ast.Constant(value=consts[0][1]), op=ast.Mod(), right=right)
                            ast.copy_location(fake, n)
                            ast.copy_location(fake.left, n)
                            tpl = Template(fi, fake, right)
                            tpl.variant = tpl.named = consts[0][0]
                            named_seen.add(consts[0][0])
                            out.append(tpl)
                    continue
                texts = None
                if isinstance(n, ast.BinOp) and isinstance(n.op, ast.Mod) and isinstance(n.left, ast.BinOp) and isinstance(n.left.op, ast.Add):
                    # a template put together from pieces: literal parts and locals that hold one
                    # of a few literal parts -- one template per combination
                    texts = _assembled_texts(fi.node, n.left)
                    if texts and not any('\n' in t and HOLE.search(t) for t in texts):
                        texts = None
                if texts:
                    right = n.right
                    if isinstance(right, ast.Name):
                        for a in ast.walk(fi.node):
                            if isinstance(a, ast.Assign) and isinstance(a.targets[0], ast.Name) and a.targets[0].id == right.id and isinstance(a.value, ast.Dict):
                                right = a.value
                    if isinstance(right, ast.Dict):
                        for i, t in enumerate(texts):
                            fake = ast.BinOp(left=ast.Constant(value=t), op=ast.Mod(), right=n.right)
                            ast.copy_location(fake, n)
                            ast.copy_location(fake.left, n)
                            tpl = Template(fi, fake, right)
                            tpl.variant = i
                            out.append(tpl)
                    continue
                # NAME % {...} / self.NAME % {...} / Class.NAME % {...}: the template kept in a module-level
                # or class-level constant; PARAM % {...}: one template per constant the callers pass
                if isinstance(n, ast.BinOp) and isinstance(n.op, ast.Mod) and isinstance(n.left, (ast.Name, ast.Attribute)) and not hasattr(n, '_tplres'):
                    consts = self._named_templates(fi, n.left)
                    if consts:
                        right = n.right
                        if isinstance(right, ast.Name):
                            for a in ast.walk(fi.node):
                                if isinstance(a, ast.Assign) and isinstance(a.targets[0], ast.Name) and a.targets[0].id == right.id and isinstance(a.value, ast.Dict):
                                    right = a.value
                        if isinstance(right, ast.Dict):
                            for i, (label, text) in enumerate(consts):
                                if label in named_seen:
                                    continue
                                named_seen.add(label)
                                fake = ast.BinOp(left=ast.Constant(value=text), op=ast.Mod(), right=n.right)
                                ast.copy_location(fake, n)
                                ast.copy_location(fake.left, n)
                                fake.lineno = n.lineno + i * 0
                                tpl = Template(fi, fake, right)
                                tpl.variant = label
                                tpl.named = label
                                out.append(tpl)
                        continue
                if isinstance(n, ast.BinOp) and isinstance(n.op, ast.Mod) and isinstance(n.left, ast.Constant) \
                        and isinstance(n.left.value, str) and '\n' in n.left.value and HOLE.search(n.left.value):
                    right = n.right
                    if isinstance(right, ast.Name):
                        # '''...''' % params  with  params = {...}  assigned in the same function
                        name = right.id
                        for a in ast.walk(fi.node):
                            if isinstance(a, ast.Assign) and isinstance(a.targets[0], ast.Name) and a.targets[0].id == name and isinstance(a.value, ast.Dict):
                                right = a.value
                    if isinstance(right, ast.Dict):
                        out.append(Template(fi, n, right))
        # a hole filled with one of a few literal texts chosen by a condition: one template per text
        expanded = []
        for t in out:
            alts = None
            for key, v in t.values.items():
                texts = _literal_alternatives(v)
                if texts is not None and len(texts) > 1 and key in t.holes:
                    alts = (key, texts)
                    break
            if alts is None:
                expanded.append(t)
                continue
            key, texts = alts
            for i, txt in enumerate(texts):
                new_text = t.text.replace('%%(%s)s' % key, txt.replace('%', '%%'))
                fake = ast.BinOp(left=ast.Constant(value=new_text), op=ast.Mod(), right=t.node.right)
                ast.copy_location(fake, t.node)
                ast.copy_location(fake.left, t.node)
                mapping = ast.Dict(keys=[ast.Constant(value=k) for k in t.values if k != key], values=[v_ for k, v_ in t.values.items() if k != key])
                tv = Template(t.func, fake, mapping)
                tv.variant = '%s=%r' % (key, txt[:30])
                expanded.append(tv)
        out = expanded
        # de-duplicate (ast.walk of outer function also sees nested ones)
        uniq = {}
        for t in out:
            uniq.setdefault(id(t.node), t)
        # a function nested in another is walked twice; keep innermost owner
        res = {}
        for t in uniq.values():
            k = id(t.node)
            if k not in res or len(t.func.qual) > len(res[k].func.qual):
                res[k] = t
        return sorted(res.values(), key=lambda t: t.node.lineno)


HOLE = re.compile(r'%\((\w+)\)([sdi])')


def _literal_alternatives(v, limit=4):
    """[text, ...] when the expression is a string literal or a conditional expression whose arms
    are (recursively) string literals"""
    if isinstance(v, ast.Constant) and isinstance(v.value, str):
        return [v.value]
    if isinstance(v, ast.IfExp):
        a, b = _literal_alternatives(v.body, limit), _literal_alternatives(v.orelse, limit)
        if a is not None and b is not None and len(a) + len(b) <= limit:
            return a + b
    return None


def _assembled_texts(func, e, limit=8):
    """the texts ``a + b + c`` can be when every part is a string literal or a local that is only
    ever assigned string literals (None when a part is something else)"""
    parts = []

    def flat(x):
        if isinstance(x, ast.BinOp) and isinstance(x.op, ast.Add):
            flat(x.left)
            flat(x.right)
        else:
            parts.append(x)
    flat(e)
    alts = []
    for p in parts:
        if isinstance(p, ast.Constant) and isinstance(p.value, str):
            alts.append([p.value])
        elif isinstance(p, ast.Name):
            vals = [a.value for a in ast.walk(func) if isinstance(a, ast.Assign) and any(isinstance(t, ast.Name) and t.id == p.id for t in a.targets)]
            stores = sum(1 for x in ast.walk(func) if isinstance(x, ast.Name) and x.id == p.id and isinstance(x.ctx, (ast.Store, ast.Del)))
            if not vals or stores != len(vals) or not all(isinstance(v, ast.Constant) and isinstance(v.value, str) for v in vals):
                return None
            alts.append(sorted({v.value for v in vals}))
        else:
            return None
    out = ['']
    for a in alts:
        out = [o + x for o in out for x in a]
        if len(out) > limit:
            return None
    return out


class Template:
    """one ``'''...''' % {...}`` template: text, holes, values, parsed AST"""

    def __init__(self, func, node, mapping=None):
        self.func = func
        self.node = node
        self.text = node.left.value
        self.values = {}
        mapping = mapping if mapping is not None else node.right
        for k, v in zip(mapping.keys, mapping.values):
            if isinstance(k, ast.Constant) and isinstance(k.value, str):
                self.values[k.value] = v
        self.holes = [m.group(1) for m in HOLE.finditer(self.text)]
        self.lineno = node.lineno
        self.tree = None
        self.error = None
        self._parse()

    def _parse(self):
        lines = []
        src_lines = []
        for line in self.text.split('\n'):
            toks = HOLE.findall(line.strip())
            if len(toks) >= 2 and HOLE.sub('', line.strip()) == '':
                # several statement holes glued on one line: one hole per line
                ind_ = line[:len(line) - len(line.lstrip())]
                src_lines.extend(ind_ + mm.group(0) for mm in HOLE.finditer(line.strip()))
            else:
                src_lines.append(line)
        for line in src_lines:
            m = HOLE.fullmatch(line.strip())
            if m:
                key = m.group(1)
                if key == 'comments':
                    lines.append(line.replace(m.group(0), '# <comments>'))
                    continue
                # a hole filled by a generator method that returns constant text for constant
                # arguments (self.handlers_code(True, 'offset')): the text stands in the template
                spliced = self._constant_text_of(key)
                if spliced is not None:
                    self.spliced = getattr(self, 'spliced', []) + [key]
                    lines.extend(HOLE.sub(lambda mm: '__HOLE_%s__' % mm.group(1), l_) for l_ in spliced.rstrip('\n').split('\n'))
                    continue
                # statement hole; indentation = that prescribed for the hole value
                ind = line[:len(line) - len(line.lstrip())]
                lvl = self.hole_indent(key)
                if lvl is not None and not ind:
                    ind = ' ' * lvl
                lines.append('%s__HOLE_%s__' % (ind, key))
            else:
                lines.append(HOLE.sub(lambda mm: '__HOLE_%s__' % mm.group(1), line))
        self.holed = '\n'.join(lines)
        try:
            self.tree = ast.parse(textwrap.dedent(self.holed))
        except SyntaxError as e:
            self.error = str(e)

    def _constant_text_of(self, key):
        """the text of a hole whose value is ``self.<method>(<constants>)`` when that method is one
        ``return <literal> % {<name>: <parameter>...}`` (or a bare literal): the literal with the
        constants in place; None when it is anything else"""
        v = self.values.get(key)
        if isinstance(v, ast.BinOp) and isinstance(v.op, ast.Mod) and isinstance(v.left, ast.Name) and getattr(Template, '_repo', None) is not None:
            # a module-level template constant
            tree_ = Template._repo.modules.get(self.func.module, {}).get('tree')
            binds_ = [st_.value for st_ in (tree_.body if tree_ is not None else []) if isinstance(st_, ast.Assign) and len(st_.targets) == 1
                      and isinstance(st_.targets[0], ast.Name) and st_.targets[0].id == v.left.id]
            if len(binds_) == 1 and isinstance(binds_[0], ast.Constant) and isinstance(binds_[0].value, str):
                v = ast.BinOp(left=binds_[0], op=v.op, right=v.right)
        if isinstance(v, ast.BinOp) and isinstance(v.op, ast.Mod) and isinstance(v.left, ast.Constant) and isinstance(v.left.value, str) and '\n' in v.left.value \
                and isinstance(v.right, ast.Dict) and all(isinstance(k_, ast.Constant) and isinstance(v_, ast.Constant) for k_, v_ in zip(v.right.keys, v.right.values)):
            # the same after the generator method was expanded in place
            try:
                return v.left.value % {k_.value: v_.value for k_, v_ in zip(v.right.keys, v.right.values)}
            except Exception:
                return None
        if not (isinstance(v, ast.Call) and isinstance(v.func, ast.Attribute) and isinstance(v.func.value, ast.Name) and v.func.value.id == 'self'
                and self.func.cls is not None and not v.keywords and all(isinstance(a, ast.Constant) for a in v.args)):
            return None
        m = self.func.cls.methods.get(v.func.attr)
        if m is None or not isinstance(m.node, ast.FunctionDef):
            return None
        body = [b for b in m.node.body if not (isinstance(b, ast.Expr) and isinstance(b.value, ast.Constant))]
        if len(body) != 1 or not isinstance(body[0], ast.Return) or body[0].value is None:
            return None
        params = [a.arg for a in m.node.args.args][1:]
        if len(params) != len(v.args):
            return None
        bound = dict(zip(params, [a.value for a in v.args]))
        r = body[0].value
        if isinstance(r, ast.Constant) and isinstance(r.value, str):
            return r.value
        if isinstance(r, ast.BinOp) and isinstance(r.op, ast.Mod) and isinstance(r.left, ast.Constant) and isinstance(r.left.value, str) and isinstance(r.right, ast.Dict):
            mp = {}
            for k_, v_ in zip(r.right.keys, r.right.values):
                if not (isinstance(k_, ast.Constant) and isinstance(v_, ast.Name) and v_.id in bound):
                    return None
                mp[k_.value] = bound[v_.id]
            try:
                return r.left.value % mp
            except Exception:
                return None
        return None

    def hole_indent(self, key):
        """columns of indentation of a statement hole, from the ``indent(...,
        level=N)`` call (3 columns per level) or the literal prefix of the
        generated sync code"""
        v = self.values.get(key)
        if v is None:
            return None
        if isinstance(v, ast.Call) and isinstance(v.func, ast.Name) and v.func.id == 'indent':
            lvl = 1
            for k in v.keywords:
                if k.arg == 'level' and isinstance(k.value, ast.Constant):
                    lvl = k.value.value
            if len(v.args) > 1 and isinstance(v.args[1], ast.Constant):
                lvl = v.args[1].value
            return 3 * lvl
        if isinstance(v, ast.Call) and isinstance(v.func, ast.Attribute) and v.func.attr == 'generate_unrolled_code_for_descriptor_sync':
            # the literal prefix of the generated sync code: statements of the driver (3 columns),
            # unless the generator emits whole functions (text that starts with ``def``)
            gen = self.func.cls.methods.get(v.func.attr) if self.func.cls is not None else None
            if gen is not None and any(isinstance(c, ast.Constant) and isinstance(c.value, str) and c.value.lstrip(' ').startswith('def ') for c in ast.walk(gen.node)):
                return None
            return 3
        return None

    def defines(self):
        """names of functions defined by the template"""
        if self.tree is None:
            return []
        return [n.name for n in self.tree.body if isinstance(n, ast.FunctionDef)]

    def funcdef(self, name):
        for n in self.tree.body:
            if isinstance(n, ast.FunctionDef) and n.name == name:
                return n
        return None

    def __repr__(self):
        return '<template %s@%d holes=%s>' % (self.func.qual, self.lineno, self.holes)
