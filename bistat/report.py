"""Obligations, verdicts, evidence files, known findings, exit codes."""
import json
import os
import sys
import time

from . import Undecided

VERIF = os.path.dirname(os.path.dirname(os.path.abspath(__file__)))
EVIDENCE_DIR = os.path.join(VERIF, 'evidence')
KNOWN = os.path.join(VERIF, 'known_findings.json')

HOLDS, VIOLATION, UNDECIDED = 'HOLDS', 'VIOLATION', 'UNDECIDED'

# rules whose violations are positive evidence whatever else the function does (a store into a
# shared object is a store): never downgraded by the closed-world gate
CACHE_RULES = ('R10-atomic', 'R10-race', 'R10-validate', 'R10-hash', 'R10-cookie', 'R10-bytecode', 'R10-tolerant', 'R10-load', 'R4-generated-code-is-current')
WITNESS_RULES = {'R5-runtime-stateless', 'R5-no-compile-at-runtime', 'R5-fixture'}


class Ob:
    """one rule instance evaluated on one construct"""
    __slots__ = ('rule', 'file', 'function', 'statement', 'verdict', 'reason', 'line', 'clause', 'fkey', 'witness')

    def __init__(self, rule, file, function, statement, verdict, reason, line=0, clause='', fkey=None):
        self.rule, self.file, self.function = rule, file, function
        self.statement, self.verdict, self.reason = statement, verdict, reason
        self.line, self.clause = line, clause
        # what fails, named independently of how the source spells it (survives refactoring):
        # known findings are matched on it when the rule provides one
        self.fkey = fkey
        self.witness = False

    def key(self):
        return (self.rule, self.file, self.function, self.statement)

    def as_dict(self):
        return {'rule': self.rule, 'file': self.file, 'function': self.function,
                'statement': self.statement, 'verdict': self.verdict, 'reason': self.reason,
                'line': self.line, 'clause': self.clause, **({'finding_key': self.fkey} if self.fkey else {})}


class Ctx:
    def __init__(self, prop, repo, tier='quick', seed=0):
        self.prop, self.repo, self.tier, self.seed = prop, repo, tier, seed
        self.obs = []
        self.floors = []
        self.units = {}
        self.trusted = []
        self.notes = []
        self.depth = 3 if tier == 'quick' else 5
        self.max_paths = 4096 if tier == 'quick' else 8 * 4096

    # -- recording
    def ob(self, rule, where, statement, ok, reason='', line=0, clause='', key=None, witness=False):
        """``where``: FuncInfo | (file, function) ;  ok: True/False/None(undecided)"""
        if hasattr(where, 'file'):
            file, function = where.file, getattr(where, 'qual', '')
        else:
            file, function = where
        verdict = HOLDS if ok is True else VIOLATION if ok is False else UNDECIDED
        if verdict == VIOLATION and not witness and rule not in WITNESS_RULES and not os.environ.get('BISTAT_NO_GATE'):
            # closed-world gate: "not what the rule expects" is evidence only in a function whose
            # every construct the analysis resolves
            fi = where if hasattr(where, 'node') else self.repo.func_by_where(file, function)
            feats = self.repo.opaque_features(fi) if fi is not None else []
            if not feats and file == 'bisturi/codegen.py' and not rule.startswith(CACHE_RULES):
                # the rules about the generated text read it through the %-templates of codegen.py
                shape = self.repo.codegen_shape()
                if shape:
                    feats = ['the generated text is not (only) built from the templates the rules read: ' + shape]
            if feats:
                verdict = UNDECIDED
                ok = None
                reason = 'no verdict: the function uses constructs whose flow the analysis does not resolve (%s), so this is not evidence of a violation [%s]' % ('; '.join(feats[:3]), reason)
        o = Ob(rule, file, function, statement, verdict, reason, line, clause, key)
        o.witness = bool(witness) or rule in WITNESS_RULES
        self.obs.append(o)
        return ok

    def holds(self, rule, where, statement, reason='', line=0, clause=''):
        return self.ob(rule, where, statement, True, reason, line, clause)

    def violation(self, rule, where, statement, reason='', line=0, clause='', key=None, witness=False):
        """``witness``: the statement names the construct that is wrong (what was found, not what
        was not found): such a report stands whatever else the function contains"""
        return self.ob(rule, where, statement, False, reason, line, clause, key, witness)

    def undecided(self, rule, where, statement, reason='', line=0, clause=''):
        return self.ob(rule, where, statement, None, reason, line, clause)

    def floor(self, what, count, minimum):
        self.floors.append({'what': what, 'count': count, 'minimum': minimum, 'ok': count >= minimum})

    def unit(self, what, n=1):
        self.units[what] = self.units.get(what, 0) + n

    def trust(self, *lines):
        for l in lines:
            if l not in self.trusted:
                self.trusted.append(l)

    def note(self, s):
        self.notes.append(s)


def load_known():
    if not os.path.exists(KNOWN):
        return []
    with open(KNOWN) as f:
        return json.load(f).get('findings', [])


def match_known(prop, ob, known):
    for k in known:
        if k.get('status', 'known') != 'known':
            continue                      # fixed entries suppress nothing
        if k['property'] != prop or k['rule'] != ob.rule:
            continue
        if k.get('key'):
            if ob.fkey == k['key']:
                return k
            continue
        if k['file'] == ob.file and k['function'] == ob.function and k['statement'] == ob.statement:
            return k
    return None


def finish(ctx, wall, explanation, level_rule, assumptions, out=sys.stdout, write=True):
    """prints the report, writes evidence, returns the exit code"""
    known = load_known()
    viol, known_hits, und = [], [], []
    for o in ctx.obs:
        if o.verdict == VIOLATION:
            k = match_known(ctx.prop, o, known)
            if k is not None:
                known_hits.append((o, k))
            else:
                viol.append(o)
        elif o.verdict == UNDECIDED:
            und.append(o)
    bad_floors = [f for f in ctx.floors if not f['ok']]

    p = lambda *a: print(*a, file=out)
    p('== %s  tier=%s  repo=%s' % (ctx.prop, ctx.tier, ctx.repo.root))
    by_rule = {}
    for o in ctx.obs:
        d = by_rule.setdefault(o.rule, {HOLDS: 0, VIOLATION: 0, UNDECIDED: 0})
        d[o.verdict] += 1
    for r in sorted(by_rule):
        d = by_rule[r]
        p('   rule %-34s holds=%-3d violation=%-3d undecided=%d' % (r, d[HOLDS], d[VIOLATION], d[UNDECIDED]))
    p('   analysed: ' + ', '.join('%s=%d' % kv for kv in sorted(ctx.units.items())))
    for f in ctx.floors:
        p('   floor %-40s %d >= %d %s' % (f['what'], f['count'], f['minimum'], 'ok' if f['ok'] else 'BELOW FLOOR'))
    seen = set()
    for o, k in known_hits:
        if id(k) in seen:
            continue
        seen.add(id(k))
        p('KNOWN-FINDING: property=%s %s [%s %s::%s]' % (ctx.prop, k['what'], o.rule, o.file, o.function))
    for o in und:
        p('ANALYSIS-ERROR property=%s rule=%s %s::%s: %s -- %s' % (ctx.prop, o.rule, o.file, o.function, o.statement, o.reason))
    for f in bad_floors:
        p('ANALYSIS-ERROR property=%s floor %s: analysed %d, hand-confirmed minimum %d' % (ctx.prop, f['what'], f['count'], f['minimum']))
    for o in viol:
        p('   VIOLATED rule=%s at %s:%d in %s' % (o.rule, o.file, o.line, o.function))
        p('      construct: %s' % o.statement)
        p('      reason:    %s' % o.reason)

    code = 0
    if und or bad_floors:
        code = 2
    if viol:
        code = 1

    if write:
        os.makedirs(EVIDENCE_DIR, exist_ok=True)
        vpath = os.path.join(EVIDENCE_DIR, '%s.violation.json' % ctx.prop)
        if viol:
            with open(vpath, 'w') as f:
                json.dump({'property': ctx.prop, 'violations': [o.as_dict() for o in viol]}, f, indent=1)
        elif os.path.exists(vpath):
            os.remove(vpath)
        distinct = len({o.key() for o in ctx.obs if o.statement})
        samples = [o.as_dict() for o in (viol + [x for x, _ in known_hits] + und)][:20]
        for o in ctx.obs:
            if len(samples) >= 40:
                break
            if o.verdict == HOLDS:
                samples.append(o.as_dict())
        ev = {
            'property_id': ctx.prop,
            'tier': ctx.tier,
            'seed': ctx.seed,
            'level': 'other',
            'coverage': {
                'explanation': explanation,
                'rule': level_rule,
                'obligations': len(ctx.obs),
                'discharged': sum(1 for o in ctx.obs if o.verdict == HOLDS),
                'evaluations': len(ctx.obs),
                'distinct_nontrivial': distinct,
                'samples': samples,
                'units_analysed': ctx.units,
                'floors': ctx.floors,
                'rules': {r: by_rule[r] for r in sorted(by_rule)},
                'known_findings_hit': [k['what'] for _, k in known_hits],
                'undecided': len(und),
                'trusted_base': ctx.trusted,
                'notes': ctx.notes,
                'checker_cmd': './check %s --tier %s' % (ctx.prop, ctx.tier),
                'exhaustive': False,
            },
            'assumptions': assumptions,
            'wall_s': round(wall, 3),
            'violations': len(viol),
        }
        with open(os.path.join(EVIDENCE_DIR, '%s.json' % ctx.prop), 'w') as f:
            json.dump(ev, f, indent=1, sort_keys=False)
    if viol:
        p('VIOLATION property=%s replay=%s' % (ctx.prop, os.path.join(EVIDENCE_DIR, '%s.violation.json' % ctx.prop)))
    elif code == 0:
        p('OK property=%s obligations=%d held=%d known_findings=%d wall=%.2fs' % (
            ctx.prop, len(ctx.obs), sum(1 for o in ctx.obs if o.verdict == HOLDS), len(seen), wall))
    return code
