"""Event automata of functions (typestate / ordering rules), compared as regular languages.

Many obligations are about *which events happen in which order*: "the fresh list is stored
before any callback runs", "until is evaluated once after every element and the first
truthy result stops the loop", "a failing parse returns None only when silent".  How the
source arranges the control flow that produces this order (a flag variable and a while, a
``while True`` with a return inside, guard clauses, nested ifs, try/except/else) is not
part of the property.

``extract`` interprets a function body abstractly -- nothing is executed -- and builds a
labelled transition system:

* a *classifier* names the calls / stores / tests that are events; a branching event forks
  into its outcomes (``until+`` / ``until-``, ``impl:ok`` / ``impl:exc``);
* locals are forward-substituted symbolically; values that only matter through their truth
  (flags) are tracked as boolean expressions over event outcomes; configuration tests
  (``self.until_condition is None``) are answered by the *mode* under analysis; any other
  test forks silently;
* loops are cycles: at a loop head every variable the body assigns that is not a boolean over
  event outcomes is replaced by a loop symbol, so the state space is finite;
* a ``for`` over a literal ``range(k)`` (k <= 4) is unrolled; another iterable is announced by
  ``for[<iterable>]`` and each pass by ``next`` / ``end``: two implementations must iterate
  over the same thing.

``equivalent`` determinises two systems (code vs. the specification automaton written as a
regular expression over the same labels) and searches the product for a shortest trace one
accepts and the other does not -- the witness that is reported.  No solver, no execution.
"""
import ast
import copy
import itertools

from . import Undecided
from .expr import canon, negate, unparse, call_name
from .walker import const_truth

MAX_STATES = 20000


# =============================================================================== LTS
class LTS:
    def __init__(self):
        self.edges = {}        # state -> [(label|None, state)]
        self.initial = 0
        self.n = 0
        self.final = set()

    def new(self):
        s = self.n
        self.n += 1
        self.edges[s] = []
        return s

    def add(self, a, label, b):
        self.edges[a].append((label, b))

    # epsilon closure / determinisation
    def closure(self, states):
        seen = set(states)
        work = list(states)
        while work:
            s = work.pop()
            for l, t in self.edges.get(s, ()):
                if l is None and t not in seen:
                    seen.add(t)
                    work.append(t)
        return frozenset(seen)

    def step(self, S):
        out = {}
        for s in S:
            for l, t in self.edges.get(s, ()):
                if l is not None:
                    out.setdefault(l, set()).add(t)
        return {l: self.closure(ts) for l, ts in out.items()}

    def accepting(self, S):
        return any(s in self.final for s in S)

    def labels(self):
        return {l for es in self.edges.values() for l, _ in es if l is not None}


def equivalent(a, b, ignore=()):
    """None if the two systems accept the same traces, else (trace, which) where ``which`` is
    'only-first' / 'only-second' (the trace, extended by its last label, is possible in one)"""
    A0, B0 = a.closure({a.initial}), b.closure({b.initial})
    seen = {(A0, B0)}
    work = [(A0, B0, ())]
    while work:
        nxt = []
        for A, B, tr in work:
            if a.accepting(A) != b.accepting(B):
                return tr + ('<end>',), 'only-first' if a.accepting(A) else 'only-second'
            sa, sb = a.step(A), b.step(B)
            for l in sorted(set(sa) | set(sb)):
                if l in ignore:
                    continue
                if l not in sb:
                    return tr + (l,), 'only-first'
                if l not in sa:
                    return tr + (l,), 'only-second'
                k = (sa[l], sb[l])
                if k not in seen:
                    seen.add(k)
                    nxt.append((sa[l], sb[l], tr + (l,)))
        work = nxt
    return None


def _base(label):
    for sep in ('[', ':', '+', '-'):
        i = label.find(sep)
        if i > 0:
            label = label[:i]
    return label


def compare(code, spec):
    """('equal',) | ('differs', trace, which) | ('foreign', labels).  A difference is a witness
    only when the code's automaton speaks the specification's alphabet: events the specification
    does not know at all (a data test of the code's own, typically the bookkeeping of a loop
    written in another form) mean that the comparison cannot be made -- no verdict"""
    bases = {_base(l) for l in spec.labels()}
    foreign = sorted(l for l in code.labels() if _base(l) not in bases)
    # a test over the parameters and the events' results alone is behaviour the specification
    # would have to mention: that stays a witness.  A test that involves a value the code's own
    # loop carries ('name@L<line>': widened at the loop head) is bookkeeping of another loop form
    # (a counter compared with a bound; a loop-carried flag tested for truth carries what the
    # events returned and stays a witness)
    cmp_ops = (' < ', ' <= ', ' == ', ' != ', ' > ', ' >= ')
    if not any('@L' in l and any(o in l for o in cmp_ops) for l in foreign):
        foreign = []
    diff = equivalent(code, spec)
    if diff is None:
        return ('equal',)
    if foreign:
        return ('foreign', foreign)
    return ('differs',) + diff


# ---------------------------------------------------------------- specification regexes
def lit(*labels):
    return ('seq', [('lit', l) for l in labels]) if len(labels) != 1 else ('lit', labels[0])


def seq(*xs):
    return ('seq', list(xs))


def alt(*xs):
    return ('alt', list(xs))


def star(x):
    return ('star', x)


def opt(x):
    return ('alt', [x, ('seq', [])])


def compile_spec(rx):
    """regular expression over labels -> LTS accepting exactly its words"""
    m = LTS()

    def build(r, start):
        k = r[0]
        if k == 'lit':
            e = m.new()
            m.add(start, r[1], e)
            return e
        if k == 'seq':
            cur = start
            for x in r[1]:
                cur = build(x, cur)
            return cur
        if k == 'alt':
            e = m.new()
            for x in r[1]:
                m.add(build(x, start), None, e)
            return e
        if k == 'star':
            h = m.new()
            m.add(start, None, h)
            m.add(build(r[1], h), None, h)
            e = m.new()
            m.add(h, None, e)
            return e
        raise ValueError(k)

    s0 = m.new()
    m.initial = s0
    end = build(rx, s0)
    m.final.add(end)
    return m


# =============================================================================== extraction
class _Need(Exception):
    pass


class Classifier:
    """what the automaton observes.  Override / pass callables.

    call(call_ast)   -> None | (label, outcomes)   outcomes: () plain event; ('+','-') boolean
                        outcome when the result is used; ('ok','exc:<Class>') may raise
    test(text, expr) -> None | label               a data test that is observable (forks +/-)
    truth(text,expr) -> True/False/None            configuration tests decided by the mode
    store(target_ast, value_ast) -> None | label   attribute / subscript stores that are events
    ret(value_ast)   -> tag                        classifies returned values
    """

    def call(self, c):
        return None

    def test(self, text, e):
        return None

    def truth(self, text, e):
        return None

    def store(self, target, value):
        return None

    def ret(self, v):
        return '' if v is None else canon(v)

    def exc(self, v):
        if v is None:
            return '<reraise>'
        if isinstance(v, ast.Call):
            return call_name(v) or canon(v.func)
        return canon(v)


EXC_PARENTS = {'PacketError': 'Exception', 'AssertionError': 'Exception', 'ValueError': 'Exception',
               'TypeError': 'Exception', 'KeyError': 'Exception', 'IndexError': 'Exception',
               'AttributeError': 'Exception', 'OSError': 'Exception', 'ImportError': 'Exception',
               'Exception': 'BaseException', 'KeyboardInterrupt': 'BaseException', 'SystemExit': 'BaseException'}


def exc_matches(raised, handler):
    """does ``except handler`` catch an exception of class ``raised`` (names)?  None = unknown"""
    if handler is None:
        return True
    names = [handler] if isinstance(handler, str) else list(handler)
    if raised == 'Exception*':
        # the unnamed failure of an event: some class below Exception that is not PacketError
        if 'Exception' in names or 'BaseException' in names:
            return True
        rest = [n for n in names if n != 'PacketError']
        if not rest:
            return False
        if all(n in ('KeyboardInterrupt', 'SystemExit', 'GeneratorExit') for n in rest):
            return False
        return None
    if raised not in EXC_PARENTS and raised != 'BaseException':
        return True if 'BaseException' in names else None
    cur = raised
    while cur is not None:
        if cur in names:
            return True
        cur = EXC_PARENTS.get(cur)
    return False


class _State:
    __slots__ = ('env', 'facts', 'labels')

    def __init__(self, env=None, facts=None):
        self.env = env if env is not None else {}
        self.facts = facts if facts is not None else {}
        self.labels = []

    def clone(self):
        s = _State(dict(self.env), dict(self.facts))
        return s


def _key_env(env, facts):
    return (tuple(sorted((k, canon(v)) for k, v in env.items())), tuple(sorted(facts.items())))


def _is_control_value(v):
    """a value that is kept across loop heads: constants and booleans over event outcomes"""
    if isinstance(v, ast.Constant):
        return True
    if isinstance(v, ast.Name):
        return v.id.startswith('<ev ')
    if isinstance(v, ast.UnaryOp) and isinstance(v.op, ast.Not):
        return _is_control_value(v.operand)
    if isinstance(v, ast.BoolOp):
        return all(_is_control_value(x) for x in v.values)
    return False


def _assigned_in(stmts):
    out = set()
    for s in stmts:
        for n in ast.walk(s):
            if isinstance(n, ast.Name) and isinstance(n.ctx, (ast.Store, ast.Del)):
                out.add(n.id)
            elif isinstance(n, ast.ExceptHandler) and n.name:
                out.add(n.name)
    return out


class Extractor:
    def __init__(self, func, classifier, bind=None, callee=None):
        self.func = func
        self.c = classifier
        self.callee = callee     # evaluated call -> (FunctionDef, receiver value | None) | None
        self.saved = {}          # key of a caller's environment -> that environment
        self.lts = LTS()
        self.memo = {}
        self.blocks = {}       # id -> stmt list
        self.bind = bind or {}
        self.sink = None

    # ------------------------------------------------------------------ driver
    def run(self):
        st = _State(dict(self.bind))
        start = self.lts.new()
        self.lts.initial = start
        self.sink = self.lts.new()
        self.lts.final.add(self.sink)
        body = self.func.body
        first = self.config(((('seq', id(body), 0, None),), st))
        self.blocks[id(body)] = body
        self.lts.add(start, None, first)
        self.explore()
        return self.lts

    def config(self, cfg):
        stack, st = cfg
        key = (tuple((f[0], f[1], f[2], f[3] if not isinstance(f[3], dict) else tuple(sorted(f[3].items()))) for f in stack), _key_env(st.env, st.facts))
        if key in self.memo:
            return self.memo[key][0]
        s = self.lts.new()
        if self.lts.n > MAX_STATES:
            raise Undecided('event automaton of %s exceeds %d states' % (getattr(self.func, 'name', '?'), MAX_STATES))
        self.memo[key] = (s, cfg)
        self.todo.append((s, cfg))
        return s

    todo = None

    def explore(self):
        # config() appends to self.todo
        while self.todo:
            s, cfg = self.todo.pop()
            for labels, nxt in self.successors(cfg):
                cur = s
                tgt = nxt if isinstance(nxt, int) else self.config(nxt)
                if not labels:
                    self.lts.add(cur, None, tgt)
                    continue
                for i, l in enumerate(labels):
                    if i == len(labels) - 1:
                        self.lts.add(cur, l, tgt)
                    else:
                        m = self.lts.new()
                        self.lts.add(cur, l, m)
                        cur = m

    # ------------------------------------------------------------------ one step
    def successors(self, cfg):
        """-> [(labels, next config | state id)]; forks are enumerated through decision oracles"""
        out = []
        oracles = [[]]
        while oracles:
            oracle = oracles.pop()
            self.oracle, self.opos = oracle, 0
            stack, st0 = cfg
            st = st0.clone()
            try:
                nxt = self.step(stack, st)
            except _Need:
                oracles.append(oracle + [True])
                oracles.append(oracle + [False])
                continue
            out.append((st.labels, nxt))
        return out

    def decide(self):
        if self.opos >= len(self.oracle):
            raise _Need()
        d = self.oracle[self.opos]
        self.opos += 1
        return d

    def step(self, stack, st):
        try:
            return self._step(stack, st)
        except _Raise as r:
            return self.unwind(stack, ('raise', r.cls), st)

    def _step(self, stack, st):
        if not stack:
            # fell off the end of the function: implicit return None
            st.labels.append('return[%s]' % self.c.ret(None))
            return self.sink
        kind, bid, idx, aux = stack[-1]
        stmts = self.blocks[bid]
        if idx >= len(stmts):
            return self.finish_block(stack, st)
        s = stmts[idx]
        rest = stack[:-1] + ((kind, bid, idx + 1, aux),)
        m = getattr(self, 'x_' + type(s).__name__, None)
        if m is None:
            raise Undecided('statement kind %s not supported by the event automaton (line %d)' % (type(s).__name__, s.lineno))
        return m(s, rest, st)

    def push(self, stack, kind, stmts, aux=None):
        self.blocks[id(stmts)] = stmts
        return stack + ((kind, id(stmts), 0, aux),)

    def finish_block(self, stack, st):
        kind, bid, idx, aux = stack[-1]
        below = stack[:-1]
        if kind in ('seq', 'handler', 'else'):
            return (below, st)
        if kind == 'call':
            st.env['<ret>'] = ast.Constant(value=None)
            st.env['<ret-none>'] = ast.Constant(value=True)
            return self.leave_call(below, aux, st)
        if kind == 'while':
            return self.loop_head(below, aux, st)        # aux = id of loop node
        if kind == 'for':
            return self.for_next(below, aux, st)
        if kind == 'try':
            # body completed normally: else, then finally
            node = self.nodes[aux]
            nstack = below
            if node.finalbody:
                nstack = self.push(nstack, 'seq', node.finalbody)
            if node.orelse:
                nstack = self.push(nstack, 'else', node.orelse)
            return (nstack, st)
        if kind == 'finally':
            # finally block ran during unwinding: resume the pending status
            return self.unwind(below, aux_status(aux), st)
        raise Undecided('frame kind %s' % kind)

    nodes = None

    def node_id(self, n):
        if self.nodes is None:
            self.nodes = {}
        self.nodes[id(n)] = n
        return id(n)

    # ------------------------------------------------------------------ unwinding
    def unwind(self, stack, status, st):
        """status: ('return', tag) | ('raise', cls) | ('break',) | ('continue',)"""
        while stack:
            kind, bid, idx, aux = stack[-1]
            below = stack[:-1]
            if kind == 'try':
                node = self.nodes[aux]
                if status[0] == 'raise':
                    for h in node.handlers:
                        hn = None if h.type is None else ([unparse(x) for x in h.type.elts] if isinstance(h.type, ast.Tuple) else unparse(h.type))
                        m = exc_matches(status[1], hn)
                        if m is None:
                            m = self.decide()
                        if m:
                            if h.name:
                                st.env[h.name] = ast.Name(id='<exc %s>' % status[1], ctx=ast.Load())
                            nstack = below
                            if node.finalbody:
                                nstack = self.push(nstack, 'seq', node.finalbody)
                            st.env['<handling>'] = ast.Constant(value=status[1])
                            return (self.push(nstack, 'handler', h.body), st)
                if node.finalbody:
                    return (self.push(below, 'finally', node.finalbody, ('status',) + tuple(status)), st)
                stack = below
                continue
            if kind == 'handler' or kind == 'else':
                # leaving a handler / else block: the try's finally was pushed below as 'seq';
                # an abrupt exit must still run it -- find it: it is the frame directly below
                stack = below
                if stack and stack[-1][0] == 'seq' and stack[-1][3] is None and self._is_finally(stack[-1]):
                    fb = self.blocks[stack[-1][1]]
                    return (self.push(stack[:-1], 'finally', fb, ('status',) + tuple(status)), st)
                continue
            if kind == 'call':
                if status[0] == 'return':
                    return self.leave_call(below, aux, st)
                if status[0] != 'raise':
                    raise Undecided('%s leaves a function' % status[0])
                keep = {k: v for k, v in st.env.items() if k in ('<handling>',)}
                st.env = dict(self.saved[aux[2]])
                st.env.update(keep)
                stack = below
                continue
            if kind in ('while', 'for'):
                if status[0] == 'break':
                    if kind == 'for':
                        pass
                    return (below, st)
                if status[0] == 'continue':
                    if kind == 'while':
                        return self.loop_head(below, aux, st)
                    return self.for_next(below, aux, st)
                stack = below
                continue
            stack = below
        if status[0] == 'return':
            v = st.env.get('<ret>')
            none = st.env.get('<ret-none>')
            if isinstance(none, ast.Constant) and none.value:
                v = None
            st.labels.append('return[%s]' % self.c.ret(v))
            return self.sink
        if status[0] == 'raise':
            st.labels.append('raise[%s]' % status[1].rstrip('*'))
            return self.sink
        raise Undecided('%s outside a loop' % status[0])

    def _is_finally(self, frame):
        fid = frame[1]
        return any(n.finalbody and id(n.finalbody) == fid for n in (self.nodes or {}).values() if isinstance(n, ast.Try))

    # ------------------------------------------------------------------ statements
    def x_Pass(self, s, rest, st): return (rest, st)
    x_Global = x_Nonlocal = x_Import = x_ImportFrom = x_Pass

    def x_FunctionDef(self, s, rest, st):
        st.env[s.name] = ast.Name(id='<def %s>' % s.name, ctx=ast.Load())
        return (rest, st)

    x_ClassDef = x_FunctionDef

    def x_Expr(self, s, rest, st):
        c = self.enter_call(s.value, rest, st, ('drop',))
        if c is not None:
            return c
        self.ev(s.value, st)
        return (rest, st)

    def x_Assign(self, s, rest, st):
        if len(s.targets) == 1:
            c = self.enter_call(s.value, rest, st, ('assign', s.targets[0]))
            if c is not None:
                return c
        v = self.ev(s.value, st)
        for t in s.targets:
            self.assign(t, v, st)
        return (rest, st)

    def x_AnnAssign(self, s, rest, st):
        if s.value is not None:
            self.assign(s.target, self.ev(s.value, st), st)
        return (rest, st)

    def x_AugAssign(self, s, rest, st):
        cur = self.ev(_load(s.target), st)
        v = self.ev(s.value, st)
        self.assign(s.target, ast.BinOp(left=cur, op=s.op, right=v), st)
        return (rest, st)

    def x_Delete(self, s, rest, st):
        for t in s.targets:
            if isinstance(t, ast.Name):
                st.env.pop(t.id, None)
        return (rest, st)

    def assign(self, t, v, st):
        if isinstance(t, ast.Name):
            st.env[t.id] = v
        elif isinstance(t, (ast.Tuple, ast.List)):
            if isinstance(v, (ast.Tuple, ast.List)) and len(v.elts) == len(t.elts) and not any(isinstance(x, ast.Starred) for x in list(v.elts) + list(t.elts)):
                for tt, vv in zip(t.elts, v.elts):
                    self.assign(tt, vv, st)
            else:
                for i, tt in enumerate(t.elts):
                    if isinstance(tt, ast.Starred):
                        self.assign(tt.value, ast.Subscript(value=v, slice=ast.Slice(lower=ast.Constant(value=i)), ctx=ast.Load()), st)
                    else:
                        self.assign(tt, ast.Subscript(value=v, slice=ast.Constant(value=i), ctx=ast.Load()), st)
        elif isinstance(t, (ast.Attribute, ast.Subscript)):
            tgt = copy.copy(t)
            tgt.value = self.ev(t.value, st)
            if isinstance(t, ast.Subscript):
                tgt.slice = self.ev(t.slice, st)
            tgt.ctx = ast.Load()
            l = self.c.store(tgt, v)
            if l:
                st.labels.append(l)
        else:
            raise Undecided('assignment target %s' % type(t).__name__)

    def x_Return(self, s, rest, st):
        c = self.enter_call(s.value, rest, st, ('return',))
        if c is not None:
            return c
        v = self.ev(s.value, st) if s.value is not None else None
        return self.do_return(rest, v, st)

    def do_return(self, rest, v, st):
        st.env['<ret>'] = v if v is not None else ast.Constant(value=None)
        st.env['<ret-none>'] = ast.Constant(value=v is None)
        return self.unwind(rest, ('return',), st)

    # ---- calls of the repository's own helpers (a frame per call; the caller's environment is
    # kept aside and restored when the callee returns or an exception passes through)
    MAX_CALL_DEPTH = 4

    def enter_call(self, value, rest, st, cont):
        """value: a call expression in statement position (return f(..) / x = f(..) / f(..)).
        cont: ('return',) | ('assign', target ast) | ('drop',)"""
        if self.callee is None or not isinstance(value, ast.Call):
            return None
        if sum(1 for f in rest if f[0] == 'call') >= self.MAX_CALL_DEPTH:
            return None
        probe = st.clone()
        probe.labels = []
        opos = self.opos
        func = self.ev(value.func, probe)
        got = None if probe.labels else self.callee(ast.Call(func=func, args=[], keywords=[]))
        if got is None:
            self.opos = opos
            return None
        fn, recv = got
        # the classifier has the first word: an event stays an event
        args = [self.ev(a, st) for a in value.args]
        kws = [ast.keyword(arg=k.arg, value=self.ev(k.value, st)) for k in value.keywords]
        new = ast.Call(func=func, args=args, keywords=kws)
        ast.copy_location(new, value)
        if self.c.call(new) is not None:
            raise Undecided('call of %s is both an event and a helper' % canon(func))
        env = self.bind_args(fn, recv, args, kws, st)
        if env is None:
            raise Undecided('cannot bind the arguments of the call %s' % canon(new)[:80])
        key = _key_env(st.env, {})
        self.saved[key] = dict(st.env)
        tag = None
        if cont[0] == 'assign':
            tag = ('assign', self.node_id(cont[1]))
        else:
            tag = cont
        for k in ('<handling>',):
            if k in st.env:
                env[k] = st.env[k]
        st.env = env
        return (self.push(rest, 'call', fn.body, ('call', tag, key)), st)

    def bind_args(self, fn, recv, args, kws, st):
        a = fn.args
        if any(isinstance(x, ast.Starred) for x in args):
            return None
        params = [p.arg for p in a.posonlyargs + a.args]
        pos = ([recv] if recv is not None else []) + list(args)
        env = {}
        if len(pos) > len(params):
            if a.vararg is None:
                return None
            env[a.vararg.arg] = ast.Tuple(elts=pos[len(params):], ctx=ast.Load())
            pos = pos[:len(params)]
        elif a.vararg is not None:
            env[a.vararg.arg] = ast.Tuple(elts=[], ctx=ast.Load())
        for n, v in zip(params, pos):
            env[n] = v
        named = params[len(a.posonlyargs):] + [p.arg for p in a.kwonlyargs]
        extra_k, extra_v = [], []
        for k in kws:
            if k.arg is not None and k.arg in named:
                if k.arg in env:
                    return None
                env[k.arg] = k.value
            else:
                extra_k.append(None if k.arg is None else ast.Constant(value=k.arg))
                extra_v.append(k.value)
        if a.kwarg is not None:
            if len(extra_k) == 1 and extra_k[0] is None:
                env[a.kwarg.arg] = extra_v[0]
            else:
                env[a.kwarg.arg] = ast.Dict(keys=extra_k, values=extra_v)
        elif any(k is not None for k in extra_k):
            return None
        elif extra_k:
            # f(**k) to a callee without **: the names it receives are not known here
            return None
        defaults = dict(zip(reversed(params), reversed(a.defaults)))
        for p, d in zip(a.kwonlyargs, a.kw_defaults):
            if d is not None:
                defaults[p.arg] = d
        for n in params + [p.arg for p in a.kwonlyargs]:
            if n not in env:
                if n not in defaults:
                    return None
                env[n] = self.ev(defaults[n], _State())
        return env

    def leave_call(self, below, aux, st):
        """the callee returned (st.env['<ret>'] holds the value): back in the caller"""
        _, tag, key = aux
        v = st.env.get('<ret>', ast.Constant(value=None))
        none = st.env.get('<ret-none>')
        st.env = dict(self.saved[key])
        if tag[0] == 'return':
            return self.do_return(below, None if (isinstance(none, ast.Constant) and none.value) else v, st)
        if tag[0] == 'assign':
            self.assign(self.nodes[tag[1]], v, st)
        return (below, st)

    def x_Raise(self, s, rest, st):
        if s.exc is None:
            h = st.env.get('<handling>')
            cls = h.value if isinstance(h, ast.Constant) else '<reraise>'
            return self.unwind(rest, ('raise', cls), st)
        v = self.ev(s.exc, st)
        if isinstance(v, ast.Name) and v.id.startswith('<exc '):
            return self.unwind(rest, ('raise', v.id[5:-1]), st)
        return self.unwind(rest, ('raise', self.c.exc(v)), st)

    def x_Break(self, s, rest, st): return self.unwind(rest, ('break',), st)
    def x_Continue(self, s, rest, st): return self.unwind(rest, ('continue',), st)

    def x_Assert(self, s, rest, st):
        if self.truth(self.ev_lazy(s.test, st), st):
            return (rest, st)
        return self.unwind(rest, ('raise', 'AssertionError'), st)

    def x_If(self, s, rest, st):
        if self.test(s.test, st):
            return (self.push(rest, 'seq', s.body), st)
        if s.orelse:
            return (self.push(rest, 'seq', s.orelse), st)
        return (rest, st)

    def x_With(self, s, rest, st):
        for item in s.items:
            # a context manager whose __exit__ is code of the package decides what happens to an
            # exception of the body (replace it, swallow it): the block is not "its statements in a row"
            ce = item.context_expr
            nm = None
            if isinstance(ce, ast.Call):
                nm = call_name(ce)
            elif isinstance(ce, ast.Name):
                b = st.env.get(ce.id)
                nm = call_name(b) if isinstance(b, ast.Call) else None
            if nm and nm.split('.')[-1] in PACKAGE_CONTEXT_MANAGERS:
                raise Undecided('the block is run under %s, a context manager of the package: what its __exit__ does with a failure of the block is not modelled' % nm)
            v = self.ev(item.context_expr, st)
            if item.optional_vars is not None:
                self.assign(item.optional_vars, v, st)
        return (self.push(rest, 'seq', s.body), st)

    def x_Try(self, s, rest, st):
        return (self.push(rest, 'try', s.body, self.node_id(s)), st)

    # ---- loops
    def widen(self, node, st):
        tag = 'L%d' % node.lineno
        names = []
        for n in sorted(_assigned_in(node.body) | (_assigned_in([node]) if isinstance(node, ast.For) else set())):
            v = st.env.get(n)
            if v is not None and _is_control_value(v):
                continue
            names.append(n)
        # a loop-carried variable that enters the loop holding a parameter (a local copy of it, an
        # expansion's renamed local) is named after that parameter, when that is unambiguous
        roots = {}
        for n in names:
            v = st.env.get(n)
            r = v.id.split('@')[0] if isinstance(v, ast.Name) and not v.id.startswith('<') else n
            roots[n] = r
        for n in names:
            r = roots[n]
            if r != n and (sum(1 for m in names if roots[m] == r) > 1 or r in names):
                r = n
            st.env[n] = ast.Name(id='%s@%s' % (r, tag), ctx=ast.Load())
        for k in [k for k in st.facts if '@%s' % tag in k]:
            del st.facts[k]

    def x_While(self, s, rest, st):
        return self.loop_head(rest, self.node_id(s), st)

    def loop_head(self, below, nid, st):
        node = self.nodes[nid]
        self.widen(node, st)
        if self.test(node.test, st):
            return (self.push(below, 'while', node.body, nid), st)
        if node.orelse:
            return (self.push(below, 'seq', node.orelse), st)
        return (below, st)

    def x_For(self, s, rest, st):
        it = self.ev(s.iter, st)
        nid = self.node_id(s)
        k = _const_range(it)
        if k is not None and k <= 4:
            return self.for_next(rest, {'n': nid, 'left': k, 'i': 0}, st)
        if isinstance(it, ast.Call) and canon(it.func) in ('itertools.count', 'count') and not it.keywords and len(it.args) <= 2:
            # an endless iterator: the loop is ``while True`` with a counter nobody else sees
            return self.for_next(rest, {'n': nid, 'left': -2, 'i': 0}, st)
        st.labels.append('for[%s]' % canon(it))
        return self.for_next(rest, {'n': nid, 'left': -1, 'i': 0}, st)

    def for_next(self, below, aux, st):
        node = self.nodes[aux['n']]
        if aux['left'] >= 0:
            if aux['left'] == 0:
                return (self.push(below, 'seq', node.orelse), st) if node.orelse else (below, st)
            self.assign(node.target, ast.Constant(value=aux['i']), st)
            return (self.push(below, 'for', node.body, {'n': aux['n'], 'left': aux['left'] - 1, 'i': aux['i'] + 1}), st)
        self.widen(node, st)
        if aux['left'] == -2:
            self.assign(node.target, ast.Name(id='<count L%d>' % node.lineno, ctx=ast.Load()), st)
            return (self.push(below, 'for', node.body, aux), st)
        if self.decide():
            st.labels.append('next')
            self.assign(node.target, ast.Name(id='<item L%d>' % node.lineno, ctx=ast.Load()), st)
            return (self.push(below, 'for', node.body, aux), st)
        st.labels.append('end')
        return (self.push(below, 'seq', node.orelse), st) if node.orelse else (below, st)

    # ------------------------------------------------------------------ expressions
    def test(self, e, st):
        return self.truth(self.ev_lazy(e, st), st)

    def ev_lazy(self, e, st):
        """evaluate for truth: keeps short-circuit structure (returns a thunk-free value because
        ev itself evaluates BoolOp / IfExp lazily)"""
        return self.ev(e, st)

    def truth(self, v, st):
        """truth value of an evaluated expression in the current state (may fork)"""
        if isinstance(v, ast.Constant):
            return bool(v.value)
        if isinstance(v, ast.UnaryOp) and isinstance(v.op, ast.Not):
            return not self.truth(v.operand, st)
        c = const_truth(v)
        if c is not None:
            return c
        if isinstance(v, (ast.Lambda,)):
            return True
        if isinstance(v, ast.Call) and isinstance(v.func, ast.Name) and v.func.id == 'isinstance' and len(v.args) == 2 \
                and isinstance(v.args[0], ast.Name) and v.args[0].id.startswith('<exc '):
            # the class of a caught exception is the class of the outcome that raised it
            cl = v.args[1]
            m = exc_matches(v.args[0].id[5:-1], [unparse(x) for x in cl.elts] if isinstance(cl, ast.Tuple) else unparse(cl))
            if m is not None:
                return m
        if isinstance(v, ast.Compare) and len(v.ops) == 1 and isinstance(v.ops[0], (ast.Is, ast.IsNot)):
            # identity of symbols: the same caught exception / event result is itself; an object made
            # by a constructor call on the spot is not an object that existed before
            a, b = v.left, v.comparators[0]
            same = None
            if isinstance(a, ast.Name) and isinstance(b, ast.Name) and a.id.startswith('<') and a.id == b.id:
                same = True
            elif (isinstance(a, ast.Call) and isinstance(b, ast.Name) and b.id.startswith('<')) or (isinstance(b, ast.Call) and isinstance(a, ast.Name) and a.id.startswith('<')):
                c_ = a if isinstance(a, ast.Call) else b
                nm = call_name(c_) or ''
                if nm[:1].isupper() or nm.split('.')[-1][:1].isupper():
                    same = False
            is_none = lambda x: isinstance(x, ast.Constant) and x.value is None
            is_new = lambda x: isinstance(x, ast.Call) and ((call_name(x) or '').split('.')[-1][:1].isupper())
            if same is None and is_none(a) and is_none(b):
                same = True
            elif same is None and ((is_none(a) and (is_new(b) or (isinstance(b, ast.Name) and b.id.startswith('<exc ')))) or
                                   (is_none(b) and (is_new(a) or (isinstance(a, ast.Name) and a.id.startswith('<exc '))))):
                same = False
            if same is not None:
                return same if isinstance(v.ops[0], ast.Is) else not same
        text = canon(v)
        if text in st.facts:
            return st.facts[text]
        ntext = canon(negate(v))
        if ntext in st.facts:
            return not st.facts[ntext]
        if isinstance(v, ast.Name) and v.id.startswith('<ev '):
            # outcome of a non-branching event used as a condition: silent fork
            d = self.decide()
            st.facts[text] = d
            return d
        t = self.c.truth(text, v)
        if t is not None:
            return t
        label = self.c.test(text, v)
        d = self.decide()
        st.facts[text] = d
        if label is None:
            label = 'test[%s]' % text          # every data test is observable
        if label:
            st.labels.append(label + ('+' if d else '-'))
        return d

    def ev(self, e, st):
        if e is None:
            return None
        m = getattr(self, 'e_' + type(e).__name__, None)
        if m is not None:
            return m(e, st)
        new = copy.copy(e)
        for f, val in ast.iter_fields(e):
            if isinstance(val, ast.AST):
                setattr(new, f, self.ev(val, st))
            elif isinstance(val, list):
                setattr(new, f, [self.ev(x, st) if isinstance(x, ast.AST) else x for x in val])
        return new

    def e_Constant(self, e, st): return e

    def e_Name(self, e, st):
        if isinstance(e.ctx, ast.Load) and e.id in st.env:
            return copy.deepcopy(st.env[e.id])
        return ast.Name(id=e.id, ctx=ast.Load())

    def e_Lambda(self, e, st): return e

    def e_List(self, e, st):
        if not e.elts and isinstance(e.ctx, ast.Load):
            return ast.Name(id='<fresh list@%d>' % getattr(e, 'lineno', 0), ctx=ast.Load())
        return ast.List(elts=[self.ev(x, st) for x in e.elts], ctx=ast.Load())

    def e_Dict(self, e, st):
        if not e.keys:
            return ast.Name(id='<fresh dict@%d>' % getattr(e, 'lineno', 0), ctx=ast.Load())
        return ast.Dict(keys=[self.ev(k, st) if k is not None else None for k in e.keys], values=[self.ev(v, st) for v in e.values])

    def _comp(self, e, st):
        new = copy.deepcopy(e)
        new.generators[0].iter = self.ev(e.generators[0].iter, st)
        return new

    e_ListComp = e_SetComp = e_DictComp = e_GeneratorExp = _comp

    def e_BoolOp(self, e, st):
        is_and = isinstance(e.op, ast.And)
        v = None
        for x in e.values:
            v = self.ev(x, st)
            t = self.truth(v, st)
            if t != is_and:
                return v if not isinstance(v, ast.Name) or not v.id.startswith('<ev ') else ast.Constant(value=t)
        return v if not (isinstance(v, ast.Name) and v.id.startswith('<ev ')) else ast.Constant(value=self.truth(v, st))

    def e_IfExp(self, e, st):
        return self.ev(e.body if self.test(e.test, st) else e.orelse, st)

    def e_UnaryOp(self, e, st):
        v = self.ev(e.operand, st)
        if isinstance(e.op, ast.Not):
            if isinstance(v, ast.Constant):
                return ast.Constant(value=not v.value)
            if isinstance(v, ast.Name) and v.id.startswith('<ev ') and canon(v) in st.facts:
                return ast.Constant(value=not st.facts[canon(v)])
        return ast.UnaryOp(op=e.op, operand=v)

    def e_Call(self, e, st):
        func = self.ev(e.func, st)
        args = [self.ev(a, st) for a in e.args]
        kws = [ast.keyword(arg=k.arg, value=self.ev(k.value, st)) for k in e.keywords]
        new = ast.Call(func=func, args=args, keywords=kws)
        ast.copy_location(new, e)
        if isinstance(func, ast.Name) and func.id in ('list', 'dict') and not args and not kws:
            return ast.Name(id='<fresh %s@%d>' % (func.id, getattr(e, 'lineno', 0)), ctx=ast.Load())
        ev = self.c.call(new)
        if ev is None:
            return new
        label, outcomes = ev
        sym = '<ev %s>' % label
        # an earlier outcome of the same event is history: freeze what is known about it
        if sym in st.facts:
            known = st.facts.pop(sym)
            for k, v in list(st.env.items()):
                if any(isinstance(x, ast.Name) and x.id == sym for x in ast.walk(v)):
                    st.env[k] = _freeze(v, sym, known)
        if not outcomes:
            st.labels.append(label)
            return ast.Name(id=sym, ctx=ast.Load())
        if outcomes[0] in ('+', '-'):
            d = self.decide()
            st.facts[sym] = d
            st.labels.append(label + ('+' if d else '-'))
            return ast.Name(id=sym, ctx=ast.Load())
        # may raise
        ok = self.decide()
        if ok:
            st.labels.append(label + ':ok')
            return ast.Name(id=sym, ctx=ast.Load())
        excs = [o for o in outcomes if o.startswith('exc')]
        which = excs[0]
        if len(excs) > 1:
            for x in excs[:-1]:
                if self.decide():
                    which = x
                    break
            else:
                which = excs[-1]
        cls = which.split(':', 1)[1] if ':' in which else 'Exception*'
        if cls == 'Exception':
            cls = 'Exception*'         # "any other failure": its class is not known
        st.labels.append(label + ':' + which)
        raise _Raise(cls)


class _Raise(Exception):
    def __init__(self, cls):
        self.cls = cls


def aux_status(aux):
    return tuple(aux[1:])


def _freeze(v, sym, known):
    class T(ast.NodeTransformer):
        def visit_Name(self, n):
            if n.id == sym:
                return ast.Constant(value=known)
            return n
    v = T().visit(copy.deepcopy(v))
    # fold not-constants
    class F(ast.NodeTransformer):
        def visit_UnaryOp(self, n):
            self.generic_visit(n)
            if isinstance(n.op, ast.Not) and isinstance(n.operand, ast.Constant):
                return ast.Constant(value=not n.operand.value)
            return n
    return F().visit(v)


def _load(t):
    t = copy.deepcopy(t)
    for n in ast.walk(t):
        if hasattr(n, 'ctx'):
            n.ctx = ast.Load()
    return t


def _const_range(it):
    if isinstance(it, ast.Call) and isinstance(it.func, ast.Name) and it.func.id == 'range' and len(it.args) == 1 \
            and isinstance(it.args[0], ast.Constant) and isinstance(it.args[0].value, int) and not isinstance(it.args[0].value, bool):
        return max(it.args[0].value, 0)
    return None


def method_callee(repo, cls, module=None):
    """callee resolution for the automaton: ``self.m(...)`` with m found on the class (or a base),
    and a module-level function called by its bare name"""
    module = module or cls.module

    def resolve(call):
        f = call.func
        if isinstance(f, ast.Attribute) and isinstance(f.value, ast.Name) and f.value.id in ('self', 'cls'):
            fi = repo.method(cls, f.attr)
            if fi is not None and isinstance(fi.node, ast.FunctionDef):
                decos = [unparse(d) for d in fi.node.decorator_list]
                if not decos:
                    return fi.node, f.value
                if decos == ['staticmethod']:
                    return fi.node, None
                if decos == ['classmethod']:
                    return fi.node, ast.Name(id='cls', ctx=ast.Load())
            return None
        if isinstance(f, ast.Name):
            fi = repo.functions.get('bisturi/%s.py::%s' % (module, f.id))
            if fi is not None and isinstance(fi.node, ast.FunctionDef) and not fi.node.decorator_list:
                return fi.node, None
        return None
    return resolve


# classes of the analysed package that define __exit__ (set when a Repo is loaded)
PACKAGE_CONTEXT_MANAGERS = set()


def extract(func, classifier, bind=None, callee=None):
    x = Extractor(func, classifier, bind, callee)
    x.todo = []
    x.nodes = {}
    return x.run()
