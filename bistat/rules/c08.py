"""C08 -- repeated, optional and referenced fields follow their declared control semantics.

Path / loop summaries of Sequence, Optional, Ref and the two normalisers:

 (a) Sequence.unpack stores a fresh list under the field name *before* count / when /
     until are evaluated (callbacks see the list built so far) and appends to that same list;
 (b) on the when-false path the incoming offset is returned unchanged and no element is parsed;
 (c) count mode iterates range(count) (=> max(count, 0) elements); until mode parses one
     element unconditionally, evaluates ``until`` once after each element (after it was
     appended), stops on the first truthy result (negation at both evaluation sites, the
     while tests the flag); every loop body parses exactly one element and appends the
     scratch slot's value;
 (d) Sequence.pack visits the list in order: scratch slot := element, one child pack each;
 (e) Optional: child unpack on the truthy path only, None stored and offset unchanged on the
     other; pack emits nothing for None, otherwise packs the value through the scratch slot;
 (f) Ref: the child's returned offset is the returned offset; the selector result goes down
     the Field path (rename, compile, init, unpack) or the Packet path; pack: a Packet value
     packs itself, anything else asks the selector with packing=True;
 (g) normalisers: int -> constant, Field -> getattr(pkt, that field's name), expression ->
     compiled, callable -> as is, anything else -> ValueError; no closure captures a loop
     variable anywhere in the package.
Values produced by user callbacks are not decided.

Round 4: whichever method of Sequence _compile installs behind .unpack for a mode is held to
the event language of that mode; the normalisers are checked by role (count / condition), whether
they are two functions or one told its role by a constant argument.

Round 5: (i) the deferred-expression evaluator keeps nothing between evaluations (C09-d); (j)
generated drivers index pkt.get_fields() of the packet at hand; (g) late binding looks at the
fate of the closure.

Round 6: (k) the structural unpackers keep no state on the field object; closures handed to a
function that keeps them; normaliser kinds from path facts with converting helpers followed.
Round 7: includes the compiler rule of C09 (i'); exactly-one-of count / until decided by a truth
table; the raw conditions may be kept in one attribute each; truth conversion three-valued.
Round 8: mode / strategy pairings that _compile cannot produce are dropped.
Round 9: stand-in callables for a control that was not declared are another encoding of the
modes: no verdict.
Round 9 (supplement): includes the n-ary call-form rule of C09 (every call form of a selector builds
the same NaryExpr).
"""
import ast

from .. import Undecided
from ..expr import canon, lin, call_name, unparse, negate, conj
from ..model import stmt_text
from ..expr import cmp_form
from ..lts import Classifier, extract, method_callee, compare, compile_spec, seq, alt, star, lit, opt

EXPLANATION = __doc__
LEVEL_RULE = 'one obligation per clause instance on the paths / loop summaries of Sequence, Optional, Ref and the normalisers'
ASSUMPTIONS = [
    'range(n) is empty for n <= 0',
    'user callbacks (count / when / until / selectors) are opaque',
]

CALLARGS = ('offset=offset', 'pkt=pkt', 'raw=raw')


def gtexts(p):
    out = set()
    for g, pol in p.guards:
        t = g if pol else negate(g)
        for c in conj(t):
            out.add(canon(c))
    return out


def is_cb_call(e, attr):
    return e.kind == 'call' and canon(e.call.func) == 'self.' + attr


def elem_unpacks(p):
    return [e for e in p.all_effects() if e.kind == 'call' and canon(e.call.func) == 'self.prototype_field.unpack']


class _SeqEvents(Classifier):
    """events of Sequence.unpack (what the declared semantics speaks about)"""

    def __init__(self, mode, params):
        self.mode = mode                     # dict when / count / until -> bool (is set)
        self.PKT, self.RAW, self.OFF = params
        self.stored = None

    def _args(self, c, off_ok):
        kw = {k.arg: canon(k.value) for k in c.keywords if k.arg}
        pos = [canon(a) for a in c.args]
        pkt_ok = kw.get('pkt') == self.PKT or (pos and pos[0] == self.PKT)
        raw_ok = kw.get('raw') == self.RAW or (len(pos) > 1 and pos[1] == self.RAW)
        off = kw.get('offset') if 'offset' in kw else (pos[2] if len(pos) > 2 else None)
        star = any(k.arg is None for k in c.keywords)
        return pkt_ok and raw_ok and off is not None and off_ok(off) and star

    def call(self, c):
        f = canon(c.func)
        cursor = lambda o: o == '<ev parse>'
        entry = lambda o: o == self.OFF
        anywhere = lambda o: o == self.OFF or o == '<ev parse>' or o.startswith(self.OFF + '@L') or ('<ev parse>' in o) or (self.OFF in o)
        if f == 'setattr' and len(c.args) == 3 and canon(c.args[1]) == 'self.field_name':
            v = canon(c.args[2])
            if canon(c.args[0]) == self.PKT and v.startswith('<fresh list'):
                self.stored = v
                return ('store-fresh-list', ())
            return ('store[%s]' % v[:40], ())
        if f == 'self.get_how_many_elements':
            return ('count' if self._args(c, entry) else 'count[wrong arguments]', ())
        if f == 'self.when':
            return ('when' if self._args(c, entry) else 'when[wrong arguments]', ('+', '-'))
        if f == 'self.until_condition':
            return ('until' if self._args(c, cursor) else 'until[not given the cursor after the element]', ('+', '-'))
        if f == 'self.prototype_field.unpack':
            return ('parse' if self._args(c, anywhere) else 'parse[wrong arguments]', ())
        if isinstance(c.func, ast.Attribute) and c.func.attr == 'append' and len(c.args) == 1:
            recv = canon(c.func.value)
            if recv.startswith('<fresh list') or recv == self.stored:
                good = recv == self.stored and canon(c.args[0]) == 'getattr(%s, self.seq_elem_field_name)' % self.PKT
                return ('append' if good else 'append[%s to %s]' % (canon(c.args[0])[:40], recv[:24]), ())
        if isinstance(c.func, ast.Attribute) and c.func.attr in ('extend', 'insert', 'pop', 'remove', 'clear', '__setitem__', 'sort', 'reverse') \
                and canon(c.func.value).startswith('<fresh list'):
            return ('list.%s' % c.func.attr, ())
        return None

    def truth(self, text, e):
        m = {'self.when': self.mode['when'], 'self.until_condition': self.mode['until'], 'self.get_how_many_elements': self.mode['count']}
        for k, v in m.items():
            if text == k or text == '(%s is not None)' % k:
                return v
            if text == '(%s is None)' % k:
                return not v
        return None

    def test(self, text, e):
        f = cmp_form(e)
        if f is not None:
            form, op = f
            if set(k for k in form if k != 1) == {'<ev count>'} and form.get('<ev count>') in (1, -1):
                # integer threshold on the count: n <= c
                s_, c_ = form['<ev count>'], form.get(1, 0)
                if s_ == 1 and op in ('<', '<='):
                    thr = -c_ - (1 if op == '<' else 0)
                    return 'count<=%d' % thr
                if s_ == -1 and op in ('<', '<='):
                    thr = c_ + (1 if op == '<' else 0)          # -n + c < 0  <=>  n > c ... n >= thr
                    return 'count>=%d' % thr
        return None

    def ret(self, v):
        if v is None:
            return 'None'
        t = canon(v)
        if t == self.OFF:
            return 'incoming offset'
        if t == '<ev parse>' or t.startswith(self.OFF + '@L'):
            return 'cursor'
        return 'other: %s' % t[:40]


def _seq_spec(mode):
    E = seq(lit('parse'), lit('append'))
    fresh = lit('store-fresh-list')
    if mode['count']:
        body = seq(lit('for[range(<ev count>)]'), star(seq(lit('next'), E)), lit('end'), lit('return[cursor]'))
        if mode['when']:
            tail = alt(seq(lit('count<=0+'), lit('return[incoming offset]')),
                       seq(lit('count<=0-'), alt(seq(lit('when-'), lit('return[incoming offset]')), seq(lit('when+'), body))))
        else:
            tail = body
        return seq(fresh, lit('count'), tail)
    ub = seq(E, star(seq(lit('until-'), E)), lit('until+'), lit('return[cursor]'))
    if mode['when']:
        return seq(fresh, alt(seq(lit('when-'), lit('return[incoming offset]')), seq(lit('when+'), ub)))
    return seq(fresh, ub)


def sequence_modes(ctx, sq):
    """what Sequence._compile can leave behind: {(count set?, until set?, when set? | None, name of
    the function behind .unpack)} -- when is None when the path does not decide it"""
    repo = ctx.repo
    comp = sq.methods.get('_compile')
    if comp is None:
        raise Undecided('Sequence._compile not found')
    combos = set()
    for p in repo.walker(max_paths=ctx.max_paths, split_ifexp=True).paths(comp.node, cls=sq):
        if p.raises():
            continue
        last = {}
        behind = 'unpack'
        for e in p.effects:
            if e.kind == 'store_attr' and canon(e.obj) == 'self' and e.name in ('get_how_many_elements', 'until_condition', 'when'):
                last[e.name] = not (isinstance(e.value, ast.Constant) and e.value.value is None)
            if e.kind == 'store_attr' and canon(e.obj) == 'self' and e.name == 'unpack':
                v = e.value
                if isinstance(v, ast.Attribute) and isinstance(v.value, ast.Name) and v.value.id == 'self' and repo.method(sq, v.attr) is not None:
                    behind = v.attr
                else:
                    raise Undecided('Sequence._compile stores %s behind .unpack' % canon(v)[:60])
        # a test of _compile on what it has just stored (if self.get_how_many_elements: ...) is
        # decided by that store: None is false, a normalised condition is a callable (true, as in
        # the same test made at run time by the unsplit unpack)
        gt_ = set(p.guard_texts())
        infeasible = False
        stored_ = {}
        for e in p.effects:
            if e.kind == 'store_attr' and canon(e.obj) == 'self' and e.name in last:
                stored_[e.name] = canon(e.value)
        for attr_, set_ in last.items():
            sv_ = stored_.get(attr_)
            if sv_ is not None and set_ and ('not ' + sv_) in gt_:
                infeasible = True       # the value just stored (a normalised condition) tested false
            if sv_ is not None and not set_ and sv_ in gt_:
                infeasible = True
            if ('self.%s' % attr_) in gt_ and not set_:
                infeasible = True
            if ('not self.%s' % attr_) in gt_ and set_:
                infeasible = True
            if ('(self.%s is None)' % attr_) in gt_ and set_:
                infeasible = True
            if ('(self.%s is not None)' % attr_) in gt_ and not set_:
                infeasible = True
        if infeasible:
            continue
        if 'get_how_many_elements' in last and 'until_condition' in last:
            # a when stored from a call is "set"; only an explicit None alternative is "not set"
            combos.add((last['get_how_many_elements'], last['until_condition'], last.get('when'), behind))
    return combos


def _stand_ins(repo, sq):
    """module-level functions stored as they are (not called) in the count / until slots"""
    out = set()
    fi = sq.methods.get('_compile')
    if fi is None:
        return out
    for n in ast.walk(fi.node):
        if isinstance(n, ast.Assign) and isinstance(n.targets[0], ast.Attribute) and n.targets[0].attr in ('get_how_many_elements', 'until_condition'):
            vals = n.value.values if isinstance(n.value, ast.BoolOp) else [n.value]
            for v in vals:
                if isinstance(v, ast.Name) and any(nm == v.id for (_, nm) in repo.module_funcs):
                    out.add(v.id)
    return out


def check_sequence_unpack(ctx, sq):
    """the events of whatever sits behind Sequence.unpack (store the fresh list, count / when /
    until callbacks with their outcomes, child parse, append, returned offset) form, in every mode
    _compile can set up, exactly the language the declared semantics prescribes -- however the
    loops are written, and whichever function _compile installs for the mode"""
    repo = ctx.repo
    rule = 'C08-sequence-unpack'
    if sq.methods.get('unpack') is None:
        raise Undecided('Sequence.unpack not found')
    combos = sequence_modes(ctx, sq)
    cu = {(c, u) for c, u, _, _ in combos}
    if cu != {(True, False), (False, True)} and _stand_ins(repo, sq):
        # the control that was not declared is a function of the module standing in for it
        # ("exactly one", "stop"): both slots are always set and unpack asks neither which mode
        # it is in -- another encoding of the modes than the one the table below knows
        ctx.undecided(rule, sq.methods['_compile'], 'Sequence._compile stores the stand-in %s for the control that was not declared' % sorted(_stand_ins(repo, sq))[0],
                      'cannot enumerate the modes: (count set, until set) in %s' % sorted(cu), sq.methods['_compile'].node.lineno, clause='c')
        return
    if cu != {(True, False), (False, True)}:
        ctx.violation(rule, sq.methods['_compile'], 'Sequence._compile leaves (count set, until set) in %s' % sorted(cu),
                      'a repeated field must be compiled to exactly one of count mode / until mode', sq.methods['_compile'].node.lineno, clause='c')
        return
    ctx.holds(rule, sq.methods['_compile'], 'Sequence._compile: count mode xor until mode', 'the two modes analysed below are the only ones', sq.methods['_compile'].node.lineno, clause='c')
    todo = set()
    for count_set, until_set, when_set, behind in combos:
        for w_ in ((False, True) if when_set is None or when_set is True else (False,)):
            # ("set" covers both a condition given by the user and, in the repository's own
            # spelling, the None that stands for "no condition": both are analysed)
            todo.add((count_set, until_set, w_, behind))
        if when_set is True:
            todo.add((count_set, until_set, False, behind))
    for count_set, until_set, when_set, behind in sorted(todo):
        fi = repo.method(sq, behind)
        a = fi.node.args
        names = [x.arg for x in a.posonlyargs + a.args]
        if len(names) < 4:
            raise Undecided('%s does not take (self, pkt, raw, offset)' % fi.qual)
        params = tuple(names[1:4])
        mode = {'count': count_set, 'until': until_set, 'when': when_set}
        name = '%s mode, %s%s' % ('count' if count_set else 'until', 'with when' if when_set else 'no when', '' if behind == 'unpack' else ' (%s)' % behind)
        ctx.unit('modes')
        try:
            code = extract(fi.node, _SeqEvents(mode, params), callee=method_callee(repo, sq))
        except Undecided as e:
            ctx.undecided(rule, fi, name, str(e), fi.node.lineno, clause='c')
            continue
        ctx.unit('automaton_states', code.n)
        cmp_ = compare(code, compile_spec(_seq_spec(mode)))
        diff = cmp_[1:] if cmp_[0] == 'differs' else None
        if cmp_[0] == 'foreign':
            ctx.undecided(rule, fi, name, 'Sequence.unpack does things the declared semantics does not speak about (%s): its event language cannot be compared' % ', '.join(cmp_[1][:4]), fi.node.lineno, clause='c')
        elif diff is None:
            ctx.holds(rule, fi, '%s: event language of Sequence.unpack' % name,
                      'fresh list stored first; %s; every pass parses one element and appends the scratch value; the cursor after the last element is returned'
                      % ('range(count) elements, nothing consumed when count <= 0 or when is false' if count_set else 'one element, then until after each element, stop on the first truthy result'),
                      fi.node.lineno, clause='c')
        else:
            trace, which = diff
            if which == 'only-first':
                why = 'the code can do [%s] after [%s]; the declared semantics does not allow it there' % (trace[-1], ' '.join(trace[:-1]))
            else:
                why = 'after [%s] the declared semantics requires [%s], which the code cannot do there' % (' '.join(trace[:-1]), trace[-1])
            ctx.violation(rule, fi, '%s: %s' % (name, ' '.join(trace)[:300]), why, fi.node.lineno, clause='c')


def check_sequence_pack(ctx, sq):
    repo = ctx.repo
    fi = sq.methods.get('pack')
    rule = 'C08-sequence-pack'
    w = repo.walker()
    for p in w.paths(fi.node, cls=sq):
        if p.raises():
            ctx.violation(rule, fi, 'Sequence.pack', 'pack raises on a path', fi.node.lineno, clause='d')
            continue
        loops = [e for e in p.effects if e.kind == 'loop']
        if len(loops) != 1 or loops[0].sub['kind'] != 'for':
            ctx.violation(rule, fi, 'Sequence.pack', 'expected one loop over the list', fi.node.lineno, clause='d')
            continue
        lp = loops[0]
        it = canon(lp.sub['iter'])
        if it != canon(ast.parse('getattr(pkt, self.field_name)', mode='eval').body):
            ctx.violation(rule, fi, 'for ... in %s' % it, 'pack must visit the stored list itself, in order (no slice / reverse / filter)', lp.lineno, clause='d')
            continue
        item = '<item of %d>' % lp.sub['phi']
        for bp in lp.sub['body']:
            sets = [e for e in bp.effects if e.kind == 'setattr' and canon(e.name) == 'self.seq_elem_field_name']
            packs = [e for e in bp.effects if e.kind == 'call' and canon(e.call.func) == 'self.prototype_field.pack']
            st = 'loop body: %s' % '; '.join(e.text()[:70] for e in bp.effects if e.kind in ('setattr', 'call'))
            if bp.end[0] != 'fall':
                ctx.violation(rule, fi, st[:250], 'the loop can stop early or skip an element', lp.lineno, clause='d')
            elif len(sets) != 1 or canon(sets[0].value) != item:
                ctx.violation(rule, fi, st[:250], 'the scratch slot must receive the current element', lp.lineno, clause='d')
            elif len(packs) != 1 or bp.effects.index(packs[0]) < bp.effects.index(sets[0]):
                ctx.violation(rule, fi, st[:250], 'exactly one child pack per element, after the scratch slot was set', lp.lineno, clause='d')
            else:
                args = [canon(a) for a in packs[0].call.args] + ['%s=%s' % (k.arg, canon(k.value)) for k in packs[0].call.keywords if k.arg]
                if ('pkt' in args or 'pkt=pkt' in args) and ('fragments' in args or 'fragments=fragments' in args):
                    ctx.holds(rule, fi, 'for val in list: scratch := val; child.pack(pkt, fragments)', 'one child pack per element, in order', lp.lineno, clause='d')
                else:
                    ctx.violation(rule, fi, st[:250], 'the child does not pack this packet into this buffer', lp.lineno, clause='d')


def check_optional(ctx, op):
    repo = ctx.repo
    rule = 'C08-optional'
    up, pk = op.methods.get('unpack'), op.methods.get('pack')
    w = repo.walker()
    seen = set()
    for p in w.paths(up.node, cls=op):
        if p.raises():
            continue
        gt = gtexts(p)
        when_calls = [e for e in p.effects if is_cb_call(e, 'when')]
        if len(when_calls) != 1 or not all(a in canon(when_calls[0].call) for a in CALLARGS):
            ctx.violation(rule, up, 'Optional.unpack', 'the when condition must be evaluated once with (pkt, raw, offset, **k)', up.node.lineno, clause='e')
            continue
        wc = canon(when_calls[0].call)
        st_ = [e for e in p.effects if e.kind == 'setattr' and canon(e.name) == 'self.field_name']
        ups = [e for e in p.effects if e.kind == 'call' and canon(e.call.func) == 'self.prototype_field.unpack']
        r = p.ret()
        if wc in gt:
            seen.add(True)
            ok = len(ups) == 1 and len(st_) == 1 and canon(st_[0].value) == canon(ast.parse('getattr(pkt, self.opt_elem_field_name)', mode='eval').body) \
                and p.effects.index(ups[0]) < p.effects.index(st_[0]) and r is not None and canon(r) == canon(ups[0].call) and all(a in canon(ups[0].call) for a in CALLARGS)
            if ok:
                ctx.holds(rule, up, 'when true: parse child at the cursor, store the scratch value, return the child\'s cursor', 'parsed iff the condition is true', up.node.lineno, clause='e')
            else:
                ctx.violation(rule, up, 'when true: %s -> return %s' % ([e.text()[:60] for e in p.effects if e.kind in ('setattr', 'call')], canon(r) if r is not None else None),
                              'on the truthy path the child must be parsed once at the cursor, its value stored, and its cursor returned', up.node.lineno, clause='e')
        elif ('not ' + wc) in gt:
            seen.add(False)
            ok = not ups and len(st_) == 1 and isinstance(st_[0].value, ast.Constant) and st_[0].value.value is None and r is not None and canon(r) == 'offset'
            if ok:
                ctx.holds(rule, up, 'when false: store None, return offset', 'absent optional consumes nothing', up.node.lineno, clause='e')
            else:
                ctx.violation(rule, up, 'when false: %s -> return %s' % ([e.text()[:60] for e in p.effects if e.kind in ('setattr', 'call')], canon(r) if r is not None else None),
                              'on the falsy path nothing may be parsed, None must be stored and the offset returned unchanged', up.node.lineno, clause='e')
        else:
            ctx.undecided(rule, up, 'path [%s]' % '; '.join(sorted(gt))[:160], 'path does not branch on the when condition', up.node.lineno, clause='e')
    if seen != {True, False}:
        ctx.violation(rule, up, 'Optional.unpack', 'expected a truthy and a falsy path on the when condition, found %s' % sorted(seen), up.node.lineno, clause='e')
    GETV = canon(ast.parse('getattr(pkt, self.field_name)', mode='eval').body)
    seenp = set()
    for p in w.paths(pk.node, cls=op):
        if p.raises():
            continue
        gt = gtexts(p)
        packs = [e for e in p.effects if e.kind == 'call' and canon(e.call.func) == 'self.prototype_field.pack']
        sets = [e for e in p.effects if e.kind == 'setattr']
        if ('(%s is None)' % GETV) in gt:
            seenp.add('none')
            if packs or sets or p.calls(lambda e: 'fragments.' in canon(e.call.func)):
                ctx.violation(rule, pk, 'value None: %s' % [e.text()[:60] for e in p.effects], 'an absent optional must emit nothing', pk.node.lineno, clause='e')
            else:
                ctx.holds(rule, pk, 'value None: nothing emitted', 'absent optional emits nothing', pk.node.lineno, clause='e')
        elif ('(%s is not None)' % GETV) in gt:
            seenp.add('value')
            ok = len(packs) == 1 and len(sets) == 1 and canon(sets[0].name) == 'self.opt_elem_field_name' and canon(sets[0].value) == GETV \
                and p.effects.index(sets[0]) < p.effects.index(packs[0])
            if ok:
                ctx.holds(rule, pk, 'value present: scratch := value; child.pack', 'present optional packs its value', pk.node.lineno, clause='e')
            else:
                ctx.violation(rule, pk, 'value present: %s' % [e.text()[:60] for e in p.effects if e.kind in ('setattr', 'call')], 'a present optional must pack its value through the scratch slot exactly once', pk.node.lineno, clause='e')
        else:
            ctx.violation(rule, pk, 'path [%s]' % '; '.join(sorted(gt)), 'pack does not decide on "value is None"', pk.node.lineno, clause='e')
    if seenp != {'none', 'value'}:
        ctx.violation(rule, pk, 'Optional.pack', 'expected a None path and a value path', pk.node.lineno, clause='e')


def check_ref(ctx, rf):
    repo = ctx.repo
    rule = 'C08-ref'
    w = repo.walker()
    from ..model import ref_strategies
    m = ref_strategies(repo)
    roles = {r: fs for r, fs in m['all'].items() if len(fs) > 1}
    if roles:
        # _compile installs different functions in one role depending on a further test: each is judged in that role
        for role, fs in roles.items():
            for f in fs:
                if f is not m[role]:
                    m2 = dict(m); m2[role] = f; m2['all'] = {}
                    _check_ref_roles(ctx, rf, m2)
    _check_ref_roles(ctx, rf, m)


def _check_ref_roles(ctx, rf, m):
    repo = ctx.repo
    rule = 'C08-ref'
    w = repo.walker()
    # referencing a packet
    fi = m['unpack_packet']
    for p in w.paths(fi.node, cls=rf):
        st_ = [e for e in p.effects if e.kind == 'setattr' and canon(e.name) == 'self.field_name']
        r = p.ret()
        ok = len(st_) == 1 and canon(st_[0].value) == 'self.proto_class(_initialize_fields=False)' and r is not None \
            and canon(r) == 'self.proto_class(_initialize_fields=False).unpack_impl(**k)'
        if ok:
            ctx.holds(rule, fi, 'p = proto_class(_initialize_fields=False); store p; return p.unpack_impl(**k)', 'nested packet parsed at the cursor, its cursor returned', fi.node.lineno, clause='f')
        else:
            ctx.violation(rule, fi, 'store %s; return %s' % ([canon(e.value) for e in st_], canon(r) if r is not None else None), 'a reference must parse a new instance of the referenced class with the caller\'s (raw, offset, **k) and return its cursor', fi.node.lineno, clause='f')
    fi = m['pack_packet']
    for p in w.paths(fi.node, cls=rf):
        r = p.ret()
        want = canon(ast.parse('getattr(pkt, self.field_name).pack_impl(fragments=fragments, **k)', mode='eval').body)
        if r is not None and canon(r) == want:
            ctx.holds(rule, fi, 'return value.pack_impl(fragments=fragments, **k)', 'the nested packet packs itself at the cursor', fi.node.lineno, clause='f')
        else:
            ctx.violation(rule, fi, 'return %s' % (canon(r) if r is not None else None), 'expected the stored packet to pack itself into the same buffer', fi.node.lineno, clause='f')
    # through a callable
    fi = m['unpack_callable']
    sel = 'self.prototype(**k, offset=offset, pkt=pkt, raw=raw)'
    seen = set()
    for p in w.paths(fi.node, cls=rf):
        if p.raises():
            continue
        gt = gtexts(p)
        r = p.ret()
        if ('isinstance(%s, Field)' % sel) in gt:
            seen.add('field')
            calls = [e.text() for e in p.effects if e.kind in ('call', 'store_attr')]
            ok = any(t.startswith(sel + '.field_name = self.field_name') for t in calls) and any('._compile(' in t for t in calls) and any('.init(pkt, {})' in t for t in calls) \
                and r is not None and canon(r) == sel + '.unpack(**k, offset=offset, pkt=pkt, raw=raw)'
            if ok:
                ctx.holds(rule, fi, 'selector -> Field: rename, compile, init, return field.unpack(pkt, raw, offset, **k)', 'the selected field is parsed at the cursor', fi.node.lineno, clause='f')
            else:
                ctx.violation(rule, fi, 'selector -> Field: %s; return %s' % (calls[-4:], canon(r) if r is not None else None), 'the selected field must be renamed to this field, compiled, initialised and parsed at the cursor; its cursor is returned', fi.node.lineno, clause='f')
        elif ('isinstance(%s, Packet)' % sel) in gt:
            seen.add('packet')
            st_ = [e for e in p.effects if e.kind == 'setattr' and canon(e.name) == 'self.field_name']
            ok = len(st_) == 1 and r is not None and canon(r) in (canon(st_[0].value) + '.unpack_impl(raw, offset, **k)', canon(st_[0].value) + '.unpack_impl(**k, offset=offset, raw=raw)')
            if ok and canon(st_[0].value) == sel:
                # the very object the selector returned is parsed into and kept
                ctx.violation(rule, fi, 'selector -> Packet: store the selector\'s object; return it.unpack_impl(raw, offset, **k)', 'the packet the selector hands out is parsed into and stored, not a new instance of its class: a selector that hands out the same packet every time (chooses({..: APacket()})) makes every result, and every element of a repeated reference, the same object -- the first result packs as the last one parsed', fi.node.lineno, clause='f', witness=True)
                continue
            if ok:
                ctx.holds(rule, fi, 'selector -> Packet: store; return it.unpack_impl(raw, offset, **k)', 'the selected packet is parsed at the cursor', fi.node.lineno, clause='f')
            else:
                ctx.violation(rule, fi, 'selector -> Packet: store %s; return %s' % ([canon(e.value)[:60] for e in st_], canon(r)[:100] if r is not None else None), 'the packet stored must be the one parsed at (raw, offset) and its cursor returned', fi.node.lineno, clause='f')
    if seen != {'field', 'packet'}:
        ctx.violation(rule, fi, 'Ref: unpack through a selector', 'expected a Field path and a Packet path after calling the selector with (pkt, raw, offset, **k); found %s' % sorted(seen), fi.node.lineno, clause='f')
    fi = m['pack_callable']
    seen = set()
    GETV = canon(ast.parse('getattr(pkt, self.field_name)', mode='eval').body)
    for p in w.paths(fi.node, cls=rf):
        gt = gtexts(p)
        r = p.ret()
        if ('isinstance(%s, Packet)' % GETV) in gt:
            seen.add('packet')
            if not p.raises() and r is not None and canon(r) == GETV + '.pack_impl(**k, fragments=fragments)':
                ctx.holds(rule, fi, 'value is a Packet: return value.pack_impl(fragments=fragments, **k)', 'a packet value packs itself', fi.node.lineno, clause='f')
            else:
                ctx.violation(rule, fi, 'value is a Packet: return %s' % (canon(r) if r is not None else None), 'a packet value must pack itself into the same buffer', fi.node.lineno, clause='f')
        elif not p.raises():
            selp = [e for e in p.effects if is_cb_call(e, 'prototype')]
            if len(selp) == 1 and 'packing=True' in canon(selp[0].call) and r is not None and canon(r) == canon(selp[0].call) + '.pack(pkt, fragments, **k)':
                seen.add('field')
                ctx.holds(rule, fi, 'other value: selector(packing=True) -> Field; return field.pack(pkt, fragments, **k)', 'the selector tells how to pack a plain value', fi.node.lineno, clause='f')
            else:
                ctx.violation(rule, fi, 'other value: %s; return %s' % ([e.text()[:60] for e in selp], canon(r)[:80] if r is not None else None), 'a non-packet value must be packed by the field the selector returns when called with packing=True', fi.node.lineno, clause='f')
    # sibling agreement: the field the selector returns is prepared the same way on both sides
    def prep(fn):
        out = set()
        for p in w.paths(fn.node, cls=rf):
            for e in p.effects:
                if e.kind == 'call' and isinstance(e.call.func, ast.Attribute) and e.call.func.attr == '_compile':
                    kw = sorted('%s=%s' % (k.arg, canon(k.value)) for k in e.call.keywords) + [canon(a) for a in e.call.args]
                    out.add(tuple(kw))
        return out
    pu, pp = prep(m['unpack_callable']), prep(m['pack_callable'])
    if pu == pp and pu:
        ctx.holds(rule, fi, 'selected field compiled with %s on both sides' % (sorted(pu)[0][:3],), 'parse and serialize use the same codec for the selected field', fi.node.lineno, clause='f')
    else:
        ctx.violation(rule, fi, 'selected field: unpack compiles with %s, pack with %s' % (sorted(pu), sorted(pp)), 'the field returned by the selector is configured differently when parsing and when serializing (byte order / alignment / search window differ)', fi.node.lineno, clause='f')
    if seen != {'field', 'packet'}:
        ctx.violation(rule, fi, 'Ref: pack through a selector', 'expected a Packet path and a selector path; found %s' % sorted(seen), fi.node.lineno, clause='f')


def _normaliser_kinds(ctx, repo, fi, consts, role, rule):
    """kinds of raw value the normaliser accepts in this role, each checked against what the
    declared semantics says it becomes.  ``consts``: constant arguments of the call (a shared
    normaliser told by a flag which role it plays)"""
    a = fi.node.args
    names = [x.arg for x in a.posonlyargs + a.args + a.kwonlyargs]
    P = names[0]
    defaults = dict(zip(reversed([x.arg for x in a.posonlyargs + a.args]), reversed(a.defaults)))
    for x, d in zip(a.kwonlyargs, a.kw_defaults):
        if d is not None:
            defaults[x.arg] = d
    bind = {n: (consts[n] if n in consts else defaults[n]) for n in names[1:] if n in consts or n in defaults}
    # helpers that turn one kind of raw value into another are followed, except the two whose
    # *call* is what the rule looks for
    def first_order(f):
        for c in ast.walk(f.node):
            if isinstance(c, ast.Call) and isinstance(c.func, ast.Name):
                g = repo.module_funcs.get((f.module, c.func.id))
                if g is not None and g is not f:
                    gp = {x.arg for x in g.node.args.args + g.node.args.kwonlyargs}
                    if any(isinstance(x, ast.Call) and isinstance(x.func, ast.Name) and x.func.id in gp for x in ast.walk(g.node)):
                        return False        # the callee calls one of its parameters: not followed
        return True
    w = repo.walker(inline_depth=1 if first_order(fi) else 0, keep={'compile_expr_into_callable', 'convert_a_field_raw_condition_into_a_boolean_unary_expression'})
    kinds = set()
    label = 'count' if role == 'count' else 'condition'
    from ..model import path_facts
    for p in w.paths(fi.node, bind=dict(bind)):
        gt = gtexts(p)
        r = p.ret()
        if p.raises():
            kinds.add('reject')
            continue
        # what is known on the path (unit propagation through disjunctions), atoms only
        pos = [g for g in (set(gt) | set(path_facts(p))) if not g.startswith('not ') and ' or ' not in g]
        if ('callable(%s)' % P) in pos and not any('isinstance(%s' % P in g for g in pos):
            kinds.add('callable')
            if r is None or canon(r) != P:
                ctx.violation(rule, fi, '%s: callable -> %s' % (label, canon(r) if r is not None else None), 'a callable must be used as is', fi.node.lineno, clause='g')
        elif ('isinstance(%s, int)' % P) in pos:
            kinds.add('int')
            if role == 'count' and not (isinstance(r, ast.Lambda) and canon(r.body) == P):
                ctx.violation(rule, fi, 'int -> %s' % (canon(r) if r is not None else None), 'a constant count must become a function returning that constant', fi.node.lineno, clause='g')
        elif ('isinstance(%s, Field)' % P) in pos:
            kinds.add('field')
            if role == 'count':
                ok = isinstance(r, ast.Lambda) and bool(r.args.args) and canon(r.body, {r.args.args[0].arg: 'PKT'}) == 'getattr(PKT, %s.field_name)' % P
                if not ok:
                    ctx.violation(rule, fi, 'Field -> %s' % (canon(r) if r is not None else None), "a field count must read that field's value from the packet", fi.node.lineno, clause='g')
            elif r is None or ('(%s)' % P) not in canon(r) or canon(r) in (P, 'compile_expr_into_callable(%s)' % P):
                ctx.violation(rule, fi, 'condition: Field -> %s' % (canon(r) if r is not None else None), 'a field used as a condition must become the compiled truth expression of that field', fi.node.lineno, clause='g')
        elif any(('isinstance(%s, (UnaryExpr' % P) in g for g in pos):
            kinds.add('expr')
            if r is None or canon(r) != 'compile_expr_into_callable(%s)' % P:
                ctx.violation(rule, fi, '%s: expression -> %s' % (label, canon(r) if r is not None else None), 'a field expression must be compiled', fi.node.lineno, clause='g')
    return kinds


def _follow_wrapper(repo, fi, consts):
    """a normaliser that only forwards its argument to another one with constant options"""
    for _ in range(3):
        body = [x for x in fi.node.body if not (isinstance(x, ast.Expr) and isinstance(x.value, ast.Constant))]
        a = fi.node.args
        if len(body) != 1 or not isinstance(body[0], ast.Return) or not isinstance(body[0].value, ast.Call) or len(a.args) != 1 or consts:
            return fi, consts
        c = body[0].value
        if not (isinstance(c.func, ast.Name) and len(c.args) >= 1 and canon(c.args[0]) == a.args[0].arg):
            return fi, consts
        g = repo.module_funcs.get((fi.module, c.func.id))
        if g is None or g is fi:
            return fi, consts
        names = [x.arg for x in g.node.args.posonlyargs + g.node.args.args]
        cs = {}
        for n, x in list(zip(names[1:], c.args[1:])) + [(k.arg, k.value) for k in c.keywords]:
            if n is None or not isinstance(x, ast.Constant):
                return fi, consts
            cs[n] = x.value
        fi, consts = g, tuple(sorted(cs.items()))
    return fi, consts


def _routes(ctx, repo, cls, attrs):
    """attr -> set of (normaliser FuncInfo | None, canonical first argument, constant arguments, text)
    over the non-None values _compile stores"""
    comp = cls.methods.get('_compile')
    got = {k: set() for k in attrs}
    for p in repo.walker(max_paths=ctx.max_paths).paths(comp.node, cls=cls):
        if p.raises():
            continue
        for e in p.effects:
            if e.kind == 'store_attr' and canon(e.obj) == 'self' and e.name in attrs and not (isinstance(e.value, ast.Constant) and e.value.value is None):
                v = e.value
                if isinstance(v, ast.IfExp):
                    v = v.orelse if (isinstance(v.body, ast.Constant) and v.body.value is None) else v.body
                f, arg, consts = None, None, ()
                if isinstance(v, ast.Call) and isinstance(v.func, ast.Name) and v.args and not any(isinstance(x, ast.Starred) for x in v.args):
                    f = repo.module_funcs.get(('structural_fields', v.func.id))
                    arg = canon(v.args[0])
                    if f is not None:
                        names = [x.arg for x in f.node.args.posonlyargs + f.node.args.args]
                        cs = {}
                        okc = True
                        for n, x in list(zip(names[1:], v.args[1:])) + [(k.arg, k.value) for k in v.keywords]:
                            if n is None or not isinstance(x, ast.Constant):
                                okc = False
                            else:
                                cs[n] = x.value
                        consts = tuple(sorted(cs.items())) if okc else None
                got[e.name].add((f.id if f is not None else None, arg, consts, canon(v)))
    return got


def check_normalisers(ctx):
    """count / until / when reach the run-time attributes through a normaliser that, for that
    role, turns every accepted kind of raw value into what the declared semantics says -- whether
    there is one normaliser per role or a shared one told its role by a constant argument"""
    repo = ctx.repo
    rule = 'C08-normalisers'
    sqc = repo.cls('Sequence')
    sq = sqc.methods.get('_compile')
    ctor = sqc.methods.get('__init__')
    if sq is None or ctor is None:
        raise Undecided('anchor Sequence._compile / __init__ not found')
    tm = [n for n in ast.walk(ctor.node) if isinstance(n, ast.Assign) and canon(n.targets[0]) == 'self.tmp']
    order = [canon(x) for x in tm[0].value.elts] if tm and isinstance(tm[0].value, ast.Tuple) else None
    roles = {'get_how_many_elements': 'count', 'until_condition': 'until', 'when': 'when'}
    seen = {}
    idx = None
    if order is not None and sorted(order) == ['count', 'until', 'when']:
        idx = {nm: 'self.tmp[%d]' % i for i, nm in enumerate(order)}
    else:
        # each raw value kept in an attribute of its own (a top-level statement of the constructor,
        # an attribute that nothing else of the class assigns)
        kept = {}
        for st_ in ctor.node.body:
            if isinstance(st_, ast.Assign) and len(st_.targets) == 1 and isinstance(st_.targets[0], ast.Attribute) and canon(st_.targets[0].value) == 'self' \
                    and isinstance(st_.value, ast.Name) and st_.value.id in ('count', 'until', 'when'):
                kept.setdefault(st_.value.id, []).append(st_.targets[0].attr)
        others = {n.attr for c_ in set(repo.mro(sqc)) | set(repo.subclasses(sqc.name)) for m_ in c_.methods.values() if m_ is not ctor for n in ast.walk(m_.node)
                  if isinstance(n, ast.Attribute) and isinstance(n.ctx, (ast.Store, ast.Del)) and canon(n.value) == 'self'}
        if sorted(kept) == ['count', 'until', 'when'] and all(len(v) == 1 and v[0] not in others for v in kept.values()):
            idx = {nm: 'self.%s' % v[0] for nm, v in kept.items()}
            order = ['%s in self.%s' % (nm, v[0]) for nm, v in sorted(kept.items())]
    if idx is None:
        ctx.violation(rule, ctor, 'self.tmp = %s' % (canon(tm[0].value) if tm else None), 'count / until / when are not kept for _compile', ctor.node.lineno, clause='g')
    else:
        got = _routes(ctx, repo, sqc, set(roles))
        bad = {}
        for attr, role in roles.items():
            for fid, arg, consts, text in got[attr]:
                if fid is None or consts is None:
                    bad[attr] = 'stored from %s, which is not a call of a normaliser of this module with constant options' % text
                elif arg != idx[role]:
                    bad[attr] = 'normalised from %s, but the constructor keeps %s in %s' % (arg, role, idx[role])
                else:
                    seen.setdefault(('count' if role == 'count' else 'condition', fid, consts), []).append(attr)
            if not got[attr]:
                bad[attr] = 'never set to a normalised value'
        if bad and _stand_ins(repo, sqc):
            ctx.undecided(rule, sq, 'Sequence._compile: %s' % bad, 'a control that was not declared is replaced by a stand-in function of the module: not the routes the rule knows', sq.node.lineno, clause='g')
        elif not bad:
            ctx.holds(rule, sq, 'Sequence._compile: count / until / when each normalised from its own constructor slot %s' % order, 'declared roles, same order as stored by the constructor', sq.node.lineno, clause='g')
        else:
            ctx.violation(rule, sq, 'Sequence._compile: %s' % bad, 'count / until / when are not routed through a normaliser from their own slots', sq.node.lineno, clause='g')
    opc = repo.cls('Optional')
    gotw = _routes(ctx, repo, opc, {'when'})
    for fid, arg, consts, text in gotw['when']:
        if fid is not None and consts is not None and arg == 'self.tmp':
            seen.setdefault(('condition', fid, consts), []).append('Optional.when')
    for (role, fid, consts), attrs in sorted(seen.items()):
        fi, consts = _follow_wrapper(repo, repo.functions[fid], consts)
        ctx.unit('functions')
        kinds = _normaliser_kinds(ctx, repo, fi, dict((k, ast.Constant(value=v)) for k, v in consts), role, rule)
        want = {'callable', 'int', 'field', 'expr', 'reject'} if role == 'count' else {'callable', 'field', 'expr', 'reject'}
        opts = ('(%s)' % ', '.join('%s=%r' % kv for kv in consts)) if consts else ''
        if kinds >= want and (role == 'count' or 'int' not in kinds):
            ctx.holds(rule, fi, '%s%s as the %s normaliser (%s): %s' % (fi.qual, opts, role, ', '.join(sorted(attrs)),
                      'callable | int | Field | expression | else ValueError' if role == 'count' else 'callable | Field -> truth expression -> compiled | expression -> compiled | else ValueError'),
                      'every accepted kind is normalised as declared', fi.node.lineno, clause='g')
        elif not (kinds - {'reject'}):
            ctx.undecided(rule, fi, '%s%s as the %s normaliser' % (fi.qual, opts, role), 'none of the kinds of raw value is handled in a form the rule reads (the work is delegated)', fi.node.lineno, clause='g')
        else:
            ctx.violation(rule, fi, '%s%s as the %s normaliser: kinds handled %s' % (fi.qual, opts, role, sorted(kinds)),
                          'expected %s' % sorted(want), fi.node.lineno, clause='g')
    if not any(r == 'count' for r, _, _ in seen) or not any(r == 'condition' for r, _, _ in seen):
        if not any(o.rule == rule and o.verdict != 'HOLDS' for o in ctx.obs):
            ctx.undecided(rule, sq, 'normalisers', 'no normaliser call found for the count / the conditions', sq.node.lineno, clause='g')
    opc = repo.cls('Optional')
    op = opc.methods.get('_compile')
    okw = False
    for p in repo.walker().paths(op.node, cls=opc):
        for e in p.effects:
            if e.kind == 'store_attr' and canon(e.obj) == 'self' and e.name == 'when' and canon(e.value) == 'normalize_raw_condition_into_a_callable(self.tmp)':
                okw = True
    octor = opc.methods.get('__init__')
    stored = any(isinstance(n, ast.Assign) and canon(n.targets[0]) == 'self.tmp' and canon(n.value) == 'when' for n in ast.walk(octor.node))
    if okw and stored:
        ctx.holds(rule, op, 'Optional: self.tmp = when; self.when = condition normaliser(self.tmp)', 'declared role', op.node.lineno, clause='g')
    else:
        ctx.violation(rule, op, 'Optional._compile', 'the when condition is not normalised from the value given to the constructor', op.node.lineno, clause='g')


def check_truth_conversion(ctx):
    """a field used as a condition becomes the deferred truth of its value: __nonzero__ when the
    field has it (integers, optionals), else __len__ (sequences) -- never a comparison"""
    repo = ctx.repo
    rule = 'C08-normalisers'
    fi = repo.module_funcs.get(('structural_fields', 'convert_a_field_raw_condition_into_a_boolean_unary_expression'))
    if fi is None:
        # inlined elsewhere: find the function the Field branch of the condition normaliser calls
        fr = repo.module_funcs.get(('structural_fields', 'normalize_raw_condition_into_a_callable'))
        name = None
        for n in ast.walk(fr.node):
            if isinstance(n, ast.If) and 'isinstance(raw_condition, Field)' in unparse(n.test):
                for c in ast.walk(n):
                    if isinstance(c, ast.Call) and isinstance(c.func, ast.Name) and c.func.id != 'isinstance':
                        name = c.func.id
        fi = repo.module_funcs.get(('structural_fields', name)) if name else None
    if fi is None:
        ctx.undecided(rule, ('bisturi/structural_fields.py', '<module>'), 'field -> truth conversion', 'helper not found')
        return
    P = fi.node.args.args[0].arg
    w = repo.walker()
    ok = False
    order = None
    for n in ast.walk(fi.node):
        if isinstance(n, (ast.Tuple, ast.List)) and n.elts and all(isinstance(x, ast.Constant) and isinstance(x.value, str) and x.value.startswith('__') for x in n.elts):
            order = [x.value for x in n.elts]
    rets = [r for r in ast.walk(fi.node) if isinstance(r, ast.Return) and r.value is not None]
    single = {}
    for n in ast.walk(fi.node):
        if isinstance(n, ast.Assign) and len(n.targets) == 1 and isinstance(n.targets[0], ast.Name):
            single.setdefault(n.targets[0].id, []).append(n.value)

    def looked_up(f):
        # getattr(P, m) / getattr(P, m, <default>) directly, or through a local bound once to it
        if isinstance(f, ast.Name) and len(single.get(f.id, [])) == 1:
            f = single[f.id][0]
        return isinstance(f, ast.Call) and call_name(f) == 'getattr' and len(f.args) in (2, 3) and canon(f.args[0]) == P
    good_ret = all(isinstance(r.value, ast.Call) and not r.value.args and not r.value.keywords and looked_up(r.value.func) for r in rets) and rets
    compares = [r for r in rets if any(isinstance(x, (ast.Compare, ast.BoolOp)) and any(isinstance(y, ast.Name) and y.id == P for y in ast.walk(x)) for x in ast.walk(r.value))]
    if order == ['__nonzero__', '__len__'] and good_ret:
        ctx.holds(rule, fi, 'field condition -> first of (__nonzero__, __len__) the field has, called', 'truth of the value (None / empty are false), integers by value', fi.node.lineno, clause='g')
    elif not compares and order is None and rets:
        ctx.undecided(rule, fi, 'field condition -> %s' % ('; '.join(stmt_text(r) for r in rets)[:160]), 'cannot see in which order the truth operators of the field are tried', fi.node.lineno, clause='g')
    else:
        ctx.violation(rule, fi, 'field condition -> %s' % ('; '.join(stmt_text(r) for r in rets)[:160] or 'no return'),
                      'a field used as a condition must become its deferred truth value (__nonzero__, else __len__): a comparison such as field != 0 is true for None, b\'\' and []', fi.node.lineno, clause='g')


def check_modifier_plumbing(ctx):
    """Field.repeated / Field.when hand every argument to the same-named constructor parameter;
    the constructors keep them under the attributes the run-time code reads"""
    repo = ctx.repo
    rule = 'C08-modifier-plumbing'
    fld = repo.cls('Field')
    for mname, cname, want in (('repeated', 'Sequence', {'prototype': 'self', 'count': 'count', 'until': 'until', 'when': 'when', 'default': 'default', 'aligned': 'aligned'}),
                               ('when', 'Optional', {'prototype': 'self', 'when': 'condition', 'default': 'default'})):
        fi = fld.methods.get(mname)
        ctor = repo.cls(cname).methods.get('__init__')
        if fi is None or ctor is None:
            ctx.undecided(rule, (fld.file, 'Field.' + mname), mname, 'modifier / constructor not found')
            continue
        cparams = [a.arg for a in ctor.node.args.args][1:]
        calls = [n for n in ast.walk(fi.node) if isinstance(n, ast.Call) and call_name(n) == cname]
        if len(calls) != 1:
            ctx.violation(rule, fi, 'Field.%s' % mname, 'the modifier does not build exactly one %s' % cname, fi.node.lineno, clause='g')
            continue
        c = calls[0]
        bound = dict(zip(cparams, [canon(a) for a in c.args]))
        for k in c.keywords:
            if k.arg:
                bound[k.arg] = canon(k.value)
        # the modifier's own parameter names
        if mname == 'when':
            mp = [a.arg for a in fi.node.args.args][1:]
            want = {'prototype': 'self', 'when': mp[0] if mp else 'condition', 'default': mp[1] if len(mp) > 1 else 'default'}
        bad = {k: bound.get(k) for k in want if bound.get(k) != want[k]}
        st = 'Field.%s -> %s(%s)' % (mname, cname, ', '.join('%s=%s' % kv for kv in sorted(bound.items())))
        if bad:
            ctx.violation(rule, fi, st, 'arguments reach the wrong constructor parameter: %s (expected %s)' % (bad, {k: want[k] for k in bad}), c.lineno, clause='g')
        else:
            ctx.holds(rule, fi, st, 'every argument reaches the parameter of the same meaning', c.lineno, clause='g')
    # constructors keep them where the run-time code reads them
    from ..model import ctor_stores
    sq = repo.cls('Sequence').methods.get('__init__')
    keep = {k: (sorted(v)[0] if len(v) == 1 else None) for k, v in ctor_stores(repo, repo.cls('Sequence')).items()}
    if keep.get('prototype_field') == 'prototype' and keep.get('aligned_to') == 'aligned':
        ctx.holds(rule, sq, 'Sequence.__init__: prototype_field = prototype; aligned_to = aligned', 'stored where unpack / pack read them', sq.node.lineno, clause='g')
    else:
        ctx.violation(rule, sq, 'Sequence.__init__ stores %s' % {k: keep.get(k) for k in ('prototype_field', 'aligned_to')}, 'the element prototype / alignment are not kept unchanged', sq.node.lineno, clause='g')
    # exactly one of count / until
    xor_ok = False

    class _Open(Exception):
        pass

    def _ev(t, env):
        # truth of a test over the atoms "count is None" / "until is None"
        if isinstance(t, ast.BoolOp):
            vals = [_ev(v, env) for v in t.values]
            return all(vals) if isinstance(t.op, ast.And) else any(vals)
        if isinstance(t, ast.UnaryOp) and isinstance(t.op, ast.Not):
            return not _ev(t.operand, env)
        if isinstance(t, ast.Compare) and len(t.ops) == 1:
            l, r, op = t.left, t.comparators[0], t.ops[0]
            if isinstance(l, ast.Name) and l.id in env and isinstance(r, ast.Constant) and r.value is None and isinstance(op, (ast.Is, ast.IsNot, ast.Eq, ast.NotEq)):
                return env[l.id] if isinstance(op, (ast.Is, ast.Eq)) else not env[l.id]
            if isinstance(op, (ast.Eq, ast.NotEq, ast.Is, ast.IsNot)) and all(isinstance(x, (ast.Compare, ast.BoolOp, ast.UnaryOp)) for x in (l, r)):
                same = _ev(l, env) == _ev(r, env)
                return same if isinstance(op, (ast.Eq, ast.Is)) else not same
        if isinstance(t, ast.BinOp) and isinstance(t.op, ast.BitXor):
            return _ev(t.left, env) != _ev(t.right, env)
        raise _Open()
    rejected, open_ = set(), False
    for n in sq.node.body:
        if isinstance(n, ast.If) and n.body and all(isinstance(x, ast.Raise) for x in n.body) and not n.orelse:
            for a_ in (True, False):
                for b_ in (True, False):
                    try:
                        if _ev(n.test, {'count': a_, 'until': b_}):
                            rejected.add((a_, b_))
                    except _Open:
                        if any(isinstance(x, ast.Name) and x.id in ('count', 'until') for x in ast.walk(n.test)):
                            open_ = True
    if {(True, True), (False, False)} <= rejected and not ({(True, False), (False, True)} & rejected):
        xor_ok = True
    if not xor_ok:
        for n in ast.walk(sq.node):
            if isinstance(n, ast.If) and any(isinstance(x, ast.Raise) for x in n.body):
                t = canon(n.test)
                if 'count is None' in t and 'until is None' in t and 'count is not None' in t and 'until is not None' in t:
                    xor_ok = True
    if xor_ok:
        ctx.holds(rule, sq, 'Sequence.__init__: exactly one of count / until, else ValueError', 'the two repetition modes are exclusive', sq.node.lineno, clause='g')
    elif open_:
        ctx.undecided(rule, sq, 'Sequence.__init__', 'a test on count / until that the rule cannot evaluate guards a raise: cannot see which combinations are rejected', sq.node.lineno, clause='g')
    else:
        ctx.violation(rule, sq, 'Sequence.__init__', 'a sequence with both or neither of count / until is accepted', sq.node.lineno, clause='g')
    op = repo.cls('Optional').methods.get('__init__')
    keep = {k: (sorted(v)[0] if len(v) == 1 else None) for k, v in ctor_stores(repo, repo.cls('Optional')).items()}
    if keep.get('prototype_field') == 'prototype':
        ctx.holds(rule, op, 'Optional.__init__: prototype_field = prototype', 'stored where unpack / pack read it', op.node.lineno, clause='g')
    else:
        ctx.violation(rule, op, 'Optional.__init__ stores %s' % keep, 'the element prototype is not kept', op.node.lineno, clause='g')


def check_late_binding(ctx, rule='C08-no-late-binding', clause='g'):
    """(g) a lambda / nested def created in a loop body that reads a variable the loop rebinds and
    that outlives the iteration (appended, stored, returned, handed to a constructor): every such
    closure sees the value of the last iteration.  A closure consumed on the spot (sort key, a
    direct call) is fine"""
    repo = ctx.repo
    n = 0
    IMMEDIATE = {'sorted', 'min', 'max', 'sum', 'any', 'all', 'next', 'list', 'tuple', 'set', 'dict', 'reduce', 'functools.reduce'}
    for fi in repo.functions.values():
        parents = {}
        for x in ast.walk(fi.node):
            for c in ast.iter_child_nodes(x):
                parents[id(c)] = x
        for lp in ast.walk(fi.node):
            if not isinstance(lp, (ast.For, ast.While)):
                continue
            loopvars = set()
            if isinstance(lp, ast.For):
                loopvars |= {x.id for x in ast.walk(lp.target) if isinstance(x, ast.Name)}
            for s in lp.body:
                for x in ast.walk(s):
                    if isinstance(x, ast.Assign):
                        for t in x.targets:
                            loopvars |= {y.id for y in ast.walk(t) if isinstance(y, ast.Name) and isinstance(y.ctx, ast.Store)}
            for s in lp.body:
                for x in ast.walk(s):
                    if not isinstance(x, (ast.Lambda, ast.FunctionDef)):
                        continue
                    n += 1
                    a = x.args
                    bound = {y.arg for y in a.args + a.kwonlyargs + a.posonlyargs}
                    if a.vararg: bound.add(a.vararg.arg)
                    if a.kwarg: bound.add(a.kwarg.arg)
                    body = x.body if isinstance(x.body, list) else [x.body]
                    assigned = {y.id for b_ in body for y in ast.walk(b_) if isinstance(y, ast.Name) and isinstance(y.ctx, ast.Store)}
                    used = {y.id for b_ in body for y in ast.walk(b_) if isinstance(y, ast.Name) and isinstance(y.ctx, ast.Load)}
                    late = (used & loopvars) - bound - assigned
                    if not late:
                        continue
                    # what happens to the closure?
                    if isinstance(x, ast.FunctionDef):
                        uses = [y for s2 in lp.body for y in ast.walk(s2) if isinstance(y, ast.Name) and y.id == x.name and isinstance(y.ctx, ast.Load)]
                        sites = [parents.get(id(y)) for y in uses]
                    else:
                        sites = [parents.get(id(x))]
                        uses = [x]
                    fate = set()
                    # a lambda bound to a local name: what happens to that name in the loop body
                    if isinstance(x, ast.Lambda) and isinstance(sites[0], ast.Assign) and len(sites[0].targets) == 1 and isinstance(sites[0].targets[0], ast.Name):
                        lname = sites[0].targets[0].id
                        uses = [y for s2 in lp.body for y in ast.walk(s2) if isinstance(y, ast.Name) and y.id == lname and isinstance(y.ctx, ast.Load)]
                        sites = [parents.get(id(y)) for y in uses]
                    for y, par in zip(uses, sites):
                        if isinstance(par, ast.Call) and par.func is not y and isinstance(par.func, ast.Name) and repo.module_funcs.get((fi.module, par.func.id)) is not None and y in par.args:
                            # handed to a function of the package: does it keep its parameter?
                            g = repo.module_funcs[(fi.module, par.func.id)]
                            gparams = [a_.arg for a_ in g.node.args.args]
                            idx = par.args.index(y)
                            if idx < len(gparams):
                                pn = gparams[idx]
                                captured = any(isinstance(z, (ast.Lambda, ast.FunctionDef)) and z is not g.node and any(isinstance(q, ast.Name) and q.id == pn for b_ in (z.body if isinstance(z.body, list) else [z.body]) for q in ast.walk(b_)) for z in ast.walk(g.node))
                                stored = any(isinstance(z, ast.Call) and ((isinstance(z.func, ast.Name) and z.func.id == 'setattr') or (isinstance(z.func, ast.Attribute) and z.func.attr in ('append', 'add', 'insert'))) and any(isinstance(q, ast.Name) and q.id == pn for q in z.args) for z in ast.walk(g.node))
                                if captured or stored:
                                    fate.add('kept')
                                    continue
                        if isinstance(par, ast.Call) and par.func is y:
                            fate.add('called')
                        elif isinstance(par, ast.Call) and isinstance(par.func, ast.Attribute) and par.func.attr in ('append', 'insert', 'add', 'extend', 'setdefault', 'update', 'appendleft'):
                            fate.add('kept')
                        elif isinstance(par, ast.Call) and (call_name(par) in IMMEDIATE or (isinstance(par.func, ast.Attribute) and par.func.attr == 'sort')):
                            fate.add('called')
                        elif isinstance(par, ast.keyword) and par.arg == 'key':
                            fate.add('called')
                        elif isinstance(par, (ast.Return, ast.Yield)):
                            fate.add('kept')
                        elif isinstance(par, ast.Assign) and any(isinstance(t, (ast.Attribute, ast.Subscript)) for t in par.targets):
                            fate.add('kept')
                        elif isinstance(par, (ast.List, ast.Tuple, ast.Dict)):
                            fate.add('kept')
                        else:
                            fate.add('unknown')
                    st = stmt_text(x)[:120]
                    if 'kept' in fate:
                        ctx.violation(rule, fi, st, 'a closure created in a loop reads %s, which the loop rebinds, and is kept beyond the iteration: every closure made by the loop sees the values of the last iteration' % sorted(late), x.lineno, clause=clause, witness=True)
                    elif fate == {'called'}:
                        ctx.holds(rule, fi, st, 'consumed within the iteration that made it', x.lineno, clause=clause)
                    else:
                        ctx.undecided(rule, fi, st, 'a closure created in a loop reads %s, which the loop rebinds: cannot see whether it outlives the iteration' % sorted(late), x.lineno, clause=clause)
    ctx.unit('closures_in_loops', n)
    if not any(o.rule == rule for o in ctx.obs):
        ctx.holds(rule, ('bisturi/', '*'), 'closures defined inside loops: %d' % n, 'none reads a loop variable late', 0, clause=clause)


def check_no_state_on_the_field(ctx):
    """Round 6.  (k) the unpack methods of the structural fields keep nothing on the field object:
    it is shared by every packet of the class, so a counter / list / flag stored there makes the
    result of a parse depend on earlier parses (a failed parse that does not undo its write, a
    nested parse of the same class that replaces the list being filled)"""
    repo = ctx.repo
    from ..effects import collect_writes
    from ..model import unpack_strategies
    from .c13 import R5_EXCEPTIONS, exception_still_justified
    rule = 'C08-no-state-on-the-field'
    n = 0
    seen = set()
    for ci, fi, s_ in unpack_strategies(repo):
        if ci.name not in ('Sequence', 'Optional', 'Ref') or fi.id in seen:
            continue
        seen.add(fi.id)
        try:
            writes, w, paths, roots = collect_writes(repo, fi, ctx.max_paths)
        except Undecided as e:
            ctx.undecided(rule, fi, fi.qual, str(e), fi.node.lineno, clause='k')
            continue
        bad = []
        for wr in writes:
            if wr['root'] == 'shared' and wr['detail'] == 'self':
                exc = R5_EXCEPTIONS.get((fi.cls.name if fi.cls is not None else '', wr['text']))
                if exc is not None and exception_still_justified(repo, fi, wr):
                    continue
                bad.append(wr)
        n += 1
        if bad:
            for wr in bad[:3]:
                ctx.violation(rule, fi, '%s: %s' % (wr['kind'], wr['text'][:100]), 'state kept on the field object while parsing: it is the same object for every packet of the class (and for a nested parse of the same class), so what a parse yields depends on the parses before it', wr['line'], clause='k', witness=True)
        else:
            ctx.holds(rule, fi, '%s writes nothing on the field object' % fi.qual, 'each parse starts from the declaration only', fi.node.lineno, clause='k')
    ctx.unit('stateless_unpackers', n)


def check_evaluation_context(ctx):
    """Round 5.  The count / condition / selector a structural field sees is the one computed for
    this parse by this class:
    (i) the evaluator of deferred expressions keeps nothing between evaluations (C09-d): a stack
        shared by all evaluations hands a later parse the operands of an earlier, failed one;
    (j) the generated drivers index the field table of the packet at hand (pkt.get_fields(), C03-b):
        a table kept in the generated module is shared by every same-named class, whose Sequence /
        Optional objects (counts, conditions) then serve the wrong class"""
    from .c09 import check_exec
    check_exec(ctx)
    # (i') ... and the compiler turns every operand of an expression into its run-time value: a named
    # field into the value the packet has for it, never into the Field object itself (C09-c)
    if ctx.prop == 'C08':
        from .c09 import check_compile_expr, namedtuple_fields
        try:
            check_compile_expr(ctx, namedtuple_fields(ctx.repo.modules['deferred']['tree']))
        except Undecided as e:
            ctx.undecided('R9-postfix', ('bisturi/deferred.py', 'compile_expr'), 'compile_expr', str(e), 0, clause='c')
    # Round 9 (supplement).  a selector written in any of its call forms -- chooses([..]), chooses({..}),
    # chooses(a, b), chooses(k1=a, k2=b) -- builds the same NaryExpr from what the caller wrote (C09 a'):
    # keyword names left as str no longer match a bytes-valued selector
    if ctx.prop == 'C08':
        from .c09 import check_nary_forms
        try:
            check_nary_forms(ctx)
        except Undecided as e:
            ctx.undecided('R9-nary-forms', ('bisturi/deferred.py', '_defer_method'), 'n-ary call forms', str(e), 0, clause='a')
    from .. import drivers as D
    from ..model import stmt_text
    for kind in ('pack', 'unpack'):
        t = [d for d in D.get_drivers(ctx.repo) if d.origin != 'generic' and d.kind == kind]
        ts = D.template_loop_shape(ctx, 'C08-field-table', ctx.repo, kind)
        if not t or ts is None:
            continue
        t = t[0]
        a = ts['assign']
        v = a.value
        ok = isinstance(v, ast.Subscript) and isinstance(v.value, ast.Name) and v.value.id == 'fields' and isinstance(v.slice, ast.Name) and v.slice.id == '__HOLE_field_index__'
        src = [s for s in t.pre if isinstance(s, ast.Assign) and isinstance(s.targets[0], ast.Name) and s.targets[0].id == 'fields']
        st = '%s loop block: %s with %s' % (kind, stmt_text(a), stmt_text(src[0]) if src else 'no table')
        if ok and src and canon(src[0].value, t.rename) == 'PKT.get_fields()':
            ctx.holds('C08-field-table', ts['template'].func, st, 'the table of the class of the packet at hand, read on every call', ts['template'].lineno, clause='j')
        elif ok and src and any(isinstance(x, ast.Name) and x.id.startswith('_') for x in ast.walk(src[0].value)):
            ctx.violation('C08-field-table', ts['template'].func, st, 'the field table comes from a name of the generated module: one module object serves every same-named class, so a class runs the Sequence / Optional / Ref objects of another', ts['template'].lineno, clause='j', witness=True)
        else:
            ctx.undecided('C08-field-table', ts['template'].func, st, 'cannot see that the block indexes pkt.get_fields() of the packet at hand', ts['template'].lineno, clause='j')


def check_truth_before_length(ctx, rule='C08-normalisers'):
    """Round 9 (supplement).  a field used as a condition is asked for its truth method before its
    length method: an Optional field answers to both, and the value of an absent optional is None
    -- ``truth(None)`` is False, ``len(None)`` raises.  In the function that turns a field into a
    boolean expression, the sequence of method names tried in order names the truth method
    (``__nonzero__`` / ``__bool__`` -- whichever the deferred operators install) before ``__len__``"""
    repo = ctx.repo
    fi = repo.module_funcs.get(('structural_fields', 'convert_a_field_raw_condition_into_a_boolean_unary_expression'))
    if fi is None:
        return
    # the name under which the truth operator is installed (deferred.py: truth -> 'nonzero')
    installed = set()
    dt = repo.modules.get('deferred')
    if dt is not None:
        for c in ast.walk(dt['tree']):
            if isinstance(c, ast.Constant) and c.value in ('nonzero', 'bool'):
                installed.add('__%s__' % c.value)
    for n in ast.walk(fi.node):
        if isinstance(n, (ast.Tuple, ast.List)) and n.elts and all(isinstance(x, ast.Constant) and isinstance(x.value, str) for x in n.elts):
            names = [x.value for x in n.elts]
            if '__len__' not in names:
                continue
            truth = [i for i, x in enumerate(names) if x in installed]
            st = 'truth methods tried in order: %s' % (names,)
            if not installed:
                ctx.undecided(rule, fi, st, 'cannot see under which name the truth operator is installed', n.lineno, clause='g')
            elif not truth:
                ctx.violation(rule, fi, st, 'the truth method the deferred operators install (%s) is not asked for at all' % sorted(installed), n.lineno, clause='g', witness=True)
            elif min(truth) > names.index('__len__'):
                ctx.violation(rule, fi, st, 'the length is asked for before the truth: an Optional field answers to both, and for an absent optional (value None) len(None) raises where truth(None) is False -- a field conditioned on an optional field no longer parses what it packed', n.lineno, clause='g', witness=True)
            else:
                ctx.holds(rule, fi, st, 'truth before length', n.lineno, clause='g')


def check(ctx):
    check_truth_before_length(ctx)
    repo = ctx.repo
    sq, op, rf = repo.cls('Sequence'), repo.cls('Optional'), repo.cls('Ref')
    for ci, names in ((sq, ('unpack', 'pack')), (op, ('unpack', 'pack'))):
        for n in names:
            if n not in ci.methods:
                raise Undecided('anchor %s.%s not found' % (ci.name, n))
    ctx.unit('functions', 10)
    check_sequence_unpack(ctx, sq)
    check_sequence_pack(ctx, sq)
    check_optional(ctx, op)
    check_ref(ctx, rf)
    check_normalisers(ctx)
    check_truth_conversion(ctx)
    check_modifier_plumbing(ctx)
    check_late_binding(ctx)
    check_evaluation_context(ctx)
    check_no_state_on_the_field(ctx)
    ctx.floor('obligations', len(ctx.obs), 20)
    ctx.trust(*ASSUMPTIONS)
