"""C09 -- deferred field expressions mean what the same Python expression means.

Rule family R9 (finite tables) + operand-order / stack-discipline consistency on deferred.py:

 (a) every operator in the category lists is installed under the special-method name Python
     uses for it (folded with the checker's own evaluator of the naming code: trailing '_'
     stripped, inv -> __invert__, truth -> __nonzero__, reflected -> __r<op>__); floors on the
     list sizes; reflected operators are a subset of the binary ones;
 (b) reflected methods are installed with swap_binary_arguments=True; the swap branch builds
     BinaryExpr(B, A, op), the plain branch BinaryExpr(A, B, op) (lambda parameter ->
     namedtuple field order from the namedtuple declarations);
 (c) compile_expr emits postfix: left, right, op(2); arg, op(1); left, values in order,
     collector(n), op(2); the tuple unpackings agree with the namedtuple field order; leaves
     are 0-ary (field lookup by name / literal);
 (d) stack discipline of exec_compiled_expr: push position, pop slice and operand order are
     mutually consistent (push-front + args[:n] + reversed, or push-back + args[-n:]
     unreversed); the same slice is deleted; leaf ops get (pkt, *vargs, **kargs); one value left;
 (e) collectors: lambda *v: v and dict(zip(keys, v)) with keys / values from one
     zip(*items());
 (f) if_true_then_else / chooses bodies;
 (g) no try on the evaluation path (exceptions propagate unchanged); the compiled callable
     copies the initial stack per call.
Value-level equality over all operand values follows from these plus Python's own operator
semantics and is not decided.

Round 4: compile_expr is decided per class of the root expression; the stack machine with either
end of the list as the top; the normalisers of C08 (the consumer gets the compiled callable).

Round 6: the operator installer is evaluated per call (installer_kinds) instead of reading flag
names; compile_expr written as a generator (yield / yield from) is the same postfix emission.
Round 7: operator methods handed back by the installer; the field / literal leaf told apart by
try: field.field_name except AttributeError; the program under any local name.
Round 8: the operator tables hold Python's own operators; the element of a repeated / optional
field is named before the expressions over it are compiled.
Round 9: a compiler picked from a (class, function) table at run time: no verdict.
"""
import ast
import copy

from .. import Undecided
from ..expr import canon, call_name, unparse
from ..model import stmt_text

EXPLANATION = __doc__
LEVEL_RULE = 'one obligation per operator of the three tables (folded name), per constructor branch, per compile_expr branch and per stack-discipline clause'
ASSUMPTIONS = [
    'operator.X.__name__ == "X" for the functions of the operator module; len.__name__ == "len"',
    'Python calls __<op>__ / __r<op>__ for the corresponding infix operator and falls back to the reflected method of the right operand',
    'fields are turned into truth values through __nonzero__ explicitly (structural_fields), not through Python truthiness',
]

# operator function name -> the special method Python (and this code base) use for it
DUNDER = {
    'add': '__add__', 'sub': '__sub__', 'mul': '__mul__', 'truediv': '__truediv__', 'floordiv': '__floordiv__',
    'mod': '__mod__', 'pow': '__pow__', 'le': '__le__', 'lt': '__lt__', 'ge': '__ge__', 'gt': '__gt__',
    'eq': '__eq__', 'ne': '__ne__', 'and_': '__and__', 'or_': '__or__', 'xor': '__xor__',
    'rshift': '__rshift__', 'lshift': '__lshift__', 'getitem': '__getitem__', 'matmul': '__matmul__',
    'neg': '__neg__', 'pos': '__pos__', 'inv': '__invert__', 'invert': '__invert__', 'truth': '__nonzero__',
    'len': '__len__', 'abs': '__abs__', 'contains': '__contains__',
}


INSTALLER = '_defer_method'


class Stop(Exception):
    pass


class NextIteration(Exception):
    pass


def mini(e, env):
    """tiny evaluator for the naming code (strings only)"""
    if isinstance(e, ast.Constant):
        return e.value
    if isinstance(e, ast.Name):
        if e.id in env:
            return env[e.id]
        raise Stop(e.id)
    if isinstance(e, ast.Attribute):
        k = canon(e)
        if k in env:
            return env[k]
        raise Stop(k)
    if isinstance(e, ast.Call) and isinstance(e.func, ast.Attribute) and e.func.attr in ('endswith', 'startswith', 'lower', 'upper', 'replace', 'strip', 'rstrip', 'lstrip'):
        v = mini(e.func.value, env)
        return getattr(v, e.func.attr)(*[mini(a, env) for a in e.args])
    if isinstance(e, ast.Subscript):
        v = mini(e.value, env)
        s = e.slice
        if isinstance(s, ast.Slice):
            f = lambda x: None if x is None else mini(x, env)
            return v[f(s.lower):f(s.upper):f(s.step)]
        return v[mini(s, env)]
    if isinstance(e, ast.UnaryOp) and isinstance(e.op, ast.USub):
        return -mini(e.operand, env)
    if isinstance(e, ast.UnaryOp) and isinstance(e.op, ast.Not):
        return not mini(e.operand, env)
    if isinstance(e, ast.BinOp) and isinstance(e.op, ast.Mod):
        return mini(e.left, env) % mini(e.right, env)
    if isinstance(e, ast.BinOp) and isinstance(e.op, ast.Add):
        return mini(e.left, env) + mini(e.right, env)
    if isinstance(e, ast.Compare) and len(e.ops) == 1:
        a, b = mini(e.left, env), mini(e.comparators[0], env)
        if isinstance(e.ops[0], ast.Eq): return a == b
        if isinstance(e.ops[0], ast.NotEq): return a != b
        if isinstance(e.ops[0], ast.In): return a in b
    if isinstance(e, ast.BoolOp):
        vals = [mini(v, env) for v in e.values]
        return all(vals) if isinstance(e.op, ast.And) else any(vals)
    if isinstance(e, ast.Tuple):
        return tuple(mini(x, env) for x in e.elts)
    if isinstance(e, ast.JoinedStr):
        return ''.join(str(mini(v.value, env)) if isinstance(v, ast.FormattedValue) else v.value for v in e.values)
    raise Stop(type(e).__name__)


def _module_consts(tree):
    """simple module-level constants: NAME = <literal> / tuple of literals and earlier constants /
    sum of such tuples"""
    out = {}

    def val(e):
        if isinstance(e, ast.Constant):
            return e
        if isinstance(e, ast.Name) and e.id in out:
            return out[e.id]
        if isinstance(e, (ast.Tuple, ast.List)):
            xs = [val(x) for x in e.elts]
            if all(x is not None for x in xs):
                return ast.Tuple(elts=xs, ctx=ast.Load())
        if isinstance(e, ast.BinOp) and isinstance(e.op, ast.Add):
            a, b = val(e.left), val(e.right)
            if isinstance(a, ast.Tuple) and isinstance(b, ast.Tuple):
                return ast.Tuple(elts=a.elts + b.elts, ctx=ast.Load())
        return None
    counts = {}
    for st in tree.body:
        if isinstance(st, ast.Assign) and len(st.targets) == 1 and isinstance(st.targets[0], ast.Name):
            counts[st.targets[0].id] = counts.get(st.targets[0].id, 0) + 1
    for st in tree.body:
        if isinstance(st, ast.Assign) and len(st.targets) == 1 and isinstance(st.targets[0], ast.Name) and counts[st.targets[0].id] == 1:
            v = val(st.value)
            if v is not None:
                out[st.targets[0].id] = v
    return out


def _const_fold(t):
    """truth of a test made of literals only"""
    for x in ast.walk(t):
        if not isinstance(x, (ast.Constant, ast.Tuple, ast.List, ast.Compare, ast.BoolOp, ast.UnaryOp, ast.Load, ast.cmpop, ast.boolop, ast.unaryop, ast.expr_context)):
            return None
    try:
        return bool(eval(compile(ast.fix_missing_locations(ast.Expression(body=copy.deepcopy(t))), '<fold>', 'eval'), {'__builtins__': {}}))
    except Exception:
        return None


def installer_kinds(repo, call):
    """what the installer does for this call: the set of constructor shapes ('binary', 'swapped',
    'unary', 'nary', 'other:<text>') its surviving paths install, decided by walking the installer
    with the call's (constant) arguments bound -- however the mode is encoded (flags, one constant)"""
    fi = repo.module_funcs.get(('deferred', INSTALLER))
    if fi is None:
        return None
    consts = _module_consts(repo.modules['deferred']['tree'])
    a = fi.node.args
    params = [x.arg for x in a.args]
    defaults = dict(zip(params[len(params) - len(a.defaults):], a.defaults))
    given = dict(zip(params, call.args))
    for k in call.keywords:
        if k.arg:
            given[k.arg] = k.value
    bind = {}
    for prm in params:
        v = given.get(prm, defaults.get(prm))
        if v is None:
            continue
        if isinstance(v, ast.Name) and v.id in consts:
            v = consts[v.id]
        if isinstance(v, (ast.Constant, ast.Tuple)):
            bind[prm] = copy.deepcopy(v)

    class T(ast.NodeTransformer):
        def visit_Name(self, n):
            if isinstance(n.ctx, ast.Load) and n.id in consts and n.id not in params:
                return copy.deepcopy(consts[n.id])
            return n
    body = T().visit(copy.deepcopy(fi.node))
    ast.fix_missing_locations(body)
    w = repo.walker(fold=_const_fold)
    kinds = set()
    nested = {n.name: n for n in ast.walk(fi.node) if isinstance(n, ast.FunctionDef) and n is not fi.node}
    try:
        paths = w.paths(body, bind=bind)
    except Undecided:
        return None
    for p in paths:
        if p.raises():
            continue
        for e in p.setattrs():
            v = e.value
            if isinstance(v, ast.Name) and v.id.startswith('<def ') and '@' in v.id and v.id[5:].split('@')[0] in nested:
                v = ast.Name(id=v.id[5:].split('@')[0], ctx=ast.Load())
            if isinstance(v, ast.Name) and v.id in nested:
                rets = [r for r in ast.walk(nested[v.id]) if isinstance(r, ast.Return) and isinstance(r.value, ast.Call)]
                kinds.add('nary' if any(call_name(r.value) == 'NaryExpr' for r in rets) else 'other:def %s' % v.id)
            elif isinstance(v, ast.Lambda):
                ps = [x.arg for x in v.args.args]
                b = v.body
                if isinstance(b, ast.Call) and call_name(b) == 'BinaryExpr' and len(b.args) == 3 and len(ps) == 2:
                    pair = (canon(b.args[0]), canon(b.args[1]))
                    kinds.add('binary' if pair == (ps[0], ps[1]) else 'swapped' if pair == (ps[1], ps[0]) else 'other:%s' % unparse(b))
                elif isinstance(b, ast.Call) and call_name(b) == 'UnaryExpr' and len(ps) == 1:
                    kinds.add('unary' if canon(b.args[0]) == ps[0] else 'other:%s' % unparse(b))
                else:
                    kinds.add('other:%s' % unparse(b)[:60])
            else:
                kinds.add('other:%s' % canon(v)[:60])
    return kinds


def run_body(stmts, env, calls):
    for s in stmts:
        if isinstance(s, ast.Assign) and len(s.targets) == 1 and isinstance(s.targets[0], ast.Name):
            env[s.targets[0].id] = mini(s.value, env)
        elif isinstance(s, ast.Assign) and len(s.targets) == 1 and isinstance(s.targets[0], ast.Tuple) and isinstance(s.value, ast.Tuple) \
                and len(s.targets[0].elts) == len(s.value.elts) and all(isinstance(t, ast.Name) for t in s.targets[0].elts):
            vals = [mini(v, env) for v in s.value.elts]
            for t, v in zip(s.targets[0].elts, vals):
                env[t.id] = v
        elif isinstance(s, ast.If):
            if mini(s.test, env):
                run_body(s.body, env, calls)
            else:
                run_body(s.orelse, env, calls)
        elif isinstance(s, ast.Expr) and isinstance(s.value, ast.Call) and call_name(s.value) == INSTALLER:
            c = s.value
            kw = {}
            for k in c.keywords:
                kw[k.arg] = k.value.value if isinstance(k.value, ast.Constant) else canon(k.value)
            name = mini(c.args[1], env) if len(c.args) > 1 else None
            opexpr = canon(c.args[2]) if len(c.args) > 2 else None
            # flags handed on through a local that holds a constant on this iteration
            if any(isinstance(a, ast.Name) and isinstance(env.get(a.id), bool) for a in list(c.args[3:]) + [k.value for k in c.keywords]):
                c = copy.deepcopy(c)
                c.args = c.args[:3] + [ast.Constant(value=env[a.id]) if isinstance(a, ast.Name) and isinstance(env.get(a.id), bool) else a for a in c.args[3:]]
                for k in c.keywords:
                    if isinstance(k.value, ast.Name) and isinstance(env.get(k.value.id), bool):
                        k.value = ast.Constant(value=env[k.value.id])
                        kw[k.arg] = k.value.value
            kw['<call>'] = c
            calls.append((name, opexpr, kw, s.lineno))
        elif isinstance(s, ast.Expr) and isinstance(s.value, ast.Call) and isinstance(s.value.func, ast.Name) and s.value.func.id == 'setattr' and len(s.value.args) == 3:
            # installing something under a special-method name without going through _defer_method
            c = s.value
            name = mini(c.args[1], env)
            v = c.args[2]
            if isinstance(v, ast.Call) and isinstance(v.func, ast.Name) and v.func.id == 'getattr' and len(v.args) >= 2:
                other = mini(v.args[1], env)
                calls.append((name, 'alias-of ' + str(other), {'alias': other}, s.lineno))
            else:
                calls.append((name, 'direct ' + canon(v)[:60], {'direct': True}, s.lineno))
        elif isinstance(s, ast.Continue):
            raise NextIteration()
        elif isinstance(s, ast.Expr) and isinstance(s.value, ast.Constant):
            continue
        else:
            raise Stop('statement %s' % type(s).__name__)


def table_entries(tree, name):
    """{category: [operator function names]} of a module-level dict of lists"""
    for n in tree.body:
        if isinstance(n, ast.Assign) and isinstance(n.targets[0], ast.Name) and n.targets[0].id == name and isinstance(n.value, ast.Dict):
            out = {}
            for k, v in zip(n.value.keys, n.value.values):
                if not (isinstance(k, ast.Constant) and isinstance(v, ast.List)):
                    return None
                names = []
                for e in v.elts:
                    if isinstance(e, ast.Attribute) and isinstance(e.value, ast.Name) and e.value.id == 'operator':
                        names.append(e.attr)
                    elif isinstance(e, ast.Name):
                        names.append(e.id)
                    else:
                        return None
                out[k.value] = names
            return out, n.lineno
    return None


def check_tables(ctx):
    repo = ctx.repo
    tree = repo.modules['deferred']['tree']
    where = ('bisturi/deferred.py', '<module>')
    rule = 'R9-operator-dunders'
    tabs = {}
    for nm in ('BinaryOperationsByCategory', 'BinaryReverseOperationsByCategory', 'UnaryOperationsByCategory'):
        t = table_entries(tree, nm)
        if t is None:
            ctx.undecided(rule, where, nm, 'operator table not found / not a dict of lists of operator functions', 0, clause='a')
            return
        tabs[nm] = t
    # Round 8: an entry of the tables is Python's own operator function (operator.<op>, len): a
    # function of the module under the operator's name computes something else for some operand
    local_defs = {n_.name: n_ for n_ in tree.body if isinstance(n_, ast.FunctionDef)}
    for n_ in tree.body:
        if isinstance(n_, ast.Assign) and isinstance(n_.targets[0], ast.Name) and n_.targets[0].id in tabs and isinstance(n_.value, ast.Dict):
            for v_ in n_.value.values:
                for e_ in (v_.elts if isinstance(v_, ast.List) else []):
                    if isinstance(e_, ast.Name) and e_.id in local_defs:
                        d_ = local_defs[e_.id]
                        body_ = [b for b in d_.body if not (isinstance(b, ast.Expr) and isinstance(b.value, ast.Constant))]
                        plain = len(body_) == 1 and isinstance(body_[0], ast.Return) and isinstance(body_[0].value, ast.Call) and canon(body_[0].value.func) == 'operator.%s' % e_.id.rstrip('_') \
                            and [canon(a_) for a_ in body_[0].value.args] == [a_.arg for a_ in d_.args.args]
                        if plain:
                            ctx.holds(rule, where, '%s: %s' % (n_.targets[0].id, e_.id), 'a plain wrapper of operator.%s' % e_.id, e_.lineno, clause='a')
                        else:
                            ctx.violation(rule, where, '%s: %s' % (n_.targets[0].id, e_.id), 'the deferred operator is computed by deferred.%s, a function of the module, not by Python\'s operator.%s: for some operand (a bool, a subclass...) the deferred expression has another value than the same expression written eagerly' % (e_.id, e_.id.rstrip('_')), e_.lineno, clause='a', witness=True)
    fi = None
    # the function whose own body holds the loops over the three tables (wherever a helper
    # expansion may have copied them, the loops are statements of its body)
    cands = [f for f in repo.functions.values() if f.module == 'deferred' and all(t in unparse(f.node) for t in tabs)]
    cands.sort(key=lambda f: (-sum(1 for n_ in f.node.body if isinstance(n_, ast.For)), f.node.lineno))
    if cands and any(isinstance(n_, ast.For) for n_ in cands[0].node.body):
        fi = cands[0]
    if fi is None:
        raise Undecided('cannot find the function of deferred.py that installs the three operator tables')
    global INSTALLER
    INSTALLER = [c.func.id for n_ in ast.walk(fi.node) if isinstance(n_, ast.For) for c in ast.walk(n_) if isinstance(c, ast.Call) and isinstance(c.func, ast.Name) and any(k.arg == 'is_binary' for k in c.keywords)]
    INSTALLER = INSTALLER[0] if INSTALLER else '_defer_method'
    ctx.unit('functions')
    loops = [n for n in fi.node.body if isinstance(n, ast.For)]
    # which loop handles which table: by the iterable name -> defined from which table
    src_of = {}
    for n in ast.walk(fi.node):
        if isinstance(n, ast.Assign) and isinstance(n.targets[0], ast.Name):
            for tn in tabs:
                if tn + '[' in unparse(n.value):
                    src_of[n.targets[0].id] = tn
    # module-level lists of operator functions (usable in 'x in LIST' tests of the naming code)
    module_lists = {}
    for n in tree.body:
        if isinstance(n, ast.Assign) and isinstance(n.targets[0], ast.Name) and isinstance(n.value, (ast.List, ast.Tuple, ast.Set)):
            vals = []
            for e in n.value.elts:
                if isinstance(e, ast.Attribute) and isinstance(e.value, ast.Name) and e.value.id == 'operator':
                    vals.append('operator.' + e.attr)
                elif isinstance(e, ast.Name):
                    vals.append('operator.' + e.id if e.id in ('len',) else e.id)
                elif isinstance(e, ast.Constant):
                    vals.append(e.value)
            module_lists[n.targets[0].id] = vals
    nops = 0
    for lp in loops:
        if not (isinstance(lp.iter, ast.Name) and lp.iter.id in src_of and isinstance(lp.target, ast.Name)):
            ctx.undecided(rule, fi, stmt_text(lp)[:80], 'cannot tell which operator table this loop installs', lp.lineno, clause='a')
            continue
        tn = src_of[lp.iter.id]
        entries, tline = tabs[tn]
        reflected = 'Reverse' in tn
        unary = 'Unary' in tn
        for cat, names in entries.items():
            for opn in names:
                nops += 1
                env = {lp.target.id + '.__name__': opn, lp.target.id: 'operator.' + opn}
                env.update(module_lists)
                calls = []
                try:
                    try:
                        run_body(lp.body, env, calls)
                    except NextIteration:
                        pass
                except Stop as s:
                    ctx.undecided(rule, fi, '%s[%s] %s' % (tn, cat, opn), 'cannot fold the naming code (%s)' % s, lp.lineno, clause='a')
                    continue
                st = '%s[%r]: operator.%s' % (tn, cat, opn)
                if len(calls) != 1:
                    ctx.violation(rule, fi, st, 'the operator is installed %d times' % len(calls), lp.lineno, clause='a')
                    continue
                name, opexpr, kw, line = calls[0]
                if kw.get('alias') is not None or kw.get('direct'):
                    base = DUNDER.get(opn)
                    want = ('__r' + base[2:]) if (reflected and base) else base
                    if reflected:
                        ctx.violation('R9-reflected-swap', fi, '%s installed as %s = %s' % (st, name, opexpr), 'the reflected method is an alias of another method instead of a swapped BinaryExpr: for const <op> field the operands are evaluated in the wrong order (visible for non-commutative operand types such as lists and bytes)', line, clause='b')
                    else:
                        ctx.violation(rule, fi, '%s installed as %s = %s' % (st, name, opexpr), 'the operator is not installed through the deferred-expression constructor', line, clause='a')
                    continue
                base = DUNDER.get(opn)
                if base is None:
                    ctx.undecided(rule, fi, st, 'operator %s is not in the checker\'s special-method table' % opn, line, clause='a')
                    continue
                want = ('__r' + base[2:]) if reflected else base
                ok = True
                if name != want:
                    ok = ctx.violation(rule, fi, '%s installed as %s' % (st, name), 'Python looks this operator up as %s' % want, line, clause='a')
                if opexpr != lp.target.id and not (opexpr in env and env.get(opexpr) == env.get(lp.target.id)):
                    ok = ctx.violation(rule, fi, '%s bound to %s' % (st, opexpr), 'the method must be bound to the operator it is named after', line, clause='a')
                kinds = installer_kinds(repo, kw['<call>']) if '<call>' in kw else None
                shown = sorted(kinds) if kinds is not None else None
                if not kinds or len(kinds) != 1:
                    ok = ctx.undecided(rule, fi, '%s -> %s' % (st, shown), 'cannot tell which constructor the installer builds for this call', line, clause='a')
                    continue
                kind = next(iter(kinds))
                if unary:
                    if kind != 'unary':
                        ok = ctx.violation(rule, fi, '%s builds %s' % (st, kind), 'a unary operator must build a UnaryExpr', line, clause='a', witness=True)
                else:
                    if kind not in ('binary', 'swapped'):
                        ok = ctx.violation(rule, fi, '%s builds %s' % (st, kind), 'a binary operator must build a BinaryExpr', line, clause='a', witness=True)
                    elif reflected and kind != 'swapped':
                        ok = ctx.violation('R9-reflected-swap', fi, '%s builds BinaryExpr(A, B, op)' % st, 'a reflected method receives (right operand, left operand): the operands must be swapped back', line, clause='b', witness=True)
                    elif not reflected and kind == 'swapped':
                        ok = ctx.violation('R9-reflected-swap', fi, '%s builds BinaryExpr(B, A, op)' % st, 'a plain binary method must not swap its operands', line, clause='b', witness=True)
                if ok:
                    ctx.holds(rule, fi, '%s -> %s%s' % (st, name, ' (operands swapped back)' if reflected else ''), 'Python special-method name', line, clause='a')
    ctx.unit('operators', nops)
    b, r, u = tabs['BinaryOperationsByCategory'][0], tabs['BinaryReverseOperationsByCategory'][0], tabs['UnaryOperationsByCategory'][0]
    ctx.floor('binary integer operators', len(b.get('integer', [])), 18)
    ctx.floor('binary sequence operators', len(b.get('sequence', [])), 3)
    ctx.floor('reflected integer operators', len(r.get('integer', [])), 12)
    ctx.floor('unary operators', len(u.get('integer', [])) + len(u.get('sequence', [])), 4)
    REQUIRED = {
        ('binary', 'integer'): ['add', 'sub', 'mul', 'truediv', 'floordiv', 'mod', 'pow', 'le', 'lt', 'ge', 'gt', 'eq', 'ne', 'and_', 'or_', 'xor', 'rshift', 'lshift'],
        ('binary', 'sequence'): ['eq', 'ne', 'getitem'],
        ('reflected', 'integer'): ['add', 'sub', 'mul', 'truediv', 'floordiv', 'mod', 'pow', 'and_', 'or_', 'xor', 'rshift', 'lshift'],
        ('unary', 'integer'): ['neg', 'inv', 'truth'],
        ('unary', 'sequence'): ['len'],
    }
    have = {'binary': b, 'reflected': r, 'unary': u}
    for (kind, cat), ops in REQUIRED.items():
        missing = [o for o in ops if o not in have[kind].get(cat, [])]
        tline = tabs[{'binary': 'BinaryOperationsByCategory', 'reflected': 'BinaryReverseOperationsByCategory', 'unary': 'UnaryOperationsByCategory'}[kind]][1]
        if missing:
            ctx.violation(rule, where, '%s %s operators: missing %s' % (kind, cat, missing), 'the expression language of the statement includes these operators%s: the Python expression raises TypeError instead of being deferred' % (' in both operand orders' if kind == 'reflected' else ''), tline, clause='a')
        else:
            ctx.holds(rule, where, '%s %s operators cover %s' % (kind, cat, ops), 'the supported operator set', tline, clause='a')
    for cat in r:
        extra = [o for o in r[cat] if o not in b.get(cat, [])]
        if extra:
            ctx.violation(rule, where, 'reflected %s operators %s' % (cat, extra), 'a reflected operator has no plain counterpart', tabs['BinaryReverseOperationsByCategory'][1], clause='a')
    # if_true_then_else / chooses installed as nary with their own functions
    src = unparse(fi.node)
    for nm in ('if_true_then_else', 'chooses'):
        if "%s(cls, '%s', %s, is_binary=False, is_nary=True)" % (INSTALLER, nm, nm) in src:
            ctx.holds(rule, fi, "%s installed as n-ary selector bound to %s()" % (nm, nm), 'named method, own function', fi.node.lineno, clause='a')
        else:
            # a call that names the selector but binds another function / another arity is a witness
            wrong = right = None
            for c in ast.walk(fi.node):
                if isinstance(c, ast.Call) and canon(c.func) == INSTALLER and len(c.args) >= 3 and isinstance(c.args[1], ast.Constant) and c.args[1].value == nm:
                    kw = {k.arg: k.value for k in c.keywords if k.arg}
                    flags_ok = installer_kinds(repo, c) == {'nary'}
                    if canon(c.args[2]) != nm or not flags_ok:
                        wrong = c
                    else:
                        right = c
            if right is not None and wrong is None:
                ctx.holds(rule, fi, "%s installed as n-ary selector bound to %s()" % (nm, nm), 'named method, own function; the installer builds NaryExpr for this call', right.lineno, clause='a')
            elif wrong is not None:
                ctx.violation(rule, fi, stmt_text(wrong)[:120], 'the %s selector is not installed as an n-ary method bound to its own function' % nm, wrong.lineno, clause='a', witness=True)
            else:
                ctx.undecided(rule, fi, nm, 'cannot see how the %s selector is installed (not the call %s(cls, %r, %s, is_binary=False, is_nary=True))' % (nm, INSTALLER, nm, nm), fi.node.lineno, clause='a')
    return tabs


def namedtuple_fields(tree):
    out = {}
    for n in tree.body:
        if isinstance(n, ast.Assign) and isinstance(n.value, ast.Call) and call_name(n.value) in ('collections.namedtuple', 'namedtuple') and len(n.value.args) == 2:
            flds = n.value.args[1]
            if isinstance(flds, (ast.List, ast.Tuple)) and all(isinstance(x, ast.Constant) for x in flds.elts):
                out[n.targets[0].id] = [x.value for x in flds.elts]
    return out


def check_constructors(ctx, nts):
    repo = ctx.repo
    rule = 'R9-reflected-swap'
    fi = repo.module_funcs.get(('deferred', INSTALLER))
    if fi is None:
        raise Undecided('anchor deferred.%s not found' % INSTALLER)
    ctx.unit('functions')
    want_nt = {'BinaryExpr': ['left', 'right', 'op'], 'UnaryExpr': ['arg', 'op'], 'NaryExpr': ['left', 'arglist', 'argmapping', 'op']}
    for k, v in want_nt.items():
        if nts.get(k) == v:
            ctx.holds(rule, ('bisturi/deferred.py', '<module>'), '%s = namedtuple(%s)' % (k, v), 'field order the compiler relies on', 0, clause='b')
        else:
            ctx.violation(rule, ('bisturi/deferred.py', '<module>'), '%s = namedtuple(%s)' % (k, nts.get(k)), 'expected fields %s' % v, 0, clause='b')
    w = repo.walker()
    seen = set()
    for p in w.paths(fi.node):
        gt = set(p.guard_texts())
        made = list(p.setattrs())
        if not made and p.returns() and isinstance(p.ret(), ast.Lambda):
            # the method is handed back to the caller, which installs it under the name
            import types
            made = [types.SimpleNamespace(value=p.ret(), lineno=getattr(p.ret(), 'lineno', fi.node.lineno))]
        for e in made:
            v = e.value
            if not isinstance(v, ast.Lambda):
                continue
            params = [a.arg for a in v.args.args]
            body = v.body
            builds_binary = isinstance(body, ast.Call) and call_name(body) == 'BinaryExpr'
            builds_unary = isinstance(body, ast.Call) and call_name(body) == 'UnaryExpr'
            flags = 'is_binary' in gt or 'not is_binary' in gt
            if not flags and (builds_binary or builds_unary):
                # the mode is not told by the two flags: the call sites decide which lambda a table
                # gets (installer_kinds in check_tables); here only the shapes are judged
                if builds_binary:
                    a0, a1 = (canon(body.args[0]), canon(body.args[1])) if len(body.args) == 3 else (None, None)
                    swap = (a0, a1) == (params[1], params[0]) if len(params) == 2 else False
                    st = '%s branch: lambda %s: %s' % ('swap' if swap else 'plain', ', '.join(params), unparse(body))
                    if st not in seen:
                        seen.add(st)
                        if len(params) == 2 and len(body.args) == 3 and {a0, a1} == set(params) and canon(body.args[2]) == 'op':
                            ctx.holds(rule, fi, st, 'left / right operands are the two parameters; which table gets which order is decided at the call sites', e.lineno, clause='b')
                        else:
                            ctx.violation(rule, fi, st, 'a binary method must build BinaryExpr(A, B, op) or BinaryExpr(B, A, op)', e.lineno, clause='b')
                else:
                    st = 'unary branch: lambda %s: %s' % (', '.join(params), unparse(body))
                    if st not in seen:
                        seen.add(st)
                        if [canon(x) for x in body.args] == [params[0], 'op']:
                            ctx.holds(rule, fi, st, 'UnaryExpr(operand, op)', e.lineno, clause='b')
                        else:
                            ctx.violation(rule, fi, st, 'expected UnaryExpr(A, op)', e.lineno, clause='b')
                continue
            if 'is_binary' in gt:
                swap = 'swap_binary_arguments' in gt
                st = '%s branch: lambda %s: %s' % ('swap' if swap else 'plain', ', '.join(params), unparse(body))
                if st in seen:
                    continue
                seen.add(st)
                ok = isinstance(body, ast.Call) and call_name(body) == 'BinaryExpr' and len(body.args) == 3 and len(params) == 2
                if ok:
                    a0, a1, a2 = [canon(x) for x in body.args]
                    want = (params[1], params[0]) if swap else (params[0], params[1])
                    ok = (a0, a1) == want and a2 == 'op'
                if ok:
                    ctx.holds(rule, fi, st, 'left / right operands in Python\'s order', e.lineno, clause='b')
                else:
                    ctx.violation(rule, fi, st, 'the %s method must build BinaryExpr(%s, op)' % ('reflected' if swap else 'plain', 'B, A' if swap else 'A, B'), e.lineno, clause='b')
            elif 'not is_binary' in gt and 'not is_nary' in gt:
                st = 'unary branch: lambda %s: %s' % (', '.join(params), unparse(body))
                if st in seen:
                    continue
                seen.add(st)
                if isinstance(body, ast.Call) and call_name(body) == 'UnaryExpr' and [canon(x) for x in body.args] == [params[0], 'op']:
                    ctx.holds(rule, fi, st, 'UnaryExpr(operand, op)', e.lineno, clause='b')
                else:
                    ctx.violation(rule, fi, st, 'expected UnaryExpr(A, op)', e.lineno, clause='b')
    if len(seen) < 3:
        ctx.violation(rule, fi, '_defer_method branches %s' % sorted(seen), 'expected the plain, swapped and unary constructor branches', fi.node.lineno, clause='b')
    # nary: returns NaryExpr(A, B, C, op)
    nary = None
    for f_ in repo.functions.values():
        if f_.module == 'deferred' and f_.qual.startswith(INSTALLER + '.') and f_.qual.count('.') == 1 and any(isinstance(r_, ast.Return) and isinstance(r_.value, ast.Call) and call_name(r_.value) == 'NaryExpr' for r_ in ast.walk(f_.node)):
            nary = f_
    if nary is None:
        ctx.undecided(rule, fi, 'nary', 'nested nary constructor not found', fi.node.lineno)
    else:
        rets = [r for r in ast.walk(nary.node) if isinstance(r, ast.Return) and isinstance(r.value, ast.Call) and call_name(r.value) == 'NaryExpr']
        p = [a.arg for a in nary.node.args.args] + [nary.node.args.vararg.arg if nary.node.args.vararg else None, nary.node.args.kwarg.arg if nary.node.args.kwarg else None]
        if len(rets) == 1 and [canon(x) for x in rets[0].value.args] == [p[0], p[1], p[2], 'op']:
            ctx.holds(rule, nary, 'nary: NaryExpr(A, B, C, op)', 'subject, positional options, keyword options, operator', nary.node.lineno, clause='b')
        else:
            ctx.violation(rule, nary, 'nary returns %s' % [unparse(r.value) for r in rets], 'expected NaryExpr(A, B, C, op)', nary.node.lineno, clause='b')


def check_nary_forms(ctx):
    """the four ways to call an n-ary selector end in NaryExpr(A, positional options, keyword
    options, op): a single list / tuple -> positional; a single dict -> mapping; several
    positional arguments -> positional; keyword arguments -> mapping with ascii-encoded keys;
    both or neither -> rejected"""
    repo = ctx.repo
    rule = 'R9-nary-forms'
    nary = None
    for f_ in repo.functions.values():
        if f_.module == 'deferred' and f_.qual.startswith(INSTALLER + '.') and f_.qual.count('.') == 1 and any(
                isinstance(r_, ast.Return) and isinstance(r_.value, ast.Call) and call_name(r_.value) == 'NaryExpr' for r_ in ast.walk(f_.node)):
            nary = f_
    if nary is None:
        # run on its own (included by another property): the installer is recognised by content
        cands_ = [f_ for f_ in repo.functions.values() if f_.module == 'deferred' and f_.qual.count('.') == 1 and any(
            isinstance(r_, ast.Return) and isinstance(r_.value, ast.Call) and call_name(r_.value) == 'NaryExpr' for r_ in ast.walk(f_.node))]
        if len(cands_) == 1:
            nary = cands_[0]
    if nary is None:
        ctx.undecided(rule, ('bisturi/deferred.py', INSTALLER), 'n-ary constructor', 'not found')
        return
    a = nary.node.args
    A = a.args[0].arg
    B = a.vararg.arg if a.vararg else None
    Cn = a.kwarg.arg if a.kwarg else None
    if B is None or Cn is None:
        ctx.violation(rule, nary, 'nary(%s)' % unparse(a), 'the selector must accept (subject, *positional options, **keyword options)', nary.node.lineno)
        return
    w = repo.walker(max_paths=ctx.max_paths)
    seen = {}
    from ..expr import conj, negate
    import re as _re

    def norm(t):
        # locals of an expanded helper carry a numeric suffix (B__1): the same variables
        return _re.sub(r'\b(\w+?)__\d+\b', r'\1', t)
    for p in w.paths(nary.node):
        gt = set()
        for g_, pol_ in p.guards:
            for c_ in conj(g_ if pol_ else negate(g_)):
                gt.add(norm(canon(c_)))
        r = p.ret()
        if p.raises() or r is None or call_name(r) != 'NaryExpr':
            continue
        args = [norm(canon(x)) for x in r.args]
        single = ('(len(%s) + -1 == 0)' % B) in gt or ('(len(%s) == 1)' % B) in gt
        if ('not %s' % Cn) in gt and single and ('isinstance(%s[0], dict)' % B) in gt:
            seen['dict'] = args == [A, '[]', '%s[0]' % B, 'op']
        elif ('not %s' % Cn) in gt and single and ('isinstance(%s[0], (list, tuple,))' % B) in gt:
            seen['list'] = args == [A, '%s[0]' % B, '{}', 'op']
        elif Cn in gt:
            seen['keyword'] = args[0] == A and args[1] == B and args[3] == 'op' and 'ascii' in args[2] and ('%s.items()' % Cn) in args[2]
        elif ('not %s' % Cn) in gt and not single:
            seen['positional'] = args == [A, B, Cn, 'op']
    want = ('dict', 'list', 'keyword', 'positional')
    bad = [k for k in want if seen.get(k) is not True]
    if not bad:
        ctx.holds(rule, nary, 'nary forms: single dict -> mapping, single list/tuple -> positional, *args -> positional, **kwargs -> mapping (ascii keys)', 'all four call forms build NaryExpr(subject, options, mapping, op)', nary.node.lineno)
    else:
        ctx.violation(rule, nary, 'nary forms %s' % {k: seen.get(k) for k in want}, 'the call form(s) %s do not build NaryExpr(subject, positional options, keyword options, op) from what the caller wrote' % bad, nary.node.lineno)
    # both / neither rejected: asserts at entry and exit
    asserts = [norm(canon(n.test)) for n in ast.walk(nary.node) if isinstance(n, ast.Assert)]
    if any(t == '(%s or %s)' % (B, Cn) for t in asserts) and any(t in ('(not %s or not %s)' % (B, Cn), 'not (%s and %s)' % (B, Cn)) for t in asserts):
        ctx.holds(rule, nary, 'assert B or C; assert not (B and C)', 'exactly one of positional / keyword options', nary.node.lineno)
    else:
        ctx.violation(rule, nary, 'asserts %s' % asserts, 'a selector called with no options, or with both positional and keyword options, must be rejected', nary.node.lineno)


def check_compile_expr(ctx, nts):
    repo = ctx.repo
    rule = 'R9-postfix'
    fi = repo.module_funcs.get(('deferred', 'compile_expr'))
    if fi is None:
        raise Undecided('anchor deferred.compile_expr not found')
    ctx.unit('functions')
    # the compiler written as a generator: compile_expr only appends what G(root_expr, level) yields,
    # G yields the emissions (arity, operation, ...) and delegates to itself with ``yield from``
    COMPILERS = {'compile_expr'}
    drv = [n for n in fi.node.body if isinstance(n, ast.For)]
    if len(drv) == 1 and isinstance(drv[0].iter, ast.Call) and isinstance(drv[0].iter.func, ast.Name) and drv[0].iter.args and canon(drv[0].iter.args[0]) == fi.node.args.args[0].arg:
        g = repo.module_funcs.get(('deferred', drv[0].iter.func.id))
        appends = [c for c in ast.walk(drv[0]) if isinstance(c, ast.Call) and isinstance(c.func, ast.Attribute) and c.func.attr == 'append']
        tnames = [x.id for x in ast.walk(drv[0].target) if isinstance(x, ast.Name)]
        if g is not None and any(isinstance(y, (ast.Yield, ast.YieldFrom)) for y in ast.walk(g.node)) and len(appends) == 1 \
                and [canon(a) for a in appends[0].args][:2] == tnames[:2] and not any(isinstance(x, (ast.If, ast.Continue, ast.Break)) for x in ast.walk(drv[0])):
            ctx.holds(rule, fi, 'compile_expr: for (arity, op, ...) in %s(root, level): ops.append(arity, op, ...)' % g.node.name, 'appends every emission of the generator, in order', fi.node.lineno, clause='c')
            COMPILERS.add(g.node.name)
            fi = g
    R = fi.node.args.args[0].arg
    kinds = set()
    # Round 9.  the branch taken through a callable picked at run time (a table of
    # (class, function) walked by a loop): the cases are not the branches of this function
    local_ = {x.id for x in ast.walk(fi.node) if isinstance(x, ast.Name) and isinstance(x.ctx, ast.Store)}
    lams = {t.id for a in ast.walk(fi.node) if isinstance(a, ast.Assign) and isinstance(a.value, ast.Lambda) for t in a.targets if isinstance(t, ast.Name)}
    picked = [c for c in ast.walk(fi.node) if isinstance(c, ast.Call) and isinstance(c.func, ast.Name) and c.func.id in local_ - lams and canon(c.args[0] if c.args else c) == R]
    if picked:
        ctx.undecided(rule, fi, 'compile_expr: %s' % canon(picked[0])[:80], 'the compiler of each kind of expression is a callable chosen at run time: cannot tell which code compiles which kind', picked[0].lineno, clause='c')
        return

    # one walk per class of the root expression: the tests on its class are decided by the case,
    # and a namedtuple expression is the tuple of its fields (so it can be unpacked, sliced,
    # iterated, read by field name -- however the branch is written)
    def case_paths(K):
        fields = nts.get(K)
        node = fi.node
        bind = None
        if fields is not None:
            tup = ast.Tuple(elts=[ast.Subscript(value=ast.Name(id=R, ctx=ast.Load()), slice=ast.Constant(value=i), ctx=ast.Load()) for i in range(len(fields))], ctx=ast.Load())
            bind = {R: tup}

            class _F(ast.NodeTransformer):
                def visit_Attribute(self, n):
                    self.generic_visit(n)
                    if isinstance(n.value, ast.Name) and n.value.id == R and n.attr in fields and isinstance(n.ctx, ast.Load):
                        return ast.copy_location(ast.Subscript(value=n.value, slice=ast.Constant(value=fields.index(n.attr)), ctx=ast.Load()), n)
                    return n
            node = _F().visit(copy.deepcopy(fi.node))
            ast.fix_missing_locations(node)
        me = canon(bind[R]) if bind else R

        def fold(t):
            if isinstance(t, ast.UnaryOp) and isinstance(t.op, ast.Not):
                r_ = fold(t.operand)
                return None if r_ is None else not r_
            if isinstance(t, ast.Call) and isinstance(t.func, ast.Name) and t.func.id == 'isinstance' and len(t.args) == 2 and canon(t.args[0]) in (me, R):
                cl = t.args[1]
                names = [canon(x) for x in (cl.elts if isinstance(cl, ast.Tuple) else [cl])]
                known = set(nts) | {'Field'}
                if K in names:
                    return True
                if all(x in known for x in names):
                    return False
            return None
        return repo.walker(max_paths=ctx.max_paths, fold=fold).paths(node, bind=bind)

    def arity(node):
        """the arity argument of an emission: a number, or the text of what it counts"""
        if isinstance(node, ast.Constant):
            return str(node.value)
        if isinstance(node, ast.Call) and isinstance(node.func, ast.Name) and node.func.id == 'len' and len(node.args) == 1 \
                and isinstance(node.args[0], (ast.Tuple, ast.List)) and not any(isinstance(x, ast.Starred) for x in node.args[0].elts):
            return str(len(node.args[0].elts))
        return canon(node)

    def calls_of(p):
        out = []
        for e in p.all_effects():
            if e.kind == 'call' and call_name(e.call) in COMPILERS and e.call.args:
                out.append(('compile', canon(e.call.args[0]), e))
            elif e.kind == 'yield' and isinstance(getattr(e.node, 'value', None), ast.Yield) and isinstance(e.value, ast.Tuple) and len(e.value.elts) >= 2:
                out.append(('emit', (arity(e.value.elts[0]), e.value.elts[1]), e))
            elif e.kind == 'call' and isinstance(e.call.func, ast.Attribute) and e.call.func.attr == 'append' and canon(e.call.func.value).startswith(('ops', 'Operations()', '(ops')) or \
                    (e.kind == 'call' and isinstance(e.call.func, ast.Attribute) and e.call.func.attr == 'append' and len(e.call.args) >= 3):
                out.append(('emit', (arity(e.call.args[0]), e.call.args[1]), e))
        return out

    npaths = 0
    for K in ['BinaryExpr', 'UnaryExpr', 'NaryExpr', 'Field', '<literal>']:
        if K in ('BinaryExpr', 'UnaryExpr', 'NaryExpr') and K not in nts:
            raise Undecided('namedtuple %s not found in deferred.py' % K)
        paths = case_paths(K)
        npaths += len(paths)
        for p in paths:
            if p.raises():
                continue
            gt = set(p.guard_texts())
            cs = calls_of(p)
            top = [c for c in cs if c[2] in p.effects]
            if K == 'BinaryExpr':
                kinds.add('binary')
                seq = [(k, v if k == 'compile' else v[0]) for k, v, _ in top]
                want = [('compile', '%s[0]' % R), ('compile', '%s[1]' % R), ('emit', '2')]
                opx = [v[1] for k, v, _ in top if k == 'emit']
                if seq == want and opx and canon(opx[0]) == '%s[2]' % R and len(cs) == len(top):
                    ctx.holds(rule, fi, 'BinaryExpr: compile(left); compile(right); emit(2, op)', 'postfix, operands in namedtuple order (left, right, op)', fi.node.lineno, clause='c')
                else:
                    ctx.violation(rule, fi, 'BinaryExpr: %s' % seq, 'expected compile(left), compile(right), emit(2, op)', fi.node.lineno, clause='c')
            elif K == 'UnaryExpr':
                kinds.add('unary')
                seq = [(k, v if k == 'compile' else v[0]) for k, v, _ in top]
                opx = [v[1] for k, v, _ in top if k == 'emit']
                if seq == [('compile', '%s[0]' % R), ('emit', '1')] and canon(opx[0]) == '%s[1]' % R and len(cs) == len(top):
                    ctx.holds(rule, fi, 'UnaryExpr: compile(arg); emit(1, op)', 'postfix', fi.node.lineno, clause='c')
                else:
                    ctx.violation(rule, fi, 'UnaryExpr: %s' % seq, 'expected compile(arg), emit(1, op)', fi.node.lineno, clause='c')
            elif K == 'NaryExpr':
                which = 'list' if ('%s[1]' % R) in gt else 'mapping'
                kinds.add('nary-' + which)
                seq = [(k, v if k == 'compile' else v[0]) for k, v, _ in top]
                loops = [e for e in p.effects if e.kind == 'loop']
                ok = len(seq) == 3 and seq[0] == ('compile', '%s[0]' % R) and seq[1][0] == 'emit' and seq[2] == ('emit', '2') and len(loops) == 1
                emits = [(v, e) for k, v, e in top if k == 'emit']
                if ok:
                    lp = loops[0]
                    it = canon(lp.sub['iter'])
                    inner = [c for bp in lp.sub['body'] for c in bp.effects if c.kind == 'call' and call_name(c.call) in COMPILERS]
                    item = '<item of %d>' % lp.sub['phi']
                    if which == 'list':
                        ok = it == '%s[1]' % R and len(inner) == 1 and canon(inner[0].call.args[0]) == item and emits[0][0][0] == 'len(%s[1])' % R
                        coll = emits[0][0][1]
                        ok = ok and isinstance(coll, ast.Lambda) and coll.args.vararg is not None and canon(coll.body) == coll.args.vararg.arg and not coll.args.args
                    else:
                        ok = it == 'zip(*%s[2].items())[1]' % R and len(inner) == 1 and canon(inner[0].call.args[0]) == item and emits[0][0][0] in ('len(%s[2])' % R, 'len(zip(*%s[2].items())[1])' % R)
                        coll = emits[0][0][1]
                        ok = ok and isinstance(coll, ast.Lambda) and coll.args.vararg is not None and canon(coll.body) == 'dict(zip(zip(*%s[2].items())[0], %s))' % (R, coll.args.vararg.arg)
                    # order: compile(left) < loop < collector < op
                    order = [p.effects.index(top[0][2]), p.effects.index(lp), p.effects.index(emits[0][1]), p.effects.index(emits[1][1])]
                    ok = ok and order == sorted(order) and canon(emits[1][0][1]) == '%s[3]' % R
                if ok:
                    ctx.holds(rule, fi, 'NaryExpr (%s): compile(left); compile(each value in order); emit(n, collector); emit(2, op)' % which,
                              'postfix; collector %s' % ('lambda *v: v' if which == 'list' else 'dict(zip(keys, v)) with keys / values of one zip(*items())'), fi.node.lineno, clause='c')
                else:
                    ctx.violation(rule, fi, 'NaryExpr (%s): %s' % (which, seq), 'expected compile(left), compile(values in order), emit(n, order-preserving collector), emit(2, op)', fi.node.lineno, clause='c')
            elif K == 'Field':
                emits = [(v, e) for k, v, e in top if k == 'emit']
                named = ("hasattr(%s, 'field_name')" % R) in gt
                if not named and not any('field_name' in g for g in gt) and emits and isinstance(emits[0][0][1], ast.Lambda) and emits[0][0][1].args.args \
                        and canon(emits[0][0][1].body, {emits[0][0][1].args.args[0].arg: 'PKT'}) == 'getattr(PKT, %s.field_name)' % R:
                    # "is it named?" asked by reading the name: try: <R.field_name> except AttributeError: <a value>
                    named = any(isinstance(t, ast.Try) and any(isinstance(x, ast.Attribute) and x.attr == 'field_name' for b in t.body for x in ast.walk(b))
                                and any(h.type is not None and 'AttributeError' in unparse(h.type) for h in t.handlers) for t in ast.walk(fi.node))
                if named:
                    kinds.add('field')
                    lam = emits[0][0][1] if emits else None
                    ok = len(emits) == 1 and emits[0][0][0] == '0' and isinstance(lam, ast.Lambda) and lam.args.args and canon(lam.body, {lam.args.args[0].arg: 'PKT'}) == 'getattr(PKT, %s.field_name)' % R
                    if ok:
                        ctx.holds(rule, fi, 'Field leaf: emit(0, lambda pkt, ...: getattr(pkt, field_name))', 'reads the already-parsed value', fi.node.lineno, clause='c')
                    else:
                        ctx.violation(rule, fi, 'Field leaf: %s' % [(v[0], canon(v[1])) for v, _ in emits], 'a field operand must be a 0-ary lookup of that field on the packet', fi.node.lineno, clause='c')
            else:
                emits = [(v, e) for k, v, e in top if k == 'emit']
                if emits and not [c for c in top if c[0] == 'compile']:
                    kinds.add('literal')
                    lam = emits[0][0][1]
                    if emits[0][0][0] == '0' and isinstance(lam, ast.Lambda) and canon(lam.body) == R:
                        ctx.holds(rule, fi, 'literal leaf: emit(0, lambda ...: value)', 'constants evaluate to themselves', fi.node.lineno, clause='c')
                    else:
                        ctx.violation(rule, fi, 'literal leaf: %s' % canon(lam), 'a constant operand must evaluate to itself', fi.node.lineno, clause='c')
    ctx.unit('paths', npaths)
    need = {'binary', 'unary', 'nary-list', 'nary-mapping', 'field', 'literal'}
    if not need <= kinds:
        ctx.violation(rule, fi, 'compile_expr branches %s' % sorted(kinds), 'missing %s' % sorted(need - kinds), fi.node.lineno, clause='c')
    # Operations.append / as_list
    ops = repo.cls('Operations')
    ap, al = ops.methods.get('append'), ops.methods.get('as_list')
    if ap is None or al is None:
        raise Undecided('anchor Operations.append / as_list not found')
    pa = [a.arg for a in ap.node.args.args][1:]
    nts_all = namedtuple_fields(repo.modules['deferred']['tree'])
    verdicts = []
    for p in repo.walker().paths(ap.node, cls=ops):
        if p.raises():
            continue
        adds = [e for e in p.effects if e.kind == 'call' and isinstance(e.call.func, ast.Attribute) and canon(e.call.func.value) == 'self.ops']
        if len(adds) != 1:
            verdicts.append((None, 'self.ops is touched %d times on a path' % len(adds)))
            continue
        c = adds[0].call
        if c.func.attr != 'append' or len(c.args) != 1 or c.keywords:
            verdicts.append((False, 'self.ops.%s(...)' % c.func.attr))
            continue
        entry = c.args[0]
        first2 = None
        if isinstance(entry, ast.Tuple):
            first2 = [canon(x) for x in entry.elts[:2]]
        elif isinstance(entry, ast.Call) and isinstance(entry.func, ast.Name) and entry.func.id in nts_all and not any(isinstance(x, ast.Starred) for x in entry.args):
            fields = nts_all[entry.func.id]
            given = dict(zip(fields, entry.args))
            given.update({k.arg: k.value for k in entry.keywords if k.arg})
            if len(fields) >= 2 and fields[0] in given and fields[1] in given:
                first2 = [canon(given[fields[0]]), canon(given[fields[1]])]
        if first2 is None:
            verdicts.append((None, 'entry %s' % canon(entry)[:80]))
        elif first2 == pa[:2]:
            verdicts.append((True, ''))
        else:
            verdicts.append((False, 'entry begins with (%s)' % ', '.join(first2)))
    if verdicts and all(v is True for v, _ in verdicts):
        ctx.holds(rule, ap, 'Operations.append stores (arity, operation, level, name) at the end', 'emission order = evaluation order', ap.node.lineno, clause='c')
    elif any(v is False for v, _ in verdicts):
        ctx.violation(rule, ap, 'Operations.append: %s' % [w_ for v, w_ in verdicts if v is False][0], 'operations are not appended as (arity, operation, ...) tuples in emission order', ap.node.lineno, clause='c')
    else:
        ctx.undecided(rule, ap, 'Operations.append', 'cannot see what is appended to the program (%s)' % '; '.join(w_ for _, w_ in verdicts)[:120], ap.node.lineno, clause='c')
    comp = [n for n in ast.walk(al.node) if isinstance(n, ast.ListComp)]
    # which namedtuple (if any) the entries are: from the append side
    entry_fields = None
    for n in ast.walk(ap.node):
        if isinstance(n, ast.Call) and isinstance(n.func, ast.Name) and n.func.id in nts_all:
            entry_fields = nts_all[n.func.id]

    def slot(e, target):
        """index of the entry component that e reads, None when it is something else"""
        if isinstance(target, ast.Tuple) and isinstance(e, ast.Name):
            names = [x.id if isinstance(x, ast.Name) else None for x in target.elts]
            return names.index(e.id) if e.id in names else None
        if isinstance(target, ast.Name):
            if isinstance(e, ast.Subscript) and isinstance(e.value, ast.Name) and e.value.id == target.id and isinstance(e.slice, ast.Constant) and isinstance(e.slice.value, int):
                return e.slice.value
            if isinstance(e, ast.Attribute) and isinstance(e.value, ast.Name) and e.value.id == target.id and entry_fields and e.attr in entry_fields:
                return entry_fields.index(e.attr)
        return None

    if comp and len(comp[0].generators) == 1:
        g = comp[0].generators[0]
        elt = comp[0].elt
        if g.ifs or canon(g.iter) != 'self.ops':
            ctx.violation(rule, al, 'Operations.as_list', 'the program is filtered or reordered', al.node.lineno, clause='c')
        elif isinstance(elt, ast.Tuple) and len(elt.elts) == 2:
            got = [slot(x, g.target) for x in elt.elts]
            if got == [0, 1]:
                ctx.holds(rule, al, 'as_list -> [(arity, operation)] in order', 'the program the stack machine runs', al.node.lineno, clause='c')
            elif None in got:
                ctx.undecided(rule, al, 'as_list -> %s' % canon(elt), 'cannot see which components of the entries these are', al.node.lineno, clause='c')
            else:
                ctx.violation(rule, al, 'as_list -> entry components %s' % got, 'the program must be (arity, operation) pairs', al.node.lineno, clause='c')
        elif isinstance(g.target, ast.Name) and isinstance(elt, ast.Subscript) and isinstance(elt.value, ast.Name) and elt.value.id == g.target.id \
                and isinstance(elt.slice, ast.Slice) and elt.slice.lower is None and isinstance(elt.slice.upper, ast.Constant) and elt.slice.upper.value == 2 and elt.slice.step is None:
            ctx.holds(rule, al, 'as_list -> [entry[:2] for entry in self.ops]', 'the (arity, operation) prefix of every entry, in order', al.node.lineno, clause='c')
        else:
            ctx.undecided(rule, al, 'Operations.as_list', 'cannot see that the program is returned entry by entry, in order', al.node.lineno, clause='c')
    else:
        ctx.undecided(rule, al, 'Operations.as_list', 'cannot see that the program is returned entry by entry, in order', al.node.lineno, clause='c')


def check_exec(ctx):
    repo = ctx.repo
    rule = 'R9-stack-discipline'
    fi = repo.module_funcs.get(('deferred', 'exec_compiled_expr'))
    if fi is None:
        raise Undecided('anchor deferred.exec_compiled_expr not found')
    ctx.unit('functions')
    if any(isinstance(n, ast.Try) for n in ast.walk(fi.node)):
        ctx.violation(rule, fi, 'exec_compiled_expr contains try', 'exceptions raised by an operator must propagate unchanged', fi.node.lineno, clause='g')
    else:
        ctx.holds(rule, fi, 'exec_compiled_expr: no try', 'exceptions propagate unchanged', fi.node.lineno, clause='g')
    w = repo.walker()
    paths = w.paths(fi.node)
    A = [a.arg for a in fi.node.args.args][1]
    for p in paths:
        loops = [e for e in p.effects if e.kind == 'loop']
        if len(loops) != 1:
            continue
        lp = loops[0]
        item = '<item of %d>' % lp.sub['phi']
        N, OP = item + '[0]', item + '[1]'
        if canon(lp.sub['iter']) != 'ops':
            ctx.violation(rule, fi, 'for ... in %s' % canon(lp.sub['iter']), 'the program must be run in emission order', lp.lineno, clause='d')
        # the evaluation stack: the list the results are pushed on; which end is the top follows
        # from how it is made of the initial arguments (given top first)
        stacks = {'list(%s)' % A: 'front', 'list(reversed(%s))' % A: 'back', 'list(%s[::-1])' % A: 'back', 'list(%s)[::-1]' % A: 'back', '%s[::-1]' % A: 'back'}
        stack = None
        for bp in lp.sub['body']:
            for e in bp.effects:
                if e.kind == 'call' and isinstance(e.call.func, ast.Attribute) and e.call.func.attr in ('insert', 'append') and canon(e.call.func.value) in stacks \
                        and any(isinstance(x, ast.Call) and canon(x.func) == OP for a_ in e.call.args for x in ast.walk(a_)):
                    stack = canon(e.call.func.value)
        if stack is None:
            stack = 'list(%s)' % A
        top = stacks[stack]
        push = pop = order = leaf = dele = None
        for bp in lp.sub['body']:
            gt = set(bp.guard_texts())
            is_leaf = ('(%s == 0)' % N) in gt or ('not %s' % N) in gt or ('(%s <= 0)' % N) in gt or ('(%s < 1)' % N) in gt
            for e in bp.effects:
                if e.kind == 'call' and isinstance(e.call.func, ast.Attribute) and canon(e.call.func.value) == stack:
                    if e.call.func.attr == 'insert' and canon(e.call.args[0]) == '0':
                        push = 'front'
                    elif e.call.func.attr == 'append':
                        push = 'back'
                    elif e.call.func.attr == 'insert':
                        push = 'other:' + canon(e.call.args[0])
                if e.kind == 'del':
                    dele = canon(e.obj)
                if e.kind == 'store_sub' and canon(e.obj) == stack and isinstance(e.name, ast.Slice) and isinstance(e.value, (ast.List, ast.Tuple)) and len(e.value.elts) == 1 \
                        and any(isinstance(x, ast.Call) and canon(x.func) == OP for x in ast.walk(e.value.elts[0])):
                    # stack[-n:] = [result]: the operands are removed and the result takes their place
                    sl = canon(ast.Subscript(value=e.obj, slice=e.name, ctx=ast.Load()))
                    dele = sl
                    push = 'back' if e.name.upper is None and e.name.lower is not None else ('front' if e.name.lower is None and e.name.upper is not None else 'other:' + sl)
                if e.kind == 'call' and canon(e.call.func) == OP:
                    if is_leaf:
                        leaf = canon(e.call)
                    else:
                        a = e.call.args[0] if e.call.args else None
                        if isinstance(a, ast.Starred):
                            v = a.value
                            if isinstance(v, ast.Call) and call_name(v) == 'reversed':
                                order = 'reversed'
                                v = v.args[0]
                            elif isinstance(v, ast.Subscript) and canon(v.slice) == '::-1':
                                order = 'reversed'
                                v = v.value
                            else:
                                order = 'plain'
                            pop = canon(v)
        st = 'stack %s, push=%s, operands=%s of %s, delete %s' % (stack, push, order, pop, dele)
        front = (push == 'front' and pop == '%s[:%s]' % (stack, N) and order == 'reversed' and dele == pop)
        tails = ('%s[(-1*%s):]' % (stack, N), '%s[-%s:]' % (stack, N),
                 # len(stack) - n clamped at 0: the last n entries, for n >= 1 (n == 0 is the leaf case)
                 '%s[max((-1*%s + len(%s)), 0):]' % (stack, N, stack), '%s[max((len(%s) + -1*%s), 0):]' % (stack, stack, N),
                 '%s[(-1*%s + len(%s)):]' % (stack, N, stack), '%s[(len(%s) + -1*%s):]' % (stack, stack, N))
        back = (push == 'back' and pop in tails and order == 'plain' and dele == pop)
        if (front and top == 'front') or (back and top == 'back'):
            ctx.holds(rule, fi, st, 'operands reach the operator in the order they were compiled (left, right)', lp.lineno, clause='d')
        elif front or back:
            # the initial arguments would be stacked with the other end up -- they are always empty:
            # the one caller, compile_expr_into_callable, is checked below to pass an empty sequence
            ctx.holds(rule, fi, st, 'operands reach the operator in the order they were compiled (left, right); the order of the initial arguments is immaterial (always empty)', lp.lineno, clause='d')
        else:
            ctx.violation(rule, fi, st, 'push side, pop slice and operand order are not mutually consistent: binary operators receive their operands swapped or stale values', lp.lineno, clause='d')
        if leaf == '%s(pkt, *vargs, **kargs)' % OP:
            ctx.holds(rule, fi, 'leaf: op(pkt, *vargs, **kargs)', 'leaves see the packet and the call context', lp.lineno, clause='d')
        else:
            ctx.violation(rule, fi, 'leaf: %s' % leaf, 'a 0-ary operation must be called with (pkt, *vargs, **kargs)', lp.lineno, clause='d')
        r = p.ret()
        # with exactly one entry left, either end (read or popped) is that entry
        single = {'%s[0]' % stack, '%s[-1]' % stack, '%s.pop()' % stack, '%s.pop(0)' % stack, '%s.pop(-1)' % stack}
        if r is not None and canon(r) in single and any('len(%s)' % stack in g for g in p.guard_texts()):
            ctx.holds(rule, fi, 'assert len(stack) == 1; return stack[0]', 'exactly one value remains', fi.node.lineno, clause='d')
        elif not p.raises():
            ctx.violation(rule, fi, 'returns %s' % (canon(r) if r is not None else None), 'the result must be the single remaining stack entry', fi.node.lineno, clause='d')
    # the stack is copied per call
    # the evaluation stack is a copy of the initial arguments, never the caller's list itself
    recvs = set()
    for p in paths:
        for e in p.all_effects():
            if e.kind == 'call' and isinstance(e.call.func, ast.Attribute) and e.call.func.attr in ('insert', 'append') and e.call.args \
                    and any(canon(x.func) == '<item of %d>[1]' % l_.sub['phi'] for l_ in p.effects if l_.kind == 'loop' for x in ast.walk(e.call) if isinstance(x, ast.Call)):
                recvs.add(canon(e.call.func.value))
    if len(recvs) == 1 and list(recvs)[0] in ('list(%s)' % A, 'list(reversed(%s))' % A, 'list(%s[::-1])' % A, 'list(%s)[::-1]' % A, '%s[::-1]' % A):
        ctx.holds(rule, fi, 'stack = %s' % list(recvs)[0], 'a fresh stack per evaluation', fi.node.lineno, clause='g')
    elif A in recvs:
        ctx.violation(rule, fi, 'results are pushed on %s' % A, 'the shared initial stack is not copied: evaluations interfere with each other', fi.node.lineno, clause='g')
    else:
        first = fi.node.body[0]
        if isinstance(first, ast.Assign) and canon(first.value) == 'list(%s)' % A:
            ctx.holds(rule, fi, stmt_text(first), 'a fresh stack per evaluation', first.lineno, clause='g')
        else:
            ctx.undecided(rule, fi, 'evaluation stack %s' % sorted(recvs), 'cannot see that the stack the results are pushed on is a per-call copy of the initial arguments', fi.node.lineno, clause='g')
    cc = repo.module_funcs.get(('deferred', 'compile_expr_into_callable'))
    if cc is not None:
        rets = [r for r in ast.walk(cc.node) if isinstance(r, ast.Return)]
        ok = len(rets) == 1 and isinstance(rets[0].value, ast.Lambda)
        if ok:
            lam = rets[0].value
            body_t = canon(lam.body, {lam.args.args[0].arg: 'PKT'})
            empties = {n_.targets[0].id for n_ in ast.walk(cc.node) if isinstance(n_, ast.Assign) and isinstance(n_.targets[0], ast.Name)
                       and isinstance(n_.value, (ast.List, ast.Tuple)) and not n_.value.elts}
            call_ = lam.body
            second_empty = isinstance(call_, ast.Call) and len(call_.args) >= 2 and ((isinstance(call_.args[1], (ast.List, ast.Tuple)) and not call_.args[1].elts)
                                                                                     or (isinstance(call_.args[1], ast.Name) and call_.args[1].id in empties))
            ok = (any(body_t.startswith('exec_compiled_expr(PKT, %s, ops, *' % x) for x in empties | {'[]', '()'}) or (second_empty and body_t.startswith('exec_compiled_expr(PKT, ') and ', ops, *' in body_t)) \
                and 'compile_expr(root_expr).as_list()' in unparse(cc.node)
            if not ok and second_empty and call_name(call_) == 'exec_compiled_expr' and len(call_.args) >= 3 and canon(call_.args[0]) == lam.args.args[0].arg \
                    and isinstance(call_.args[2], ast.Name):
                # the program under any local name, bound once to compile_expr(<the expression>).as_list()
                prm = cc.node.args.args[0].arg if cc.node.args.args else None
                single = {}
                for n_ in ast.walk(cc.node):
                    if isinstance(n_, ast.Assign) and len(n_.targets) == 1 and isinstance(n_.targets[0], ast.Name):
                        single.setdefault(n_.targets[0].id, []).append(n_.value)
                single = {k_: v_[0] for k_, v_ in single.items() if len(v_) == 1 and k_ != prm}
                from ..expr import subst
                prog = call_.args[2]
                for _ in range(4):
                    names_ = {x.id for x in ast.walk(prog) if isinstance(x, ast.Name)} & set(single)
                    if not names_:
                        break
                    prog = subst(prog, {k_: single[k_] for k_ in names_})
                ok = prm is not None and canon(prog) == 'compile_expr(%s).as_list()' % prm
        if ok:
            ctx.holds(rule, cc, 'lambda pkt, *v, **k: exec_compiled_expr(pkt, args, compile_expr(expr).as_list(), *v, **k)', 'the callable runs the compiled program on the packet', cc.node.lineno, clause='g')
        elif len(rets) == 1 and isinstance(rets[0].value, ast.Lambda) and isinstance(rets[0].value.body, ast.Call) and call_name(rets[0].value.body) == 'exec_compiled_expr' \
                and '.as_list()' in unparse(cc.node) and second_empty:
            # the evaluator is run on a program taken from as_list(): how that program is produced
            # (compile_expr expanded in place, another helper) is not followed here
            ctx.undecided(rule, cc, 'compile_expr_into_callable', 'cannot see that the program handed to the evaluator is compile_expr(root_expr).as_list()', cc.node.lineno, clause='g')
        else:
            ctx.violation(rule, cc, 'compile_expr_into_callable', 'the returned callable does not run the compiled program of this expression on the packet', cc.node.lineno, clause='g')


def check_selectors(ctx):
    repo = ctx.repo
    rule = 'R9-selectors'
    f1 = repo.module_funcs.get(('deferred', 'if_true_then_else'))
    f2 = repo.module_funcs.get(('deferred', 'chooses'))
    if f1 is None or f2 is None:
        raise Undecided('anchor if_true_then_else / chooses not found')
    ctx.unit('functions', 2)
    w = repo.walker()
    c, pv = [a.arg for a in f1.node.args.args]
    for p in w.paths(f1.node):
        r = p.ret()
        t = canon(r) if r is not None else None
        if t in ('(%s[0] if bool(%s) else %s[1])' % (pv, c, pv), '(%s[0] if %s else %s[1])' % (pv, c, pv)):
            ctx.holds(rule, f1, 'if_true_then_else -> values[0] if condition else values[1]', 'first option when true', f1.node.lineno, clause='f')
        else:
            ctx.violation(rule, f1, 'if_true_then_else -> %s' % t, 'expected values[0] if bool(condition) else values[1]', f1.node.lineno, clause='f')
    i, o = [a.arg for a in f2.node.args.args]
    for p in w.paths(f2.node):
        r = p.ret()
        t = canon(r) if r is not None else None
        if t == '%s[%s]' % (o, i):
            ctx.holds(rule, f2, 'chooses -> options[index]', 'plain indexing: KeyError / IndexError propagate', f2.node.lineno, clause='f')
        else:
            ctx.violation(rule, f2, 'chooses -> %s' % t, 'expected options[index]', f2.node.lineno, clause='f')


def check_prototype_named_before_conditions(ctx, rule='R9-postfix'):
    """Round 8.  compile_expr tells a named field (looked up in the packet) from a Field used as a
    plain value by whether it has a field_name at compile time.  The element of a repeated /
    optional field gets its name in the _compile of the structural field: that must happen before
    the count / until / when expressions are compiled, or an expression written over the element
    itself (byte.repeated(until=byte == 0)) is compiled as a constant Field object"""
    repo = ctx.repo
    for cname in ('Sequence', 'Optional'):
        ci = repo.cls(cname)
        comp = ci.methods.get('_compile')
        if comp is None:
            continue
        for p in repo.walker(max_paths=ctx.max_paths).paths(comp.node, cls=ci):
            if p.raises():
                continue
            effs = list(p.effects)
            named = [i for i, e in enumerate(effs) if e.kind == 'store_attr' and canon(e.obj) == 'self.prototype_field' and e.name == 'field_name']
            comps = [i for i, e in enumerate(effs) if e.kind == 'call' and (call_name(e.call) or '').split('.')[-1] in
                     ('normalize_raw_condition_into_a_callable', 'normalize_count_condition_into_a_callable', 'compile_expr_into_callable', 'compile_expr')]
            if not comps:
                continue
            st = '%s._compile: element named at step %s, conditions compiled at steps %s' % (cname, named[:1] or None, comps)
            if named and named[0] < comps[0]:
                ctx.holds(rule, comp, st, 'the element has its name when the expressions over it are compiled', comp.node.lineno, clause='c')
            elif named:
                ctx.violation(rule, comp, st, 'the count / until / when expressions are compiled before the element field is named: an expression over the element itself is compiled as a constant Field object instead of a lookup of the last parsed element', effs[comps[0]].lineno, clause='c', witness=True)
            else:
                ctx.undecided(rule, comp, st, 'cannot see where the element field gets its name', comp.node.lineno, clause='c')
            break


def check(ctx):
    repo = ctx.repo
    if 'deferred' not in repo.modules:
        raise Undecided('bisturi/deferred.py not found')
    nts = namedtuple_fields(repo.modules['deferred']['tree'])
    check_tables(ctx)
    check_constructors(ctx, nts)
    check_nary_forms(ctx)
    check_compile_expr(ctx, nts)
    check_exec(ctx)
    check_selectors(ctx)
    check_prototype_named_before_conditions(ctx)
    # where expressions are used (count / until / when of repeated and optional fields): the
    # consumer gets the callable compile_expr_into_callable made, not a wrapper that coerces
    from .c08 import check_normalisers
    check_normalisers(ctx)
    # a field object used as a plain value (an option of chooses) is told from a named field by
    # hasattr(field, 'field_name'): no constructor may create that attribute
    bad = []
    for ci in repo.field_classes():
        ini = ci.methods.get('__init__')
        if ini is None:
            continue
        for n in ast.walk(ini.node):
            if isinstance(n, ast.Attribute) and n.attr == 'field_name' and isinstance(n.ctx, ast.Store) and canon(n.value) == 'self':
                bad.append((ini, n))
    fe = repo.module_funcs.get(('deferred', 'compile_expr'))
    uses_hasattr = fe is not None and "hasattr(root_expr, 'field_name')" in unparse(fe.node)
    if bad and uses_hasattr:
        for ini, n in bad:
            ctx.violation('R9-postfix', ini, '%s: self.field_name assigned in the constructor' % ini.qual, "compile_expr tells a named field from a field used as a value by hasattr(field, 'field_name'): with the attribute always present a Field option of chooses() is compiled as getattr(pkt, None)", n.lineno, clause='c')
    else:
        ctx.holds('R9-postfix', ('bisturi/field.py', 'Field constructors'), 'no constructor assigns field_name', "hasattr(field, 'field_name') still distinguishes named fields from field values", 0, clause='c')
    from .c08 import check_late_binding
    check_late_binding(ctx)
    ctx.floor('operators folded', ctx.units.get('operators', 0), 37)
    ctx.trust(*ASSUMPTIONS)
