"""Constant folding of side-effect-free expressions over a finite environment.

Rules that quantify over a *finite configuration space* (byte-order spellings x host byte
orders x widths x signedness, option values, ...) evaluate the expressions the repository
computes at declaration / compile time under every configuration: a path summary's guards
select the path, its stored values are folded.  This is table evaluation of constant
expressions (tuples, dicts, comparisons, conditional expressions, string concatenation,
``str.lower``): no repository code runs, and anything else is ``Unknown``.
"""
import ast

from .expr import canon


class Unknown(Exception):
    pass


class Opaque:
    """value of a constructor call the fold does not interpret, e.g. struct.Struct(fmt)"""

    def __init__(self, name, args, kwargs):
        self.name, self.args, self.kwargs = name, args, kwargs

    def __repr__(self):
        return '%s%r' % (self.name, tuple(self.args))

    def __eq__(self, o):
        return isinstance(o, Opaque) and (self.name, self.args, self.kwargs) == (o.name, o.args, o.kwargs)

    def __hash__(self):
        return hash(self.name)


CONSTRUCTORS = {'struct.Struct', 'Struct'}


def fold(e, env, consts=None):
    """``env``: canonical text of a name / attribute chain / call -> Python value;
    ``consts``: canonical text -> AST of a constant definition (class attributes)"""
    consts = consts or {}
    f = lambda x: fold(x, env, consts)
    if isinstance(e, ast.Constant):
        return e.value
    if isinstance(e, (ast.Attribute, ast.Name)):
        k = canon(e)
        if k in env:
            return env[k]
        if k in consts:
            return f(consts[k])
        raise Unknown(k)
    if isinstance(e, ast.Tuple):
        return tuple(f(x) for x in e.elts)
    if isinstance(e, ast.List):
        return [f(x) for x in e.elts]
    if isinstance(e, ast.Set):
        return {f(x) for x in e.elts}
    if isinstance(e, ast.Dict):
        if any(k is None for k in e.keys):
            raise Unknown('**')
        return {f(k): f(v) for k, v in zip(e.keys, e.values)}
    if isinstance(e, ast.BoolOp):
        if isinstance(e.op, ast.And):
            v = True
            for x in e.values:
                v = f(x)
                if not v:
                    return v
            return v
        v = False
        for x in e.values:
            v = f(x)
            if v:
                return v
        return v
    if isinstance(e, ast.UnaryOp):
        v = f(e.operand)
        if isinstance(e.op, ast.Not):
            return not v
        if isinstance(e.op, ast.USub):
            return -v
        if isinstance(e.op, ast.UAdd):
            return +v
        raise Unknown(type(e.op).__name__)
    if isinstance(e, ast.IfExp):
        return f(e.body) if f(e.test) else f(e.orelse)
    if isinstance(e, ast.Compare):
        left = f(e.left)
        for op, r in zip(e.ops, e.comparators):
            right = f(r)
            try:
                if isinstance(op, ast.Eq): ok = left == right
                elif isinstance(op, ast.NotEq): ok = left != right
                elif isinstance(op, ast.In): ok = left in right
                elif isinstance(op, ast.NotIn): ok = left not in right
                elif isinstance(op, ast.Is): ok = left is right
                elif isinstance(op, ast.IsNot): ok = left is not right
                elif isinstance(op, ast.Lt): ok = left < right
                elif isinstance(op, ast.LtE): ok = left <= right
                elif isinstance(op, ast.Gt): ok = left > right
                elif isinstance(op, ast.GtE): ok = left >= right
                else:
                    raise Unknown(type(op).__name__)
            except TypeError:
                raise Unknown('comparison of %r and %r' % (left, right))
            if not ok:
                return False
            left = right
        return True
    if isinstance(e, ast.BinOp):
        a, b = f(e.left), f(e.right)
        try:
            if isinstance(e.op, ast.Add): return a + b
            if isinstance(e.op, ast.Sub): return a - b
            if isinstance(e.op, ast.Mult): return a * b
            if isinstance(e.op, ast.Pow) and isinstance(b, int) and 0 <= b <= 4096: return a ** b
            if isinstance(e.op, ast.FloorDiv): return a // b
            if isinstance(e.op, ast.Mod) and isinstance(a, int): return a % b
            if isinstance(e.op, ast.LShift) and isinstance(b, int) and 0 <= b <= 4096: return a << b
            if isinstance(e.op, ast.RShift) and isinstance(b, int) and 0 <= b <= 4096: return a >> b
            if isinstance(e.op, ast.BitAnd) and isinstance(a, int) and isinstance(b, int): return a & b
            if isinstance(e.op, ast.BitOr) and isinstance(a, int) and isinstance(b, int): return a | b
        except (TypeError, ZeroDivisionError):
            raise Unknown('arithmetic on %r, %r' % (a, b))
        raise Unknown(type(e.op).__name__)
    if isinstance(e, ast.Subscript):
        v = f(e.value)
        if isinstance(e.slice, ast.Slice):
            raise Unknown('slice')
        i = f(e.slice)
        try:
            return v[i]
        except (KeyError, IndexError, TypeError):
            raise Unknown('no element %r in %r' % (i, v))
    if isinstance(e, ast.Call):
        k = canon(e)
        if k in env:
            return env[k]
        fn = e.func
        if isinstance(fn, ast.Attribute) and fn.attr in ('lower', 'upper', 'strip') and not e.args and not e.keywords:
            v = f(fn.value)
            if isinstance(v, str):
                return getattr(v, fn.attr)()
            raise Unknown('%s of %r' % (fn.attr, v))
        if isinstance(fn, ast.Attribute) and fn.attr == 'get' and 1 <= len(e.args) <= 2 and not e.keywords:
            v = f(fn.value)
            if isinstance(v, dict):
                return v.get(f(e.args[0]), f(e.args[1]) if len(e.args) == 2 else None)
            raise Unknown('get on %r' % (v,))
        name = canon(fn)
        if name in CONSTRUCTORS:
            return Opaque(name.split('.')[-1], tuple(f(a) for a in e.args), tuple(sorted((kw.arg, f(kw.value)) for kw in e.keywords if kw.arg)))
        if name in ('bool', 'int', 'str', 'len', 'tuple', 'abs') and len(e.args) == 1 and not e.keywords:
            try:
                return {'bool': bool, 'int': int, 'str': str, 'len': len, 'tuple': tuple, 'abs': abs}[name](f(e.args[0]))
            except (TypeError, ValueError):
                raise Unknown('%s of a value it does not take' % name)
        if name in ('zip', 'range', 'enumerate', 'sorted', 'reversed', 'list', 'dict', 'set', 'frozenset') and not e.keywords \
                and not any(isinstance(a, ast.Starred) for a in e.args):
            # pure builtins over constants (the tables a module computes once, at import)
            args = [f(a) for a in e.args]
            try:
                r = {'zip': zip, 'range': range, 'enumerate': enumerate, 'sorted': sorted, 'reversed': reversed, 'list': list, 'dict': dict,
                     'set': set, 'frozenset': frozenset}[name](*args)
                if name in ('zip', 'range', 'enumerate', 'reversed'):
                    r = list(r)
                    if len(r) > 4096:
                        raise Unknown('table too large')
                return r
            except (TypeError, ValueError):
                raise Unknown('%s of %r' % (name, args))
        raise Unknown(k[:60])
    if isinstance(e, (ast.ListComp, ast.SetComp, ast.DictComp, ast.GeneratorExp)):
        out = []

        def bind(t, v, env2):
            if isinstance(t, ast.Name):
                env2[t.id] = v
            elif isinstance(t, (ast.Tuple, ast.List)):
                vs = list(v)
                if len(vs) != len(t.elts):
                    raise Unknown('unpacking')
                for tt, vv in zip(t.elts, vs):
                    bind(tt, vv, env2)
            else:
                raise Unknown('comprehension target')

        def rec(gens, env2):
            if len(out) > 4096:
                raise Unknown('table too large')
            if not gens:
                if isinstance(e, ast.DictComp):
                    out.append((fold(e.key, env2, consts), fold(e.value, env2, consts)))
                else:
                    out.append(fold(e.elt, env2, consts))
                return
            g = gens[0]
            it = fold(g.iter, env2, consts)
            try:
                items = list(it)
            except TypeError:
                raise Unknown('iteration over %r' % (it,))
            for item in items:
                e3 = dict(env2)
                bind(g.target, item, e3)
                if all(fold(c, e3, consts) for c in g.ifs):
                    rec(gens[1:], e3)
        rec(list(e.generators), dict(env))
        try:
            if isinstance(e, ast.DictComp):
                return dict(out)
            if isinstance(e, ast.SetComp):
                return set(out)
        except TypeError:
            raise Unknown('unhashable')
        return out
    if isinstance(e, ast.JoinedStr):
        out = ''
        for v in e.values:
            if isinstance(v, ast.Constant):
                out += str(v.value)
            elif isinstance(v, ast.FormattedValue) and v.format_spec is None and v.conversion == -1:
                out += str(f(v.value))
            else:
                raise Unknown('f-string format')
        return out
    raise Unknown(type(e).__name__)


def guard_truth(g, pol, env, consts=None):
    """True / False when the guard folds, None when it does not depend only on the environment"""
    try:
        return bool(fold(g, env, consts)) == pol
    except Unknown:
        return None


def select_paths(paths, env, consts=None):
    """the path summaries whose every foldable guard holds under the environment"""
    out = []
    for p in paths:
        ok = True
        for g, pol in p.guards:
            t = guard_truth(g, pol, env, consts)
            if t is False:
                ok = False
                break
        if ok:
            out.append(p)
    return out
