"""The four drivers: Packet.pack_impl / unpack_impl (generic field loop) and the
pack_impl / unpack_impl templates of codegen.py (generated code, analysed as
template ASTs with typed holes).  Rule family R2 (driver sibling agreement) and
R7 (error discipline) are implemented here and used by C01 C03 C04 C10 C12 C17."""
import ast

from . import Undecided
from .expr import canon, unparse, call_name, is_attr
from .model import stmt_text


class Driver:
    def __init__(self, kind, origin, where, node, pkt, template=None):
        self.kind = kind            # 'pack' | 'unpack'
        self.origin = origin        # 'generic' | 'template'
        self.where = where          # FuncInfo (for templates: the codegen function holding the template)
        self.node = node            # FunctionDef of the driver itself
        self.pkt = pkt              # name of the packet variable ('self' / 'pkt')
        self.template = template
        self.rename = {pkt: 'PKT'}
        body = [s for s in node.body if not (isinstance(s, ast.Expr) and isinstance(s.value, ast.Constant))]
        self.tries = [s for s in body if isinstance(s, ast.Try)]
        self.try_node = self.tries[0] if self.tries else None
        if self.try_node is not None:
            i = body.index(self.try_node)
            self.pre, self.post = body[:i], body[i + 1:]
        else:
            self.pre, self.post = body, []

    @property
    def label(self):
        return '%s %s driver' % (self.origin, self.kind)

    @property
    def cursor(self):
        """canonical text of the cursor expression of this driver"""
        return 'offset' if self.kind == 'unpack' else 'fragments.current_offset'

    def c(self, e):
        return canon(e, self.rename)


def get_drivers(repo):
    out = []
    try:
        fields_tuple_layout(repo)
    except Undecided:
        pass
    pk = repo.cls('Packet')
    for kind, name in (('unpack', 'unpack_impl'), ('pack', 'pack_impl')):
        fi = pk.methods.get(name)
        if fi is None:
            raise Undecided('anchor Packet.%s not found' % name)
        out.append(Driver(kind, 'generic', fi, fi.node, fi.node.args.args[0].arg))
    found = set()
    for t in repo.templates():
        if t.tree is None:
            continue
        for kind, name in (('unpack', 'unpack_impl'), ('pack', 'pack_impl')):
            fd = t.funcdef(name)
            if fd is not None:
                out.append(Driver(kind, 'template', t.func, fd, fd.args.args[0].arg, template=t))
                found.add(kind)
    if found != {'pack', 'unpack'}:
        raise Undecided('driver templates for pack_impl/unpack_impl not found in codegen.py (found: %s)' % sorted(found))
    return out


HOLE_BLOCKS = '__HOLE_blocks_of_code__'
HOLE_SYNC = '__HOLE_sync_descriptors_code__'


def is_hole(stmt, name=None):
    return isinstance(stmt, ast.Expr) and isinstance(stmt.value, ast.Name) and stmt.value.id.startswith('__HOLE_') \
        and (name is None or stmt.value.id == name)


# ---------------------------------------------------------------- generic drivers as event automata
from .lts import Classifier, extract, method_callee, compare, compile_spec, seq, alt, star, lit


class _DriverEvents(Classifier):
    """what a driver does, observed as events: the entry cursor recorded for nested packets, the
    loop over get_fields(), each field's call with its three outcomes, the stack entry added to
    a PacketError that passes through, the PacketError built for any other failure, the sync
    hooks, the returned cursor / buffer"""

    def __init__(self, d, layout):
        self.d, self.layout = d, layout
        a = d.node.args
        self.params = [x.arg for x in a.posonlyargs + a.args]
        self.PKT = d.pkt
        self.K = a.kwarg.arg if a.kwarg is not None else None
        self.unpack = d.kind == 'unpack'
        self.RAW = self.params[1] if self.unpack and len(self.params) > 2 else None
        self.CUR = (self.params[2] if len(self.params) > 2 else 'offset') if self.unpack else None
        self.BUF = None if self.unpack else (self.params[1] if len(self.params) > 1 else 'fragments')

    # -- helpers
    def is_cursor(self, t):
        if self.unpack:
            return t == self.CUR or t == '<ev field>' or t.startswith(self.CUR + '@L')
        return t == '%s.current_offset' % self.BUF

    def clsname(self, t):
        return t in ('%s.__class__.__name__' % self.PKT, 'type(%s).__name__' % self.PKT)

    def item_slot(self, e):
        """(loop item symbol, index) for ``<item L..>[i]``"""
        if isinstance(e, ast.Subscript) and isinstance(e.value, ast.Name) and e.value.id.startswith('<item L') and isinstance(e.slice, ast.Constant):
            return e.value.id, e.slice.value
        return None

    def call(self, c):
        f = c.func
        ft = canon(f)
        if ft in ('%s.get_fields' % self.PKT, '%s.__class__.get_fields' % self.PKT) and not c.args:
            return ('get-fields', ())
        for which in ('after_unpack', 'before_pack'):
            if ft == '%s.get_sync_%s_methods' % (self.PKT, which):
                return ('get-hooks[%s]' % which.replace('_', '-'), ())
        slot = self.item_slot(f)
        if slot is not None:
            kw = {k.arg: canon(k.value) for k in c.keywords if k.arg}
            pos = [canon(a) for a in c.args]
            names = ['pkt', 'raw', 'offset'] if self.unpack else ['pkt', 'fragments']
            for n_, v_ in zip(names, pos):
                kw.setdefault(n_, v_)
            star = [canon(k.value) for k in c.keywords if k.arg is None]
            wrong = []
            if slot[1] != self.layout['unpack' if self.unpack else 'pack']:
                wrong.append('tuple slot %s' % slot[1])
            if kw.get('pkt') != self.PKT:
                wrong.append('pkt=%s' % kw.get('pkt'))
            if self.unpack:
                if kw.get('raw') != self.RAW:
                    wrong.append('raw=%s' % kw.get('raw'))
                if not self.is_cursor(kw.get('offset') or ''):
                    wrong.append('offset=%s' % kw.get('offset'))
            elif kw.get('fragments') != self.BUF:
                wrong.append('fragments=%s' % kw.get('fragments'))
            if star != [self.K]:
                wrong.append('**%s' % star)
            return ('field' if not wrong else 'field[%s]' % ', '.join(wrong)[:80], ('ok', 'exc:PacketError', 'exc:Exception'))
        if isinstance(f, ast.Name) and f.id.startswith('<item L'):
            good = len(c.args) == 1 and canon(c.args[0]) == self.PKT and not c.keywords
            return ('hook' if good else 'hook[%s]' % canon(c)[:40], ())
        if isinstance(f, ast.Attribute) and f.attr == 'add_parent_field_and_packet':
            a = args_of(c, ['offset', 'field_name', 'packet_class_name'])
            wrong = []
            if not canon(f.value).startswith('<exc PacketError'):
                wrong.append('on %s' % canon(f.value))
            if a is None:
                wrong.append('arguments')
            else:
                if not self.is_cursor(canon(a['offset'])):
                    wrong.append('offset %s' % canon(a['offset']))
                sl = self.item_slot(a['field_name'])
                if sl is None or sl[1] != self.layout['name']:
                    wrong.append('field %s' % canon(a['field_name']))
                if not self.clsname(canon(a['packet_class_name'])):
                    wrong.append('class %s' % canon(a['packet_class_name']))
            return ('add-parent' if not wrong else 'add-parent[%s]' % ', '.join(wrong)[:80], ())
        return None

    def store(self, target, value):
        if isinstance(target, ast.Subscript) and isinstance(target.slice, ast.Constant) and target.slice.value == 'innermost-pkt-pos':
            v = canon(value)
            good = canon(target.value) == self.K and (v == self.CUR if self.unpack else v == '%s.current_offset' % self.BUF)
            return 'mark-innermost' if good else 'mark-innermost[%s[...] = %s]' % (canon(target.value), v[:40])
        return None

    def truth(self, text, e):
        if isinstance(e, ast.Call) and isinstance(e.func, ast.Name) and e.func.id == 'isinstance' and len(e.args) == 2 \
                and isinstance(e.args[0], ast.Name) and e.args[0].id.startswith('<exc ') and canon(e.args[1]) == 'PacketError':
            return e.args[0].id == '<exc PacketError>'
        return None

    def exc(self, v):
        if isinstance(v, ast.Call) and call_name(v) == 'PacketError':
            a = args_of(v, ['was_error_found_in_unpacking_phase', 'field_name', 'packet_class_name', 'offset', 'original_error_message'])
            wrong = []
            if a is None:
                wrong.append('arguments')
            else:
                ph = a['was_error_found_in_unpacking_phase']
                if not (isinstance(ph, ast.Constant) and ph.value is self.unpack):
                    wrong.append('phase %s' % canon(ph))
                sl = self.item_slot(a['field_name'])
                if sl is None or sl[1] != self.layout['name']:
                    wrong.append('field %s' % canon(a['field_name']))
                if not self.clsname(canon(a['packet_class_name'])):
                    wrong.append('class %s' % canon(a['packet_class_name']))
                if not self.is_cursor(canon(a['offset'])):
                    wrong.append('offset %s' % canon(a['offset']))
                m = canon(a['original_error_message'])
                if not (m.startswith('str(<exc ') or m.startswith('repr(<exc ')):
                    wrong.append('message %s' % m[:30])
            return 'PacketError(new)' if not wrong else 'PacketError(new; %s)' % ', '.join(wrong)[:80]
        return Classifier.exc(self, v)

    def ret(self, v):
        if v is None:
            return 'None'
        t = canon(v)
        if self.unpack:
            return 'cursor' if self.is_cursor(t) else t[:40]
        return 'buffer' if t == self.BUF else t[:40]


def _driver_spec(kind):
    hooks = lambda which: seq(lit('get-hooks[%s]' % which), lit('for[<ev get-hooks[%s]>]' % which), star(seq(lit('next'), lit('hook'))), lit('end'))
    fails = [seq(lit('next'), lit('field:exc:PacketError'), lit('add-parent'), lit('raise[PacketError]')),
             seq(lit('next'), lit('field:exc:Exception'), lit('raise[PacketError(new)]'))]
    loop = seq(lit('mark-innermost'), lit('get-fields'), lit('for[<ev get-fields>]'), star(seq(lit('next'), lit('field:ok'))))
    if kind == 'unpack':
        return seq(loop, alt(seq(lit('end'), hooks('after-unpack'), lit('return[cursor]')), *fails))
    return seq(hooks('before-pack'), loop, alt(seq(lit('end'), lit('return[buffer]')), *fails))


_GENERIC = {}


def generic_verdict(ctx, d):
    """(True | False | None, statement, reason) for a generic driver, decided once per run"""
    # (kept on the Repo object itself: an id() can be reused by a later Repo)
    cache = ctx.repo.__dict__.setdefault('_generic_verdicts', {})
    key = d.kind
    if key in cache:
        return cache[key]
    try:
        layout = fields_tuple_layout(ctx.repo)
        code = extract(d.node, _DriverEvents(d, layout), callee=method_callee(ctx.repo, ctx.repo.cls('Packet')) if d.origin == 'generic' else None)
        cmp_ = compare(code, compile_spec(_driver_spec(d.kind)))
        if cmp_[0] == 'foreign':
            raise Undecided('%s does things the driver discipline does not speak about (%s): its event language cannot be compared' % (d.label, ', '.join(cmp_[1][:4])))
        diff = cmp_[1:] if cmp_[0] == 'differs' else None
    except Undecided as e:
        res = (None, d.label, str(e))
        cache[key] = res
        return res
    if diff is None:
        res = (True, '%s: event language' % d.label,
               'entry cursor recorded, every get_fields() entry called in order with (pkt, %s, **k), a PacketError passing through gets (cursor, field, class) added and is re-raised, any other failure becomes PacketError(%s, field, class, cursor, message), hooks %s, %s returned'
               % ('raw, cursor' if d.kind == 'unpack' else 'buffer', d.kind == 'unpack', 'after the last field' if d.kind == 'unpack' else 'before the first field', 'the end cursor' if d.kind == 'unpack' else 'the buffer'))
    else:
        trace, which = diff
        if which == 'only-first':
            why = 'the driver can do [%s] after [%s]; the error / ordering discipline does not allow it there' % (trace[-1], ' '.join(trace[:-1]))
        else:
            why = 'after [%s] the discipline requires [%s], which the driver cannot do there' % (' '.join(trace[:-1]), trace[-1])
        res = (False, '%s: %s' % (d.label, ' '.join(trace)[:300]), why)
    cache[key] = res
    return res


def report_generic(ctx, rule, d, clause=''):
    ok, st, why = generic_verdict(ctx, d)
    if ok is True:
        ctx.holds(rule, d.where, st, why, d.node.lineno, clause=clause)
    elif ok is False:
        ctx.violation(rule, d.where, st, why, d.node.lineno, clause=clause)
    else:
        ctx.undecided(rule, d.where, st, why, d.node.lineno, clause=clause)
    return ok


# ---------------------------------------------------------------- R7 handlers

def check_handlers(ctx, rule, d):
    """(a) handler 1 (PacketError): add_parent_field_and_packet(cursor, name,
    class-name) then re-raise; handler 2 (Exception): raise PacketError(phase,
    name, class-name, cursor, str(e)); phase True in unpack, False in pack."""
    if d.origin == 'generic':
        return report_generic(ctx, rule, d)
    tr = d.try_node
    w = d.where
    if tr is None:
        ctx.violation(rule, w, d.label, 'driver has no try statement: field failures are not converted to PacketError', d.node.lineno)
        return
    hs = tr.handlers
    types = [unparse(h.type) if h.type is not None else None for h in hs]
    # --- PacketError handler
    pe = [h for h in hs if h.type is not None and unparse(h.type) == 'PacketError']
    ex = [h for h in hs if h.type is None or unparse(h.type) in ('Exception', 'BaseException')]
    if not pe:
        ctx.violation(rule, w, '%s: handlers %s' % (d.label, types), 'no handler for PacketError: the enclosing field/packet is not appended to the stack', tr.lineno)
    if not ex:
        ctx.violation(rule, w, '%s: handlers %s' % (d.label, types), 'no handler for Exception: a field failure escapes without being converted to PacketError', tr.lineno)
    if pe and ex:
        if hs.index(pe[0]) > hs.index(ex[0]):
            ctx.violation(rule, w, '%s: handlers %s' % (d.label, types),
                          'the Exception handler precedes the PacketError handler: inner PacketErrors are re-wrapped and lose their stack', tr.lineno)
        else:
            ctx.holds(rule, w, '%s: handler order %s' % (d.label, types), 'PacketError is handled before Exception', tr.lineno)
    # a narrower handler in front of the catch-all decides what happens to those failures
    for h in hs:
        if h in pe[:1] or h in ex[:1] or (ex and hs.index(h) > hs.index(ex[0])):
            continue
        last = h.body[-1] if h.body else None
        st = '%s: except %s: %s' % (d.label, unparse(h.type) if h.type is not None else '', '; '.join(stmt_text(s) for s in h.body)[:100])
        if isinstance(last, ast.Raise) and isinstance(last.exc, ast.Call) and call_name(last.exc) == 'PacketError':
            ctx.undecided(rule, w, st, 'a further handler builds its own PacketError: not compared with the discipline', h.lineno)
        else:
            ctx.violation(rule, w, st, 'failures of this class are taken out of the catch-all: they leave the driver as they are (or are swallowed) instead of becoming PacketError', h.lineno, witness=True)
    cursor = d.cursor
    clsname_ok = lambda e: d.c(e) in ('PKT.__class__.__name__', 'type(PKT).__name__')
    for h in pe[:1]:
        var = h.name
        calls = [s for s in h.body if isinstance(s, ast.Expr) and isinstance(s.value, ast.Call)
                 and isinstance(s.value.func, ast.Attribute) and s.value.func.attr == 'add_parent_field_and_packet']
        st = '%s: except PacketError: %s' % (d.label, '; '.join(stmt_text(s) for s in h.body))
        if not calls:
            ctx.violation(rule, w, st, 'handler does not call add_parent_field_and_packet', h.lineno)
        else:
            c = calls[0].value
            ok = True
            if not (isinstance(c.func.value, ast.Name) and c.func.value.id == var):
                ok = ctx.violation(rule, w, st, 'add_parent_field_and_packet is not called on the caught exception', h.lineno)
            args = args_of(c, ['offset', 'field_name', 'packet_class_name'])
            if args is None:
                ok = ctx.undecided(rule, w, st, 'cannot bind the arguments of add_parent_field_and_packet', h.lineno)
            else:
                if canon(args['offset']) != cursor:
                    ok = ctx.violation(rule, w, st, 'stack entry offset is %s, expected the driver cursor %s' % (canon(args['offset']), cursor), h.lineno)
                if not (isinstance(args['field_name'], ast.Name) and args['field_name'].id == field_name_var(d)):
                    ok = ctx.violation(rule, w, st, 'stack entry field is %s, expected the variable bound to the current field name (%s)' % (canon(args['field_name']), field_name_var(d)), h.lineno)
                if not clsname_ok(args['packet_class_name']):
                    ok = ctx.violation(rule, w, st, 'stack entry class is %s, expected the packet class name' % canon(args['packet_class_name']), h.lineno)
            # re-raise after the call
            last = h.body[-1]
            reraises = isinstance(last, ast.Raise) and (last.exc is None or (isinstance(last.exc, ast.Name) and last.exc.id == var))
            if not reraises:
                ok = ctx.violation(rule, w, st, 'the PacketError is not re-raised after adding the parent entry', h.lineno)
            elif h.body.index(calls[0]) > len(h.body) - 2 + 0 and False:
                pass
            if ok is not False and ok is not None:
                ctx.holds(rule, w, st, 'adds (cursor, field, class) and re-raises', h.lineno)
    for h in ex[:1]:
        var = h.name
        st = '%s: except Exception: %s' % (d.label, '; '.join(stmt_text(s) for s in h.body))
        last = h.body[-1] if h.body else None
        if not (isinstance(last, ast.Raise) and isinstance(last.exc, ast.Call) and call_name(last.exc) == 'PacketError'):
            ctx.violation(rule, w, st, 'handler does not end in raise PacketError(...)', h.lineno)
            continue
        args = args_of(last.exc, ['was_error_found_in_unpacking_phase', 'field_name', 'packet_class_name', 'offset', 'original_error_message'])
        if args is None:
            ctx.undecided(rule, w, st, 'cannot bind the arguments of PacketError(...)', h.lineno)
            continue
        ok = True
        want_phase = (d.kind == 'unpack')
        ph = args['was_error_found_in_unpacking_phase']
        if not (isinstance(ph, ast.Constant) and ph.value is want_phase):
            ok = ctx.violation(rule, w, st, 'phase flag is %s in the %s driver, expected %s' % (canon(ph), d.kind, want_phase), h.lineno)
        if not (isinstance(args['field_name'], ast.Name) and args['field_name'].id == field_name_var(d)):
            ok = ctx.violation(rule, w, st, 'field name argument is %s, expected the current field name variable' % canon(args['field_name']), h.lineno)
        if not clsname_ok(args['packet_class_name']):
            ok = ctx.violation(rule, w, st, 'class argument is %s, expected the packet class name' % canon(args['packet_class_name']), h.lineno)
        if canon(args['offset']) != cursor:
            ok = ctx.violation(rule, w, st, 'offset argument is %s, expected the driver cursor %s' % (canon(args['offset']), cursor), h.lineno)
        if ok:
            ctx.holds(rule, w, st, 'raises PacketError(%s, name, class, cursor, message)' % want_phase, h.lineno)


def args_of(call, names):
    if any(isinstance(a, ast.Starred) for a in call.args) or any(k.arg is None for k in call.keywords):
        return None
    out = {}
    for n, a in zip(names, call.args):
        out[n] = a
    for k in call.keywords:
        if k.arg in names:
            out[k.arg] = k.value
    return out if all(n in out for n in names) else None


_LAYOUT = {}


def field_name_var(d):
    """the variable that holds the current field's name in the driver: the loop
    target (generic) / tuple target of the loop block (template) bound to the
    name slot of the get_fields() tuples"""
    if d.origin == 'template':
        return handler_name_var(d)
    if d.origin == 'generic' and d.try_node is not None:
        for s in d.try_node.body:
            if isinstance(s, ast.For) and 'get_fields' in unparse(s.iter) and isinstance(s.target, ast.Tuple):
                pos = _LAYOUT.get('name', 0)
                if len(s.target.elts) > pos and isinstance(s.target.elts[pos], ast.Name):
                    return s.target.elts[pos].id
    return 'name'


# ------------------------------------------------------- field calls in the try

def field_calls(d):
    """the statements of the try body that run fields.  generic: the for-loop
    over get_fields(); template: the blocks hole"""
    if d.try_node is None:
        return []
    out = []
    for s in d.try_node.body:
        if d.origin == 'template' and is_hole(s, HOLE_BLOCKS):
            out.append(s)
        elif isinstance(s, ast.For) and 'get_fields' in unparse(s.iter):
            out.append(s)
    return out


def check_try_span(ctx, rule, d):
    """every field call of the driver is inside the try"""
    if d.origin == 'generic':
        return report_generic(ctx, rule, d)
    w = d.where
    inside = field_calls(d)
    outside = []
    for s in d.pre + d.post:
        if (d.origin == 'template' and is_hole(s, HOLE_BLOCKS)) or (isinstance(s, ast.For) and 'get_fields' in unparse(s.iter)):
            outside.append(s)
    if outside:
        ctx.violation(rule, w, '%s: %s' % (d.label, stmt_text(outside[0])), 'fields are run outside the try that converts failures to PacketError', outside[0].lineno)
    elif not inside:
        ctx.undecided(rule, w, d.label, 'cannot find where the driver runs its fields', d.node.lineno)
    else:
        ctx.holds(rule, w, '%s: %s' % (d.label, stmt_text(inside[0])[:120]), 'all field calls are inside the try', inside[0].lineno)


def generic_loop_shape(ctx, rule, d):
    """generic loop: ``for name, f, pack, _ in X.get_fields(): pack(pkt=X, fragments=fragments, **k)``
    resp. ``offset = unpack(pkt=X, raw=raw, offset=offset, **k)``.  Returns dict
    describing the call, or None (reported)."""
    if d.origin == 'generic':
        report_generic(ctx, rule, d)
        return None
    w = d.where
    loops = field_calls(d)
    if len(loops) != 1:
        ctx.undecided(rule, w, d.label, 'expected exactly one loop over get_fields() in the try', d.node.lineno)
        return None
    lp = loops[0]
    st = '%s: %s' % (d.label, stmt_text(lp)[:200])
    if not (isinstance(lp.iter, ast.Call) and d.c(lp.iter) in ('PKT.get_fields()', 'PKT.__class__.get_fields()')):
        ctx.violation(rule, w, st, 'the loop does not iterate the full get_fields() list (filter/slice/reverse?): %s' % d.c(lp.iter), lp.lineno)
        return None
    if not (isinstance(lp.target, ast.Tuple) and len(lp.target.elts) == 4 and all(isinstance(x, ast.Name) for x in lp.target.elts)):
        ctx.undecided(rule, w, st, 'loop target is not a 4-tuple of names', lp.lineno)
        return None
    names = [x.id for x in lp.target.elts]
    if any(isinstance(s, (ast.Break, ast.Continue, ast.Return)) for n in lp.body for s in ast.walk(n)):
        ctx.violation(rule, w, st, 'the field loop can stop early (break/continue/return)', lp.lineno)
        return None
    calls = []
    for s in lp.body:
        c = s.value if isinstance(s, (ast.Expr, ast.Assign)) else None
        if isinstance(c, ast.Call) and isinstance(c.func, ast.Name) and c.func.id in names:
            calls.append((s, c))
    if len(calls) != 1 or len(lp.body) != 1:
        ctx.undecided(rule, w, st, 'loop body is not a single call of the per-field method', lp.lineno)
        return None
    s, c = calls[0]
    nv = handler_name_var(d)
    return dict(loop=lp, stmt=s, call=c, names=names, callee_pos=names.index(c.func.id), name_pos=names.index(nv) if nv in names else None)


def template_name_var(repo, kind):
    for d in get_drivers(repo):
        if d.origin == 'template' and d.kind == kind:
            return handler_name_var(d)
    return 'name'


def template_loop_shape(ctx, rule, repo, kind):
    nv = template_name_var(repo, kind)
    """the per-field loop block template: ``name, _, pack, _ = fields[i]`` + call"""
    want = 'generate_code_for_loop_%s' % kind
    for t in repo.templates():
        if t.func.qual.endswith(want) and t.tree is not None:
            body = [s for s in t.tree.body]
            if len(body) == 2 and isinstance(body[0], ast.Assign) and isinstance(body[0].targets[0], ast.Tuple):
                tgt = body[0].targets[0]
                names = [x.id for x in tgt.elts if isinstance(x, ast.Name)]
                s = body[1]
                c = s.value if isinstance(s, (ast.Expr, ast.Assign)) else None
                if len(names) == 4 and isinstance(c, ast.Call) and isinstance(c.func, ast.Name) and c.func.id in names:
                    return dict(template=t, assign=body[0], stmt=s, call=c, names=names,
                                callee_pos=names.index(c.func.id), name_pos=names.index(nv) if nv in names else None)
            comp_bind = [n for n in ast.walk(t.tree) if isinstance(n, (ast.ListComp, ast.GeneratorExp, ast.SetComp)) and isinstance(n.elt, ast.Call)
                         and any(isinstance(x, ast.Name) and x.id == nv for g in n.generators for x in ast.walk(g.target))]
            if comp_bind and rule == 'R7-name-binding':
                ctx.violation(rule, t.func, 'loop block template at line %d: %s' % (t.lineno, unparse(comp_bind[0])[:100]),
                              'the fields of a run are packed / parsed inside a comprehension that binds %s: a comprehension has its own scope, so the handlers of the generated driver still see the %s of an earlier block (or none at all) and the PacketError names the wrong field' % (nv, nv),
                              t.lineno, witness=True)
                return None
            ctx.undecided(rule, t.func, 'loop block template at line %d' % t.lineno, 'shape not recognised: %s' % t.holed.strip()[:120], t.lineno)
            return None
    # the two per-field generators merged / the templates kept in named constants: the loop block of
    # a kind is the template  ``<4 names> = fields[i]`` + one call of one of those names, which for
    # unpack assigns the cursor and for pack does not
    cands = []
    for t in repo.templates():
        if t.tree is None:
            continue
        body = [s for s in t.tree.body]
        if len(body) == 2 and isinstance(body[0], ast.Assign) and isinstance(body[0].targets[0], ast.Tuple):
            tgt = body[0].targets[0]
            names = [x.id for x in tgt.elts if isinstance(x, ast.Name)]
            s = body[1]
            c = s.value if isinstance(s, (ast.Expr, ast.Assign)) else None
            if len(names) == 4 and isinstance(c, ast.Call) and isinstance(c.func, ast.Name) and c.func.id in names:
                is_unpack = isinstance(s, ast.Assign) or any(k.arg in ('raw', 'offset') for k in c.keywords)
                if is_unpack == (kind == 'unpack'):
                    cands.append(dict(template=t, assign=body[0], stmt=s, call=c, names=names,
                                      callee_pos=names.index(c.func.id), name_pos=names.index(nv) if nv in names else None))
    if len(cands) == 1:
        return cands[0]
    ctx.undecided(rule, ('bisturi/codegen.py', want), 'loop block template', 'template not found' if not cands else '%d candidate loop block templates' % len(cands))
    return None


def loop_generators(repo):
    """the functions of the code generator that own the per-field loop block templates:
    [(FuncInfo, [kinds it serves])] -- two functions with one kind each on the pristine tree, one
    function serving both kinds when the two were merged"""
    owners = {}
    for kind in ('pack', 'unpack'):
        class _Q:           # a throw-away context: template_loop_shape reports "not found" through it
            def undecided(self, *a, **k):
                return None

            def violation(self, *a, **k):
                return None
        sh = template_loop_shape(_Q(), 'x', repo, kind)
        if sh is not None:
            f = sh['template'].func
            # a template seen through an expanded helper belongs to the function that holds the text
            owners.setdefault(f.id, (f, []))[1].append(kind)
        else:
            # no block of the expected shape: the generator is still the method of that name
            cg = repo.classes.get('CodeGenerator')
            f = cg.methods.get('generate_code_for_loop_%s' % kind) if cg is not None else None
            if f is not None:
                owners.setdefault(f.id, (f, []))[1].append(kind)
    return list(owners.values())


def handler_name_var(d):
    """the variable the handlers report as the failing field's name"""
    if d.try_node is None:
        return 'name'
    for h in d.try_node.handlers:
        for n in ast.walk(h):
            if isinstance(n, ast.Call) and call_name(n) == 'PacketError' and len(n.args) >= 2 and isinstance(n.args[1], ast.Name):
                return n.args[1].id
    return 'name'


def fields_tuple_layout(repo):
    """positions of (name, field, pack, unpack) in the tuples built by
    lookup_pack_unpack_methods -> dict role -> index"""
    b = repo.cls('PacketClassBuilder').methods.get('lookup_pack_unpack_methods')
    if b is None:
        raise Undecided('anchor PacketClassBuilder.lookup_pack_unpack_methods not found')
    for n in ast.walk(b.node):
        if isinstance(n, ast.ListComp) and isinstance(n.elt, ast.Tuple) and len(n.elt.elts) == 4:
            tgt = n.generators[0].target
            if isinstance(tgt, ast.Tuple) and len(tgt.elts) == 2 and all(isinstance(x, ast.Name) for x in tgt.elts):
                nm, fld = tgt.elts[0].id, tgt.elts[1].id
                roles = {}
                for i, e in enumerate(n.elt.elts):
                    if isinstance(e, ast.Name) and e.id == nm:
                        roles['name'] = i
                    elif isinstance(e, ast.Name) and e.id == fld:
                        roles['field'] = i
                    elif isinstance(e, ast.Attribute) and isinstance(e.value, ast.Name) and e.value.id == fld:
                        roles[e.attr] = i
                if set(roles) == {'name', 'field', 'pack', 'unpack'}:
                    _LAYOUT.update(roles)
                    return roles
    raise Undecided('cannot read the (name, field, pack, unpack) tuple layout from lookup_pack_unpack_methods')


def check_call_signature(ctx, rule, d, shape, layout, where, label):
    """the per-field call: right tuple slot, packet / buffer / cursor arguments, **k, cursor update"""
    c, s = shape['call'], shape['stmt']
    st = '%s: %s' % (label, stmt_text(s))
    ok = True
    role = d.kind
    if shape['callee_pos'] != layout[role]:
        ok = ctx.violation(rule, where, st, 'calls tuple slot %d, but the %s method is at slot %d of the get_fields() tuples' % (shape['callee_pos'], role, layout[role]), s.lineno)
    if shape['name_pos'] != layout['name']:
        ok = ctx.violation(rule, where, st, 'the variable "name" is bound to tuple slot %s, but the field name is slot %d' % (shape['name_pos'], layout['name']), s.lineno)
    kw = {k.arg: k.value for k in c.keywords}
    pos = list(c.args)
    params = ['pkt', 'raw', 'offset'] if role == 'unpack' else ['pkt', 'fragments']
    for p, a in zip(params, pos):
        kw.setdefault(p, a)
    pktvar = d.pkt
    if 'pkt' not in kw or not (isinstance(kw['pkt'], ast.Name) and kw['pkt'].id == pktvar):
        ok = ctx.violation(rule, where, st, 'pkt argument is %s, expected the packet being processed' % (canon(kw['pkt']) if 'pkt' in kw else 'missing'), s.lineno)
    if role == 'unpack':
        if 'raw' not in kw or canon(kw['raw']) != 'raw':
            ok = ctx.violation(rule, where, st, 'raw argument is %s, expected the input buffer unchanged' % (canon(kw['raw']) if 'raw' in kw else 'missing'), s.lineno)
        if 'offset' not in kw or canon(kw['offset']) != 'offset':
            ok = ctx.violation(rule, where, st, 'offset argument is %s, expected the current cursor' % (canon(kw['offset']) if 'offset' in kw else 'missing'), s.lineno)
        if not (isinstance(s, ast.Assign) and len(s.targets) == 1 and isinstance(s.targets[0], ast.Name) and s.targets[0].id == 'offset'):
            ok = ctx.violation(rule, where, st, 'the value returned by unpack is not assigned to the cursor variable offset', s.lineno)
    else:
        if 'fragments' not in kw or canon(kw['fragments']) != 'fragments':
            ok = ctx.violation(rule, where, st, 'fragments argument is %s, expected the output buffer unchanged' % (canon(kw['fragments']) if 'fragments' in kw else 'missing'), s.lineno)
    if None not in kw or canon(kw[None]) != 'k':
        ok = ctx.violation(rule, where, st, 'the keyword context **k is not passed on', s.lineno)
    if ok:
        ctx.holds(rule, where, st, 'slot %d, (pkt, %s, **k)%s' % (layout[role], 'raw, offset' if role == 'unpack' else 'fragments', ', cursor := result' if role == 'unpack' else ''), s.lineno)
    return ok


# ----------------------------------------------------------- innermost-pkt-pos

def check_innermost(ctx, rule, d):
    """``k['innermost-pkt-pos'] = <entry cursor>`` before the first field call"""
    if d.origin == 'generic':
        return report_generic(ctx, rule, d)
    w = d.where
    found = None
    for s in d.pre:
        if isinstance(s, ast.Assign) and len(s.targets) == 1 and isinstance(s.targets[0], ast.Subscript):
            t = s.targets[0]
            if isinstance(t.value, ast.Name) and t.value.id == 'k' and isinstance(t.slice, ast.Constant) and t.slice.value == 'innermost-pkt-pos':
                found = s
    if found is None:
        # maybe assigned inside the try or after the fields
        late = [s for s in ast.walk(d.node) if isinstance(s, ast.Assign) and isinstance(s.targets[0], ast.Subscript)
                and isinstance(s.targets[0].slice, ast.Constant) and s.targets[0].slice.value == 'innermost-pkt-pos']
        if late:
            ctx.violation(rule, w, '%s: %s' % (d.label, stmt_text(late[0])), "k['innermost-pkt-pos'] is not set before the try that runs the fields", late[0].lineno)
        else:
            ctx.violation(rule, w, d.label, "k['innermost-pkt-pos'] is never refreshed on entry: nested packets would position relative to the outer packet", d.node.lineno)
        return
    st = '%s: %s' % (d.label, stmt_text(found))
    if canon(found.value) != d.cursor:
        ctx.violation(rule, w, st, 'innermost-pkt-pos is set to %s, expected the entry cursor %s' % (canon(found.value), d.cursor), found.lineno)
        return
    # the cursor must not have been modified before
    for s in d.pre[:d.pre.index(found)]:
        for n in ast.walk(s):
            if isinstance(n, (ast.Assign, ast.AugAssign)):
                tgts = n.targets if isinstance(n, ast.Assign) else [n.target]
                for t in tgts:
                    if canon(t) == d.cursor:
                        ctx.violation(rule, w, st, 'the cursor is modified (%s) before innermost-pkt-pos is taken' % stmt_text(n), n.lineno)
                        return
    # k is the driver's own **k dict (fresh per call)
    if d.node.args.kwarg is None or d.node.args.kwarg.arg != 'k':
        ctx.undecided(rule, w, st, 'k is not the **k dict of the driver', found.lineno)
        return
    ctx.holds(rule, w, st, "entry cursor recorded in the driver's own **k before any field runs", found.lineno)


# ------------------------------------------------------------------ sync hooks

def sync_sites(d):
    """statements of the driver that run descriptor sync hooks, with position class"""
    out = []
    getter = 'get_sync_before_pack_methods' if d.kind == 'pack' else 'get_sync_after_unpack_methods'
    other = 'get_sync_after_unpack_methods' if d.kind == 'pack' else 'get_sync_before_pack_methods'

    def scan(stmts, where):
        for s in stmts:
            if d.origin == 'template' and is_hole(s, HOLE_SYNC):
                out.append((where, s, getter))
            else:
                src = unparse(s)
                if getter in src:
                    out.append((where, s, getter))
                elif other in src:
                    out.append((where, s, other))

    scan(d.pre, 'pre')
    if d.try_node is not None:
        # position inside the try relative to the field calls
        fc = field_calls(d)
        first = d.try_node.body.index(fc[0]) if fc else len(d.try_node.body)
        last = d.try_node.body.index(fc[-1]) if fc else -1
        scan(d.try_node.body[:first], 'try-before-fields')
        scan(d.try_node.body[last + 1:], 'try-after-fields')
        for h in d.try_node.handlers:
            scan(h.body, 'handler')
        scan(d.try_node.finalbody, 'finally')
        scan(d.try_node.orelse, 'try-else')
    scan(d.post, 'post')
    return out


def check_hooks_order(ctx, rule, d):
    """pack: every before-pack hook runs before the first field pack;
    unpack: after-unpack hooks run after the last field"""
    if d.origin == 'generic':
        return report_generic(ctx, rule, d)
    w = d.where
    sites = sync_sites(d)
    want_getter = 'get_sync_before_pack_methods' if d.kind == 'pack' else 'get_sync_after_unpack_methods'
    mine = [x for x in sites if x[2] == want_getter]
    wrong = [x for x in sites if x[2] != want_getter]
    for pos, s, g in wrong:
        ctx.violation(rule, w, '%s: %s' % (d.label, stmt_text(s)), 'the %s driver runs the hooks of the other phase (%s)' % (d.kind, g), s.lineno)
    if not mine:
        ctx.violation(rule, w, d.label, 'the driver never runs the %s hooks: described fields would be %s' % (
            want_getter, 'packed with a stale value' if d.kind == 'pack' else 'left unsynchronised'), d.node.lineno)
        return
    good_pos = ('pre', 'try-before-fields') if d.kind == 'pack' else ('post', 'try-after-fields', 'try-else')
    for pos, s, g in mine:
        st = '%s: %s' % (d.label, stmt_text(s))
        if pos in good_pos:
            ctx.holds(rule, w, st, 'hooks run %s the fields (%s)' % ('before' if d.kind == 'pack' else 'after', pos), s.lineno)
        else:
            ctx.violation(rule, w, st, 'hooks run at %s: %s' % (pos, 'after fields were already packed' if d.kind == 'pack' else 'before the fields are unpacked / not on the success path'), s.lineno)
    # generic: every hook of the list is called with the packet
    for pos, s, g in mine:
        if d.origin == 'generic':
            comp = [n for n in ast.walk(s) if isinstance(n, (ast.ListComp, ast.GeneratorExp, ast.For))]
            okc = False
            for n in comp:
                if isinstance(n, ast.For):
                    it, body_calls, var = n.iter, [c for c in ast.walk(n) if isinstance(c, ast.Call)], n.target
                else:
                    it, body_calls, var = n.generators[0].iter, [n.elt] if isinstance(n.elt, ast.Call) else [], n.generators[0].target
                    if n.generators[0].ifs or len(n.generators) != 1:
                        continue
                if g in unparse(it) and isinstance(var, ast.Name):
                    for c in body_calls:
                        if isinstance(c, ast.Call) and isinstance(c.func, ast.Name) and c.func.id == var.id and len(c.args) == 1 \
                                and isinstance(c.args[0], ast.Name) and c.args[0].id == d.pkt:
                            okc = True
            st = '%s: %s' % (d.label, stmt_text(s))
            if okc:
                ctx.holds(rule, w, st, 'every hook of %s() is called with the packet' % g, s.lineno)
            else:
                ctx.undecided(rule, w, st, 'cannot see that every hook of %s() is called with the packet' % g, s.lineno)


def check_hooks_wrapped(ctx, rule, d):
    """(C12-f) everything that can raise inside a driver is inside the try"""
    w = d.where
    want_getter = 'get_sync_before_pack_methods' if d.kind == 'pack' else 'get_sync_after_unpack_methods'
    for pos, s, g in sync_sites(d):
        if g != want_getter:
            continue
        st = '%s: %s' % (d.label, stmt_text(s))
        if pos in ('pre', 'post', 'try-else', 'finally', 'handler'):
            ctx.violation(rule, w, st, 'descriptor sync hooks run outside the try: a failing hook (user function, len() of a non-sized value) escapes as a bare exception instead of PacketError', s.lineno,
                          key='%s: descriptor sync hooks run outside the try' % d.label)
        else:
            ctx.holds(rule, w, st, 'sync hooks run inside the try', s.lineno)


def check_return(ctx, rule, d):
    if d.origin == 'generic':
        return report_generic(ctx, rule, d)
    w = d.where
    rets = [s for s in d.post if isinstance(s, ast.Return)]
    want = 'offset' if d.kind == 'unpack' else 'fragments'
    all_rets = [s for s in ast.walk(d.node) if isinstance(s, ast.Return)]
    if len(all_rets) != 1 or not rets:
        ctx.violation(rule, w, '%s: returns %s' % (d.label, [stmt_text(r) for r in all_rets]), 'the driver must return exactly once, after the try', d.node.lineno)
        return
    r = rets[0]
    if r.value is None or canon(r.value) != want:
        ctx.violation(rule, w, '%s: %s' % (d.label, stmt_text(r)), 'returns %s, expected %s' % (canon(r.value) if r.value else 'None', want), r.lineno)
    else:
        ctx.holds(rule, w, '%s: %s' % (d.label, stmt_text(r)), 'returns the %s' % ('end cursor' if d.kind == 'unpack' else 'output buffer'), r.lineno)


def check_cursor_discipline(ctx, rule, d, repo):
    """(C12-b) in unpack drivers the cursor variable is assigned only from a
    field's return value, after the field returned; name is bound before each call"""
    w = d.where
    if d.kind != 'unpack' or d.try_node is None:
        return
    if d.origin == 'generic':
        for s in ast.walk(d.try_node):
            if isinstance(s, (ast.Assign, ast.AugAssign)):
                tg = s.targets if isinstance(s, ast.Assign) else [s.target]
                for t in tg:
                    if isinstance(t, ast.Name) and t.id == 'offset':
                        v = s.value
                        if isinstance(s, ast.Assign) and isinstance(v, ast.Call) and isinstance(v.func, ast.Name):
                            ctx.holds(rule, w, '%s: %s' % (d.label, stmt_text(s)), 'cursor advances only with the value a field returned', s.lineno)
                        else:
                            ctx.violation(rule, w, '%s: %s' % (d.label, stmt_text(s)), 'cursor is modified other than by a field return value: at failure it no longer marks the start of the failing field', s.lineno)
    else:
        # struct block template: offset := next_offset after the StructUnpack statement
        for t in repo.templates():
            if t.tree is None or not t.func.qual.endswith('with_struct_code'):
                continue
            body = t.tree.body
            idx_dec = [i for i, s in enumerate(body) if 'StructUnpack' in unparse(s) or 'raw[' in unparse(s)]
            idx_off = [i for i, s in enumerate(body) if isinstance(s, (ast.Assign, ast.AugAssign)) and any(
                isinstance(x, ast.Name) and x.id == 'offset' for x in (s.targets if isinstance(s, ast.Assign) else [s.target]))]
            nv = handler_name_var(d)
            idx_name = [i for i, s in enumerate(body) if isinstance(s, ast.Assign) and isinstance(s.targets[0], ast.Name) and s.targets[0].id == nv]
            if not idx_dec:
                continue
            st = 'struct unpack block: %s' % '; '.join(stmt_text(s) for s in body)
            if not idx_off:
                ctx.violation(rule, t.func, st, 'the vectorised block never advances the cursor', t.lineno)
            elif min(idx_off) < max(idx_dec):
                ctx.violation(rule, t.func, st, 'the cursor is advanced before the run is decoded: a failure reports the end of the run, not its start', t.lineno)
            elif not idx_name or min(idx_name) > min(idx_dec):
                ctx.violation(rule, t.func, st, 'the variable "name" is not bound before the run is decoded', t.lineno)
            else:
                ctx.holds(rule, t.func, st, 'name bound first, cursor advanced only after decoding', t.lineno)
