"""Normal form of the analysed program: private helpers are inlined at their call sites.

Why: the rules speak about what a strategy / driver / constructor *does* (which slice it
stores, which guard dominates the store, which call comes first).  Whether that work is
written in the body or in a helper the body calls ("extract method") does not change the
behaviour, so it must not change the verdict.  Before any rule runs, every call to a
*helper* is therefore expanded in place -- on the syntax tree, nothing is executed:

* a helper is a module-level function or a method that
    - has a package-unique name (defined exactly once in bisturi/*.py, not a dunder),
    - is only ever *called* (never used as a value, never named in a string constant:
      method values installed by ``_compile`` and ``getattr(x, 'name')`` stay dynamic),
    - is not a generator, has no decorators other than ``staticmethod``, no ``*args`` /
      ``**kw``, no ``global`` / ``nonlocal`` / nested ``def`` / ``class``, no ``super()``,
      does not call itself, and every ``return`` in it is outside loops / try / with;
* a call site is ``h(...)`` for a module function (same module or imported by name), or
  ``self.h(...)`` / ``Class.h(...)`` inside a method of a class related to the defining one,
  at a position of the statement that is evaluated unconditionally and before any other
  effectful sub-expression (so hoisting keeps the order of evaluation).

The expansion binds the parameters (simple arguments are substituted, others are assigned
to fresh locals in argument order), renames the helper's locals apart from the caller's,
and eliminates ``return`` into structured ``if/else`` that assign the call's value.  The
definitions themselves are kept (rules that look at a helper by role still find it).

The transformation preserves behaviour by construction; the regression corpus under
/verif/benign (helper extractions produced independently) is the test that it lets the
rules see through them.  Anything that does not fit the conditions above is simply not
expanded (the call stays opaque and the rules treat it as such).

Besides helper expansion the normal form removes a few *spellings* (each ``lower_*`` function
states its side conditions and leaves the code untouched when one of them fails; all of them are
rewrites of the syntax tree, nothing is executed):

  lower_combinators / lower_index_loops / lower_suppress      (rounds 4-5)
  lower_record_entries     get_fields() entries as a namedtuple                    (round 6)
  lower_callable_records   closures written as classes with __init__ / __call__    (round 7)
  lower_value_objects      immutable namedtuple subclasses kept in one attribute   (round 7)
  lower_module_records     R(...) / R(*t) of a module-level namedtuple, e.field    (round 7)
  lower_getters            attrgetter / itemgetter / one-expression key functions   (round 7)
  lower_derived_maps       a dict attribute caching k + len(C[k]) next to C        (round 7)
  lower_compiled_aliases   self.A = self.X.m after self.X._compile(...)            (round 7)
  lower_local_method_aliases  x = self.m (or <parameter>.m of a utility class); x(...)  (round 8)
  lower_merged_handlers    except Exception: ... if isinstance(e, K): A else: B     (round 8)
"""
import ast
import copy
import itertools

MAX_BODY = 250
MAX_DEPTH = 5

# Functions the rules know by role and analyse as units of their own (their call sites are
# obligations of the rules: "Optional._compile routes `when` through the condition normaliser",
# "generate_code hands every run to a block generator", ...).  They are never expanded.  The
# table only limits how much is expanded -- it is not a rule and cannot raise an alarm; a
# function that is renamed or removed is reported by the rule that anchors on it as
# ANALYSIS-ERROR (anchor not found), never as a violation.
ANCHORS = {
    # codegen.py: one template per generator, checked generator by generator (C03/C12/C15)
    'generate_code_for_fixed_fields', 'generate_code_for_fixed_fields_with_struct_code',
    'generate_code_for_fixed_fields_without_struct_code', 'generate_code_for_loop_pack',
    'generate_code_for_loop_unpack', 'generate_code_for_variable_fields',
    'generate_unrolled_code_for_descriptor_sync',
    # declaration / compile-time normalisers and builders (C08/C09/C17/C19)
    'normalize_count_condition_into_a_callable', 'normalize_raw_condition_into_a_callable',
    'compile_expr_into_callable', '_defer_operations_of', '_lets_find_a_nice_default',
    '_compile_impl', 'specialize_fields', 'create_field_name_from_subpacket_name', 'as_prototype', 'at', 'describe',
    # fragments / regexps (C11/C18)
    'tobytes', 'to_bytes', 'as_list', 'assemble_regexp', 'as_regular_expression', 'as_regular_expression_impl',
    'anything_like', 'filter_like', 'add_parent_field_and_packet',
    # util.SeekableFile
    '_seek', '_slice', '_calculate_file_length', '_string_as_seekable_file',
}

PURE_CALLS = {'len', 'isinstance', 'callable', 'hasattr', 'type', 'id', 'bool', 'getattr'}


def _names(node, ctxs=(ast.Load, ast.Store, ast.Del)):
    return {n.id for n in ast.walk(node) if isinstance(n, ast.Name) and isinstance(n.ctx, ctxs)}


def _comp_locals(node):
    out = set()
    for n in ast.walk(node):
        if isinstance(n, (ast.ListComp, ast.SetComp, ast.DictComp, ast.GeneratorExp)):
            for g in n.generators:
                out |= _names(g.target, (ast.Store,))
        elif isinstance(n, ast.Lambda):
            a = n.args
            out |= {x.arg for x in a.posonlyargs + a.args + a.kwonlyargs}
            if a.vararg: out.add(a.vararg.arg)
            if a.kwarg: out.add(a.kwarg.arg)
    return out


def _assigned(func):
    out = set()
    for n in ast.walk(func):
        if isinstance(n, ast.Name) and isinstance(n.ctx, (ast.Store, ast.Del)):
            out.add(n.id)
        elif isinstance(n, ast.ExceptHandler) and n.name:
            out.add(n.name)
        elif isinstance(n, (ast.Import, ast.ImportFrom)):
            for a in n.names:
                out.add((a.asname or a.name).split('.')[0])
    return out


def _params(func):
    a = func.args
    return [x.arg for x in a.posonlyargs + a.args + a.kwonlyargs]


def _always_ends(stmts):
    """the statement list cannot complete normally"""
    if not stmts:
        return False
    s = stmts[-1]
    if isinstance(s, (ast.Return, ast.Raise, ast.Continue, ast.Break)):
        return True
    if isinstance(s, ast.If):
        return _always_ends(s.body) and _always_ends(s.orelse)
    return False


def _has_return(node):
    for n in ast.walk(node):
        if isinstance(n, ast.Return):
            return True
    return False


class NotInlinable(Exception):
    pass


def _check_returns(stmts):
    """returns only at statement-list level, inside if/else, or inside a try / except (without
    else / finally) that is the last statement of its block"""
    for i, s in enumerate(stmts):
        if isinstance(s, ast.Return):
            continue
        if isinstance(s, ast.If):
            _check_returns(s.body)
            _check_returns(s.orelse)
        elif isinstance(s, ast.Try) and _has_return(s) and not s.orelse and not s.finalbody and i == len(stmts) - 1:
            _check_returns(s.body)
            for h in s.handlers:
                _check_returns(h.body)
        elif isinstance(s, ast.Try) and _has_return(s) and not s.orelse and not s.finalbody and not any(_has_return(x) for x in s.body) \
                and all(_always_ends(h.body) for h in s.handlers):
            # "try: A  except E: return x" followed by more statements: those become the else clause
            for h in s.handlers:
                _check_returns(h.body)
        elif _has_return(s):
            raise NotInlinable('return inside %s' % type(s).__name__)


def _eliminate(stmts, sink):
    """rewrite a helper body so that instead of returning it feeds ``sink(value)`` -> [stmt];
    the produced list completes normally exactly where the helper returned (or raises)."""
    out = []
    for i, s in enumerate(stmts):
        if isinstance(s, ast.Return):
            return out + sink(s.value, s)
        if isinstance(s, ast.If) and (_has_return(s)):
            rest = stmts[i + 1:]
            body = list(s.body) + ([] if _always_ends(s.body) else copy.deepcopy(rest))
            orelse = list(s.orelse) + ([] if _always_ends(s.orelse) else copy.deepcopy(rest))
            new = ast.If(test=s.test, body=_eliminate(body, sink) or [ast.Pass()], orelse=_eliminate(orelse, sink))
            ast.copy_location(new, s)
            return out + [new]
        if isinstance(s, ast.Try) and _has_return(s) and i < len(stmts) - 1:
            # handlers leave the helper, the body does not: what follows the try runs only when no
            # handler did, i.e. it is the else clause (exceptions in it are not caught, as before)
            new = ast.Try(body=list(s.body),
                          handlers=[ast.copy_location(ast.ExceptHandler(type=h.type, name=h.name, body=_eliminate(list(h.body), sink) or [ast.Pass()]), h) for h in s.handlers],
                          orelse=_eliminate(list(stmts[i + 1:]), sink), finalbody=[])
            ast.copy_location(new, s)
            return out + [new]
        if isinstance(s, ast.Try) and _has_return(s):
            # last statement of the block (checked): each arm feeds the sink where it returned;
            # the returned expression is still evaluated inside the try, as before
            new = ast.Try(body=_eliminate(list(s.body), sink) or [ast.Pass()],
                          handlers=[ast.copy_location(ast.ExceptHandler(type=h.type, name=h.name, body=_eliminate(list(h.body), sink) or [ast.Pass()]), h) for h in s.handlers],
                          orelse=[], finalbody=[])
            ast.copy_location(new, s)
            return out + [new]
        out.append(s)
        if isinstance(s, ast.Raise):
            return out
    return out + sink(None, stmts[-1] if stmts else None)


class _Rename(ast.NodeTransformer):
    def __init__(self, mapping):
        self.m = mapping      # name -> expr (ast) or str
        self.shadow = []

    def visit_Name(self, n):
        if any(n.id in s for s in self.shadow):
            return n
        r = self.m.get(n.id)
        if r is None:
            return n
        if isinstance(r, str):
            return ast.copy_location(ast.Name(id=r, ctx=n.ctx), n)
        if isinstance(n.ctx, ast.Load):
            return ast.copy_location(copy.deepcopy(r), n)
        return n

    def visit_ExceptHandler(self, n):
        if n.name and isinstance(self.m.get(n.name), str):
            n.name = self.m[n.name]
        self.generic_visit(n)
        return n

    def _binder(self, n, names):
        hidden = {x for x in names if not isinstance(self.m.get(x), str)}
        # names bound by a comprehension / lambda shadow substituted parameters; renamed
        # locals cannot be comprehension-bound (they are function locals), so only hide
        self.shadow.append(hidden & set(self.m))
        self.generic_visit(n)
        self.shadow.pop()
        return n

    def visit_Lambda(self, n):
        a = n.args
        names = {x.arg for x in a.posonlyargs + a.args + a.kwonlyargs}
        return self._binder(n, names)

    def _comp(self, n):
        names = set()
        for g in n.generators:
            names |= _names(g.target, (ast.Store,))
        return self._binder(n, names)

    visit_ListComp = visit_SetComp = visit_DictComp = visit_GeneratorExp = _comp


def _simple_arg(e):
    """an argument that can be substituted for the parameter: evaluating it has no effect
    and its value cannot change while the helper runs (names, constants, self.attr chains)"""
    if isinstance(e, ast.Constant):
        return True
    if isinstance(e, ast.Name):
        return True
    if isinstance(e, ast.Attribute):
        return _simple_arg(e.value)
    return False


class Helper:
    closure = False
    generator = False

    def __init__(self, module, node, cls, static):
        self.module, self.node, self.cls, self.static = module, node, cls, static
        self.name = node.name


_PURE_EXPR_CALLS = {'len', 'isinstance', 'min', 'max', 'int', 'bool', 'getattr', 'hasattr', 'callable', 'type', 'abs', 'divmod', 'ord', 'chr'}


def _pure_expr(e):
    for n in ast.walk(e):
        if isinstance(n, ast.Call):
            if not (isinstance(n.func, ast.Name) and n.func.id in _PURE_EXPR_CALLS):
                return False
        elif isinstance(n, (ast.Lambda, ast.ListComp, ast.SetComp, ast.DictComp, ast.GeneratorExp, ast.NamedExpr, ast.Await, ast.Yield, ast.YieldFrom, ast.Starred)):
            return False
    return True


def pure_helper(h):
    """assigns locals and returns: no stores into objects, no calls but pure builtins"""
    for n in ast.walk(h.node):
        if isinstance(n, (ast.Attribute, ast.Subscript)) and isinstance(n.ctx, (ast.Store, ast.Del)):
            return False
        if isinstance(n, ast.Call) and not (isinstance(n.func, ast.Name) and n.func.id in _PURE_EXPR_CALLS):
            return False
        if isinstance(n, (ast.Raise, ast.Try, ast.With, ast.Delete, ast.Import, ast.ImportFrom)):
            return False
    return True


def expression_helper(h):
    """the returned expression if the helper is ``return <pure expression>`` and nothing else"""
    body = h.node.body
    if body and isinstance(body[0], ast.Expr) and isinstance(body[0].value, ast.Constant) and isinstance(body[0].value.value, str):
        body = body[1:]
    if len(body) == 1 and isinstance(body[0], ast.Return) and body[0].value is not None and _pure_expr(body[0].value):
        return body[0].value
    return None


_MODULE_CONSTANTS = {}


def module_constants(repo, module):
    """names bound exactly once, at module level, by a plain assignment (a default that names
    one of them means the same object whenever the function is called)"""
    _MODULE_CONSTANTS = repo.__dict__.setdefault('_module_constants', {})
    key = module
    if key not in _MODULE_CONSTANTS:
        tree = repo.modules[module]['tree']
        stores = {}
        for n in ast.walk(tree):
            if isinstance(n, ast.Name) and isinstance(n.ctx, (ast.Store, ast.Del)):
                stores[n.id] = stores.get(n.id, 0) + 1
        top = {st.targets[0].id for st in tree.body if isinstance(st, ast.Assign) and len(st.targets) == 1 and isinstance(st.targets[0], ast.Name)}
        globs = {nm for n in ast.walk(tree) if isinstance(n, ast.Global) for nm in n.names}
        _MODULE_CONSTANTS[key] = {n for n in top if stores.get(n) == 1 and n not in globs}
    return _MODULE_CONSTANTS[key]


def _in_comprehension(stmt, call):
    for n in ast.walk(stmt):
        if isinstance(n, (ast.ListComp, ast.SetComp, ast.DictComp, ast.GeneratorExp, ast.Lambda)) and any(x is call for x in ast.walk(n)):
            return True
    return False


def makes_closures(node):
    """the function creates closures (lambdas, generator expressions) over its own variables: each
    call binds them anew, so its body may not be copied into a loop of a caller -- there the
    closures of all passes would share the caller's variable"""
    a = node.args
    own = _assigned(node) | set(_params(node)) | ({a.vararg.arg} if a.vararg else set()) | ({a.kwarg.arg} if a.kwarg else set())
    for n in ast.walk(node):
        if isinstance(n, (ast.Lambda, ast.GeneratorExp)):
            inner = {x.arg for x in n.args.args} if isinstance(n, ast.Lambda) else {x.id for g_ in n.generators for x in ast.walk(g_.target) if isinstance(x, ast.Name)}
            used = {x.id for x in ast.walk(n.body if isinstance(n, ast.Lambda) else n) if isinstance(x, ast.Name) and isinstance(x.ctx, ast.Load)}
            if (used - inner) & own:
                return True
    return False


def find_helpers(repo):
    defs = {}          # bare name -> [(module, FunctionDef, ClassInfo|None, nested?)]
    for fi in repo.functions.values():
        nested = ('.' in fi.qual) and not (fi.cls is not None and fi.qual == fi.cls.qual + '.' + fi.node.name)
        defs.setdefault(fi.node.name, []).append((fi.module, fi.node, fi.cls, nested))
    # every use of a name that is not the callee of a call lets the function escape
    escaped = set()
    for mod in repo.modules.values():
        callee_ids = set()
        for n in ast.walk(mod['tree']):
            if isinstance(n, ast.Call):
                callee_ids.add(id(n.func))
        for n in ast.walk(mod['tree']):
            if isinstance(n, ast.Name) and isinstance(n.ctx, ast.Load) and id(n) not in callee_ids:
                escaped.add(n.id)
            elif isinstance(n, ast.Attribute) and id(n) not in callee_ids:
                escaped.add(n.attr)
            elif isinstance(n, ast.Constant) and isinstance(n.value, str):
                escaped.add(n.value)
            elif isinstance(n, ast.alias):
                pass
    helpers = {}
    for name, ds in defs.items():
        if len(ds) != 1 or name in escaped or name in ANCHORS or (name.startswith('__') and name.endswith('__')):
            continue
        module, node, cls, nested = ds[0]
        if nested or not isinstance(node, ast.FunctionDef):
            continue
        static = False
        ok = True
        for d in node.decorator_list:
            if isinstance(d, ast.Name) and d.id == 'staticmethod':
                static = True
            else:
                ok = False
        a = node.args
        if not ok or a.vararg:
            continue
        if any(not (isinstance(dv, ast.Constant) or (isinstance(dv, ast.Name) and dv.id in module_constants(repo, module)))
               for dv in list(a.defaults) + [k for k in a.kw_defaults if k is not None]):
            continue
        body = node.body
        if body and isinstance(body[0], ast.Expr) and isinstance(body[0].value, ast.Constant) and isinstance(body[0].value.value, str):
            body = body[1:]
        if not body or len(list(ast.walk(node))) > 8000 or sum(1 for n in ast.walk(node) if isinstance(n, ast.stmt)) > MAX_BODY:
            continue
        bad = False
        is_gen = any(isinstance(n, (ast.Yield, ast.YieldFrom)) for n in ast.walk(node))
        if is_gen and not generator_helper_ok(node):
            continue
        for n in ast.walk(node):
            if n is node:
                continue
            if isinstance(n, (ast.Await, ast.Global, ast.Nonlocal, ast.FunctionDef,
                              ast.AsyncFunctionDef, ast.ClassDef, ast.NamedExpr)) or (isinstance(n, (ast.Yield, ast.YieldFrom)) and not is_gen):
                bad = True
            elif isinstance(n, ast.Name) and n.id in ('super', '__class__', 'locals', 'vars', 'globals'):
                bad = True
            elif isinstance(n, ast.Call) and isinstance(n.func, ast.Name) and n.func.id in ('eval', 'exec') and len(n.args) < 2:
                bad = True            # runs in the helper's own namespace
            elif isinstance(n, ast.Name) and n.id in ('eval', 'exec') and not any(isinstance(c_, ast.Call) and c_.func is n for c_ in ast.walk(node)):
                bad = True
            elif isinstance(n, ast.Call):
                f = n.func
                if (isinstance(f, ast.Name) and f.id == name) or (isinstance(f, ast.Attribute) and f.attr == name):
                    bad = True        # recursive
        if bad:
            continue
        try:
            _check_returns(body)
        except NotInlinable:
            continue
        if cls is not None and not static and not a.args and not a.posonlyargs:
            continue
        helpers[name] = Helper(module, node, cls, static)
        helpers[name].generator = is_gen
    return helpers


def generator_helper_ok(node):
    """a generator whose only yields are statements ``yield <expr>`` and that has no return value"""
    ys = [n for n in ast.walk(node) if isinstance(n, (ast.Yield, ast.YieldFrom))]
    if not ys or any(isinstance(n, ast.YieldFrom) for n in ys):
        return False
    stmt_yields = {id(n.value) for n in ast.walk(node) if isinstance(n, ast.Expr) and isinstance(n.value, ast.Yield)}
    if any(id(y) not in stmt_yields for y in ys):
        return False
    if any(isinstance(n, ast.Return) for n in ast.walk(node)):
        return False
    for n in ast.walk(node):
        if n is not node and isinstance(n, (ast.FunctionDef, ast.AsyncFunctionDef, ast.ClassDef, ast.Lambda, ast.Global, ast.Nonlocal, ast.Try, ast.With)):
            return False
    return True


class _Site:
    """first call in an expression that can be expanded without changing evaluation order"""

    def __init__(self, is_helper_call):
        self.is_helper_call = is_helper_call
        self.pure = True
        self.found = None

    def scan(self, e):
        if self.found is not None or e is None:
            return
        m = getattr(self, 's_' + type(e).__name__, None)
        if m is not None:
            return m(e)
        if isinstance(e, (ast.Constant, ast.Name)):
            return
        if isinstance(e, (ast.Lambda,)):
            return
        if isinstance(e, (ast.ListComp, ast.SetComp, ast.DictComp, ast.GeneratorExp, ast.Await, ast.Yield,
                          ast.YieldFrom, ast.NamedExpr)):
            self.pure = False
            return
        for f, v in ast.iter_fields(e):
            if isinstance(v, ast.AST):
                self.scan(v)
            elif isinstance(v, list):
                for x in v:
                    if isinstance(x, ast.AST):
                        self.scan(x)

    def s_BoolOp(self, e):
        self.scan(e.values[0])
        if self.found is None and any(isinstance(n, ast.Call) for v in e.values[1:] for n in ast.walk(v)):
            self.pure = False

    def s_IfExp(self, e):
        self.scan(e.test)
        if self.found is None and any(isinstance(n, ast.Call) for v in (e.body, e.orelse) for n in ast.walk(v)):
            self.pure = False

    def s_Call(self, e):
        f = e.func
        pure_before = self.pure          # the call's own arguments are evaluated before it anyway
        if isinstance(f, ast.Attribute):
            self.scan(f.value)
        elif not isinstance(f, ast.Name):
            self.scan(f)
        for a in e.args:
            self.scan(a)
        for k in e.keywords:
            self.scan(k.value)
        if self.found is not None:
            return
        if pure_before and self.is_helper_call(e):
            self.found = e
            return
        if not (isinstance(f, ast.Name) and f.id in PURE_CALLS):
            self.pure = False


class Inliner:
    def __init__(self, repo):
        self.repo = repo
        self.helpers = find_helpers(repo)
        self.counter = itertools.count(1)
        self.expanded = []       # (caller id, helper name, lineno)

    # ------------------------------------------------------------------
    def substitute_expression_helpers(self, fi):
        """a helper that only computes a pure expression of its arguments can be replaced by that
        expression at any position (conditional operands, loop tests, lambdas): evaluation order
        does not matter for it"""
        inl = self

        class T(ast.NodeTransformer):
            def visit_Call(self, n):
                self.generic_visit(n)
                r = inl.resolve(n)
                if r is None or r[0].generator:
                    return n
                h, recv = r
                expr = expression_helper(h)
                if expr is None:
                    return n
                a = h.node.args
                params = [x.arg for x in a.posonlyargs + a.args]
                pos = list(n.args)
                if recv is not None:
                    pos = [recv] + pos
                elif h.cls is not None and not h.static:
                    return n
                if len(pos) > len(params) or a.kwonlyargs or a.kwarg is not None:
                    return n
                bound = dict(zip(params, pos))
                for kw in n.keywords:
                    if kw.arg in bound or kw.arg not in params:
                        return n
                    bound[kw.arg] = kw.value
                defaults = dict(zip(params[len(params) - len(a.defaults):], a.defaults))
                for p_ in params:
                    if p_ not in bound:
                        if p_ not in defaults:
                            return n
                        bound[p_] = defaults[p_]
                if not all(_simple_arg(v) for v in bound.values()):
                    return n
                free = _names(expr, (ast.Load,)) - set(params)
                if free & inl.caller_locals and not h.closure:
                    return n
                if h.module != inl.cur.module and not inl._same_globals(free, h.module):
                    return n
                new = _Rename(dict(bound)).visit(copy.deepcopy(expr))
                for x in ast.walk(new):
                    if not hasattr(x, '_inl'):
                        x._inl = h.name
                inl.expanded.append((inl.cur.id, h.name, getattr(n, 'lineno', 0)))
                return ast.copy_location(new, n)

        fi.node.body = [T().visit(s_) for s_ in fi.node.body]

    def run(self):
        for fi in list(self.repo.functions.values()):
            if not isinstance(fi.node, ast.FunctionDef):
                continue
            self.cur = fi
            self.cur_self = None
            if fi.cls is not None and fi.qual == fi.cls.qual + '.' + fi.node.name:
                a = fi.node.args
                first = (a.posonlyargs + a.args)
                if first and not any(isinstance(d, ast.Name) and d.id == 'staticmethod' for d in fi.node.decorator_list):
                    self.cur_self = first[0].arg
            self.caller_locals = _assigned(fi.node) | set(_params(fi.node))
            self.caller_names = _names(fi.node) | self.caller_locals | _comp_locals(fi.node)
            self.local_helpers = self.find_local_helpers(fi)
            self.substitute_expression_helpers(fi)
            fi.node.body = self.block(fi.node.body, 0)
            ast.fix_missing_locations(fi.node)
        return self

    def find_local_helpers(self, fi):
        """closures defined directly in the function body that are only ever called there"""
        out = {}
        defs = [s for s in fi.node.body if isinstance(s, ast.FunctionDef)]
        if not defs:
            return out
        callee_ids = {id(n.func) for n in ast.walk(fi.node) if isinstance(n, ast.Call)}
        for d in defs:
            name = d.name
            uses = [n for n in ast.walk(fi.node) if isinstance(n, ast.Name) and n.id == name]
            if any(id(n) not in callee_ids or not isinstance(n.ctx, ast.Load) for n in uses):
                continue
            if sum(1 for n in ast.walk(fi.node) if isinstance(n, (ast.FunctionDef, ast.ClassDef)) and n.name == name) != 1:
                continue
            a = d.args
            if d.decorator_list or a.vararg or a.kwarg:
                continue
            if any(not isinstance(dv, ast.Constant) for dv in list(a.defaults) + [k for k in a.kw_defaults if k is not None]):
                continue
            bad = False
            for n in ast.walk(d):
                if n is d:
                    continue
                if isinstance(n, (ast.Yield, ast.YieldFrom, ast.Await, ast.Global, ast.Nonlocal, ast.FunctionDef, ast.AsyncFunctionDef, ast.ClassDef, ast.NamedExpr)):
                    bad = True
                elif isinstance(n, ast.Call) and isinstance(n.func, ast.Name) and n.func.id == name:
                    bad = True
            if bad:
                continue
            try:
                _check_returns(d.body)
            except NotInlinable:
                continue
            h = Helper(fi.module, d, None, False)
            h.closure = True
            out[name] = h
        return out

    def resolve(self, call):
        f = call.func
        h = None
        if isinstance(f, ast.Name) and f.id in getattr(self, 'local_helpers', {}):
            if not self._call_shape_ok(call, self.local_helpers[f.id]):
                return None
            return self.local_helpers[f.id], None
        if isinstance(f, ast.Name):
            h = self.helpers.get(f.id)
            if h is None or h.cls is not None or f.id in self.caller_locals:
                return None
            if h.module != self.cur.module and not self._imported(f.id, h.module):
                return None
            recv = None
        elif isinstance(f, ast.Attribute) and isinstance(f.value, ast.Name):
            h = self.helpers.get(f.attr)
            if h is None or h.cls is None:
                return None
            if f.value.id == self.cur_self and self.cur.cls is not None and f.value.id not in (self.caller_locals - {self.cur_self}):
                if h.cls not in self.repo.mro(self.cur.cls):
                    return None
                recv = None if h.static else f.value
            elif f.value.id in self.repo.classes and f.value.id not in self.repo.dupes and f.value.id not in self.caller_locals:
                if not h.static or h.cls not in self.repo.mro(self.repo.classes[f.value.id]):
                    return None
                recv = None
            elif isinstance(self.cur.node, ast.FunctionDef) and f.value.id in [a.arg for a in self.cur.node.args.args[1:]] and not h.static \
                    and f.value.id not in _assigned(self.cur.node) and not self.repo.is_subclass(h.cls, 'Field') and not self.repo.is_subclass(h.cls, 'Packet'):
                # a parameter (the output buffer handed down to every pack) asked to do a step that only
                # one class of the package defines: the method of that utility class
                recv = f.value
            else:
                return None
        else:
            return None
        if h.node is self.cur.node:
            return None
        if not self._call_shape_ok(call, h):
            return None
        return h, recv

    @staticmethod
    def _call_shape_ok(call, h):
        if any(isinstance(a, ast.Starred) for a in call.args):
            return False
        stars = [k for k in call.keywords if k.arg is None]
        if h.node.args.kwarg is None:
            return not stars
        # helper(..., **k): the call must forward exactly one simple mapping and name no extras
        params = [x.arg for x in h.node.args.posonlyargs + h.node.args.args + h.node.args.kwonlyargs]
        extras = [k for k in call.keywords if k.arg is not None and k.arg not in params]
        if extras:
            # named extras land in the helper's **k: followed when the helper only forwards **k
            # and the extra values are plain names / constants (so they may be written again)
            if _mentions_kwarg_other_than_star(h.node, h.node.args.kwarg.arg) or not all(_simple_arg(k.value) for k in extras):
                return False
        return len(stars) <= 1 and all(isinstance(k.value, ast.Name) for k in stars)

    def _imported(self, name, module):
        tree = self.repo.modules[self.cur.module]['tree']
        for n in tree.body:
            if isinstance(n, ast.ImportFrom) and n.module and n.module.split('.')[-1] == module:
                for a in n.names:
                    if (a.asname or a.name) == name and a.name == name or a.name == '*':
                        return True
        return False

    # ------------------------------------------------------------------
    def block(self, stmts, depth):
        out = []
        for s in stmts:
            out.extend(self.stmt(s, depth))
        return out

    in_loop = 0

    def stmt(self, s, depth):
        # nested blocks first
        for fld in ('body', 'orelse', 'finalbody'):
            b = getattr(s, fld, None)
            if isinstance(b, list) and b and isinstance(b[0], ast.stmt) and not isinstance(s, (ast.FunctionDef, ast.ClassDef, ast.AsyncFunctionDef)):
                loop = isinstance(s, (ast.For, ast.While)) and fld == 'body'
                self.in_loop += loop
                try:
                    setattr(s, fld, self.block(b, depth))
                finally:
                    self.in_loop -= loop
        for h in getattr(s, 'handlers', []) or []:
            h.body = self.block(h.body, depth)
        if isinstance(s, (ast.FunctionDef, ast.ClassDef, ast.AsyncFunctionDef)):
            return [s]
        if depth >= MAX_DEPTH:
            return [s]
        if isinstance(s, ast.For) and isinstance(s.iter, ast.Call):
            r = self.resolve(s.iter)
            if r is not None and r[0].generator:
                try:
                    out = self.expand_generator_loop(s, r[0], r[1])
                except NotInlinable:
                    return [s]
                self.expanded.append((self.cur.id, r[0].name, getattr(s, 'lineno', 0)))
                return self.block(out, depth + 1)
        exprs = self.exprs_of(s)
        if not exprs:
            return [s]
        site = _Site(lambda c: self.resolve(c) is not None and not self.resolve(c)[0].generator)
        for e in exprs:
            site.scan(e)
            if site.found is not None or not site.pure:
                break
        call = site.found
        if call is None:
            return [s]
        h, recv = self.resolve(call)
        if isinstance(s, ast.AugAssign) and not isinstance(s.target, ast.Name) and not pure_helper(h):
            return [s]
        if (self.in_loop or _in_comprehension(s, call)) and makes_closures(h.node):
            return [s]
        try:
            pre, new_s = self.expand(s, call, h, recv)
        except NotInlinable:
            return [s]
        self.expanded.append((self.cur.id, h.name, getattr(s, 'lineno', 0)))
        pre = self.block(pre, depth + 1)
        # the rewritten statement may contain further helper calls
        rest = self.stmt(new_s, depth + 1) if new_s is not None else []
        return pre + rest

    @staticmethod
    def exprs_of(s):
        """expressions of the statement that are evaluated first and unconditionally"""
        if isinstance(s, ast.Return):
            return [s.value] if s.value is not None else []
        if isinstance(s, ast.Expr):
            return [s.value]
        if isinstance(s, ast.Assign):
            # subscript / attribute targets are evaluated after the value
            return [s.value]
        if isinstance(s, ast.AnnAssign):
            return [s.value] if s.value is not None else []
        if isinstance(s, ast.AugAssign):
            # target read first: harmless for a name; for x.attr only when the helper is pure
            return [s.value] if isinstance(s.target, ast.Name) or _simple_arg(s.target) else []
        if isinstance(s, ast.If):
            return [s.test]
        if isinstance(s, ast.For):
            return [s.iter]
        if isinstance(s, ast.Raise):
            return [s.exc] if s.exc is not None and (s.cause is None or isinstance(s.cause, ast.Constant)) else []
        if isinstance(s, ast.With):
            return [s.items[0].context_expr]
        return []

    # ------------------------------------------------------------------
    def expand_generator_loop(self, loop, h, recv):
        """``for T in self.g(args): BODY``  ->  the body of g with every ``yield E`` replaced by
        ``T = E; BODY``.  Only when BODY cannot leave the loop early other than by return / raise
        (a break / continue would mean something else inside g's own loops)."""
        if loop.orelse:
            raise NotInlinable('for ... else')
        for st in loop.body:
            for n in ast.walk(st):
                if isinstance(n, (ast.Break, ast.Continue)) and not _inside_inner_loop(loop.body, n):
                    raise NotInlinable('break / continue in the consuming loop')
        call = loop.iter
        fake = ast.Expr(value=call)
        ast.copy_location(fake, loop)
        saved = h.generator
        # reuse the parameter binding / renaming of expand(): expand the call as a statement whose
        # "returns" do not exist; then substitute the yields
        k = next(self.counter)
        node = h.node
        body = node.body
        if body and isinstance(body[0], ast.Expr) and isinstance(body[0].value, ast.Constant) and isinstance(body[0].value.value, str):
            body = body[1:]
        body = copy.deepcopy(body)
        a = node.args
        if a.kwarg is not None or a.kwonlyargs:
            raise NotInlinable('generator signature')
        params = [x.arg for x in a.posonlyargs + a.args]
        pos = list(call.args)
        if recv is not None:
            pos = [recv] + pos
        elif h.cls is not None and not h.static:
            raise NotInlinable('unbound method call')
        if len(pos) > len(params) or call.keywords:
            raise NotInlinable('arguments')
        defaults = dict(zip(params[len(params) - len(a.defaults):], a.defaults))
        bound = dict(zip(params, pos))
        for p_ in params:
            if p_ not in bound:
                if p_ not in defaults:
                    raise NotInlinable('missing argument')
                bound[p_] = copy.deepcopy(defaults[p_])
        locals_h = _assigned(node) | set(params)
        free = (_names(node, (ast.Load,)) - locals_h) - _comp_locals(node)
        if h.module != self.cur.module and not self._same_globals(free, h.module):
            raise NotInlinable('module globals differ')
        if free & self.caller_locals:
            raise NotInlinable('caller local shadows a global used by the generator')
        assigned_h = _assigned(node)
        mapping, binds = {}, []
        for p_ in params:
            arg = bound[p_]
            if p_ not in assigned_h and _simple_arg(arg):
                mapping[p_] = arg
            else:
                new = self.fresh(p_, k)
                mapping[p_] = new
                binds.append(ast.copy_location(ast.Assign(targets=[ast.Name(id=new, ctx=ast.Store())], value=arg), call))
        for n_ in sorted(locals_h - set(mapping)):
            mapping[n_] = self.fresh(n_, k)
        body = [_Rename(mapping).visit(x) for x in body]
        for x in body:
            for n_ in ast.walk(x):
                if not hasattr(n_, '_inl'):
                    n_._inl = h.name
        target, consumer = loop.target, loop.body

        class Y(ast.NodeTransformer):
            def visit_Expr(self_, st):
                if isinstance(st.value, ast.Yield):
                    v = st.value.value if st.value.value is not None else ast.Constant(value=None)
                    asg = ast.Assign(targets=[copy.deepcopy(target)], value=v)
                    ast.copy_location(asg, st)
                    return [asg] + copy.deepcopy(consumer)
                return st
        out = []
        for x in body:
            r_ = Y().visit(x)
            out.extend(r_ if isinstance(r_, list) else [r_])
        self.caller_names |= set(v for v in mapping.values() if isinstance(v, str))
        self.caller_locals |= set(v for v in mapping.values() if isinstance(v, str))
        res = binds + out
        for x in res:
            ast.fix_missing_locations(x)
        return res

    # ------------------------------------------------------------------
    def expand(self, s, call, h, recv):
        k = next(self.counter)
        node = h.node
        body = node.body
        if body and isinstance(body[0], ast.Expr) and isinstance(body[0].value, ast.Constant) and isinstance(body[0].value.value, str):
            body = body[1:]
        body = copy.deepcopy(body)
        a = node.args
        params = [x.arg for x in a.posonlyargs + a.args]
        kwonly = [x.arg for x in a.kwonlyargs]
        pos = list(call.args)
        if recv is not None:
            pos = [recv] + pos
        elif h.cls is not None and not h.static:
            raise NotInlinable('unbound method call')
        if len(pos) > len(params):
            raise NotInlinable('too many arguments')
        bound = dict(zip(params, pos))
        order = list(params[:len(pos)])
        star_kw = None
        extras = []
        for kw in call.keywords:
            if kw.arg is None:
                star_kw = kw.value
                continue
            if a.kwarg is not None and kw.arg not in bound and kw.arg not in params + kwonly and _simple_arg(kw.value) \
                    and not _mentions_kwarg_other_than_star(node, a.kwarg.arg):
                extras.append(kw)
                continue
            if kw.arg in bound or kw.arg not in params + kwonly:
                raise NotInlinable('keyword')
            bound[kw.arg] = kw.value
            order.append(kw.arg)
        if a.kwarg is not None:
            # **k of the helper is the mapping forwarded by the call (or an empty one)
            bound[a.kwarg.arg] = star_kw if star_kw is not None else ast.Dict(keys=[], values=[])
            order.append(a.kwarg.arg)
        elif star_kw is not None:
            raise NotInlinable('**mapping passed to a helper without **kwargs')
        defaults = dict(zip(params[len(params) - len(a.defaults):], a.defaults))
        for x, dv in zip(a.kwonlyargs, a.kw_defaults):
            if dv is not None:
                defaults[x.arg] = dv
        for p in params + kwonly:
            if p not in bound:
                if p not in defaults:
                    raise NotInlinable('missing argument %s' % p)
                bound[p] = copy.deepcopy(defaults[p])
                order.append(p)
        # free names of the helper keep their (module-level) meaning only if the caller has
        # no local of that name
        locals_h = _assigned(node) | set(params + kwonly) | ({a.kwarg.arg} if a.kwarg is not None else set())
        free = (_names(node, (ast.Load,)) - locals_h) - _comp_locals(node)
        if h.module != self.cur.module:
            # names of the helper's module must mean the same thing in the caller's module
            if not self._same_globals(free, h.module):
                raise NotInlinable('module globals differ')
        if free & self.caller_locals and not getattr(h, 'closure', False):
            raise NotInlinable('caller local shadows a global used by the helper')
        assigned_h = _assigned(node)
        mapping = {}
        binds = []
        # ``return helper(...)`` outside any try: the caller's locals are dead once the arguments
        # are evaluated, so the helper's locals need no new names -- a parameter that receives the
        # caller's variable of the same name simply is that variable
        tail = isinstance(s, ast.Return) and s.value is call and not any(isinstance(n, ast.Try) for n in ast.walk(self.cur.node))
        for p in order:
            arg = bound[p]
            if a.kwarg is not None and p == a.kwarg.arg and isinstance(arg, ast.Dict) and _mentions_kwarg_other_than_star(node, p):
                raise NotInlinable('**kwargs used other than forwarded')
            if tail and isinstance(arg, ast.Name) and arg.id == p:
                mapping[p] = p
            elif p not in assigned_h and _simple_arg(arg):
                mapping[p] = arg
            else:
                new = self.fresh(p, k)
                mapping[p] = new
                b = ast.Assign(targets=[ast.Name(id=new, ctx=ast.Store())], value=arg, lineno=call.lineno, col_offset=0)
                binds.append(ast.copy_location(b, call))
        mentioned = set()
        for v in list(mapping.values()) + [b.value for b in binds]:
            if isinstance(v, ast.AST):
                mentioned |= {x.id for x in ast.walk(v) if isinstance(x, ast.Name)}
        for n in sorted(locals_h - set(mapping)):
            mapping[n] = n if (tail and n not in mentioned) else self.fresh(n, k)
        if extras:
            # every ``**k`` of the helper body forwards the named extras and then the caller's mapping
            kname = a.kwarg.arg
            for x in body:
                for n in ast.walk(x):
                    if isinstance(n, ast.Call):
                        newk = []
                        for kw in n.keywords:
                            if kw.arg is None and isinstance(kw.value, ast.Name) and kw.value.id == kname:
                                newk.extend(ast.keyword(arg=e.arg, value=ast.Name(id='__extra_%s' % e.arg, ctx=ast.Load())) for e in extras)
                                if star_kw is not None:
                                    newk.append(kw)
                            else:
                                newk.append(kw)
                        n.keywords = newk
            for e in extras:
                mapping['__extra_%s' % e.arg] = e.value
        body = [_Rename(mapping).visit(x) for x in body]
        for x in body:
            for n in ast.walk(x):
                if not hasattr(n, '_inl'):
                    n._inl = h.name          # this node is a copy made by the expansion of helper h
        # what happens with the value
        tmp = None
        if isinstance(s, ast.Return) and s.value is call:
            def sink(v, at):
                r = ast.Return(value=v)
                return [ast.copy_location(r, at if at is not None else s)]
            new_s = None
        elif isinstance(s, ast.Expr) and s.value is call:
            def sink(v, at):
                if v is None or not any(isinstance(n, ast.Call) for n in ast.walk(v)):
                    return []
                return [ast.copy_location(ast.Expr(value=v), at)]
            new_s = None
        elif isinstance(s, ast.Assign) and s.value is call:
            def sink(v, at):
                x = ast.Assign(targets=copy.deepcopy(s.targets), value=v if v is not None else ast.Constant(value=None))
                ast.copy_location(x, s)
                return [x]
            new_s = None
        else:
            tmp = self.fresh('_%s_value' % h.name.strip('_'), k)
            def sink(v, at):
                x = ast.Assign(targets=[ast.Name(id=tmp, ctx=ast.Store())], value=v if v is not None else ast.Constant(value=None))
                ast.copy_location(x, at if at is not None else s)
                return [x]
            new_s = s
        out = binds + _eliminate(body, sink)
        if not isinstance(s, ast.Return) and _stmts_contain_return(out):
            raise NotInlinable('return survived')
        if tmp is not None:
            last = out[-1] if out else None
            if isinstance(last, ast.Assign) and len(last.targets) == 1 and isinstance(last.targets[0], ast.Name) \
                    and last.targets[0].id == tmp and not _uses(out[:-1], tmp):
                # straight-line helper: put the returned expression where the call was
                out = out[:-1]
                repl = last.value
            else:
                repl = ast.Name(id=tmp, ctx=ast.Load())
            new_s = _Replace(call, repl).visit(s)
        self.caller_names |= set(v for v in mapping.values() if isinstance(v, str))
        self.caller_locals |= set(v for v in mapping.values() if isinstance(v, str))
        if tmp:
            self.caller_names.add(tmp); self.caller_locals.add(tmp)
        return out, new_s

    def fresh(self, name, k):
        if name not in self.caller_names:
            self.caller_names.add(name)
            return name
        new = '%s__%d' % (name, k)
        while new in self.caller_names:
            new += '_'
        self.caller_names.add(new)
        return new

    def _same_globals(self, free, module):
        import builtins
        here = _module_bindings(self.repo.modules[self.cur.module]['tree'])
        there = _module_bindings(self.repo.modules[module]['tree'])
        for n in free:
            if hasattr(builtins, n) and n not in here and n not in there:
                continue
            if here.get(n) is None or here.get(n) != there.get(n):
                return False
        return True


def _mentions_kwarg_other_than_star(node, name):
    stars = {id(k.value) for n in ast.walk(node) if isinstance(n, ast.Call) for k in n.keywords if k.arg is None}
    return any(isinstance(n, ast.Name) and n.id == name and id(n) not in stars for n in ast.walk(node))


def _module_bindings(tree):
    out = {}
    for n in tree.body:
        if isinstance(n, ast.Import):
            for a in n.names:
                out[(a.asname or a.name).split('.')[0]] = 'import ' + a.name
        elif isinstance(n, ast.ImportFrom):
            for a in n.names:
                out[a.asname or a.name] = 'from %s import %s' % ((n.module or '').split('.')[-1], a.name)
        elif isinstance(n, (ast.FunctionDef, ast.ClassDef)):
            out[n.name] = None          # defined here: not the same object elsewhere
    return out


def _inside_inner_loop(stmts, node):
    """is ``node`` (a break / continue) inside a loop nested in ``stmts``?"""
    for st in stmts:
        for n in ast.walk(st):
            if isinstance(n, (ast.For, ast.While)) and any(x is node for x in ast.walk(n)):
                return True
    return False


def _stmts_contain_return(stmts):
    return any(_has_return(s) for s in stmts)


def _uses(stmts, name):
    return any(isinstance(n, ast.Name) and n.id == name for s in stmts for n in ast.walk(s))


class _Replace(ast.NodeTransformer):
    def __init__(self, old, new):
        self.old, self.new = old, new

    def visit(self, n):
        if n is self.old:
            return self.new
        return self.generic_visit(n)


class _Super(ast.NodeTransformer):
    """``super().m(a)`` / ``super(C, self).m(a)`` in a method of C  ->  ``B.m(self, a)`` where B is
    the next class after C in the (single-inheritance, in-package) MRO that defines m"""

    def __init__(self, repo, ci, self_name):
        self.repo, self.ci, self.self_name = repo, ci, self_name
        self.n = 0

    def visit_Call(self, n):
        self.generic_visit(n)
        f = n.func
        if isinstance(f, ast.Attribute) and isinstance(f.value, ast.Call) and isinstance(f.value.func, ast.Name) \
                and f.value.func.id == 'super' and not f.value.keywords:
            a = f.value.args
            if a and not (len(a) == 2 and isinstance(a[0], ast.Name) and a[0].id == self.ci.name
                          and isinstance(a[1], ast.Name) and a[1].id == self.self_name):
                return n
            for b in self.repo.mro(self.ci)[1:]:
                if f.attr in b.methods:
                    new = ast.Call(func=ast.Attribute(value=ast.Name(id=b.name, ctx=ast.Load()), attr=f.attr, ctx=ast.Load()),
                                   args=[ast.Name(id=self.self_name, ctx=ast.Load())] + n.args, keywords=n.keywords)
                    self.n += 1
                    return ast.fix_missing_locations(ast.copy_location(new, n))
        return n

    def visit_FunctionDef(self, n):
        return n           # nested functions: zero-argument super() means something else there

    visit_Lambda = visit_ClassDef = visit_FunctionDef


def desugar_super(repo):
    count = 0
    for fi in repo.functions.values():
        if fi.cls is None or fi.qual != fi.cls.qual + '.' + fi.node.name or not isinstance(fi.node, ast.FunctionDef):
            continue
        a = fi.node.args
        first = a.posonlyargs + a.args
        if not first or any(isinstance(d, ast.Name) and d.id in ('staticmethod', 'classmethod') for d in fi.node.decorator_list):
            continue
        if len(repo.mro(fi.cls)) < 2 or fi.cls.name in repo.dupes:
            continue
        t = _Super(repo, fi.cls, first[0].arg)
        fi.node.body = [ast.NodeTransformer.generic_visit(t, s) if False else t.visit(s) for s in fi.node.body]
        count += t.n
    return count


class _CompStmt(ast.NodeTransformer):
    """a comprehension evaluated only for its effects (``[f(x) for x in xs]`` as a statement)
    is the loop ``for x in xs: f(x)``; the loop variable is renamed when the function already
    has a local of that name (a comprehension has its own scope, a loop does not)"""

    def __init__(self, taken):
        self.taken = taken
        self.n = 0

    def visit_Expr(self, s):
        v = s.value
        if not isinstance(v, (ast.ListComp, ast.SetComp, ast.GeneratorExp)) or isinstance(v, ast.GeneratorExp):
            return s
        if any(g.is_async for g in v.generators):
            return s
        targets = set()
        for g in v.generators:
            targets |= _names(g.target, (ast.Store,))
        ren = {}
        for t in targets:
            if t in self.taken:
                new = t + '__c'
                while new in self.taken:
                    new += '_'
                ren[t] = new
            self.taken.add(ren.get(t, t))
        body = [ast.copy_location(ast.Expr(value=v.elt), s)]
        for g in reversed(v.generators):
            for cond in reversed(g.ifs):
                body = [ast.copy_location(ast.If(test=cond, body=body, orelse=[]), s)]
            body = [ast.copy_location(ast.For(target=g.target, iter=g.iter, body=body, orelse=[]), s)]
        loop = body[0]
        if ren:
            # the outermost iterable is evaluated outside the comprehension's scope
            it = loop.iter
            loop.iter = ast.Constant(value=None)
            loop = _Rename(ren).visit(loop)
            loop.iter = it
        self.n += 1
        return ast.fix_missing_locations(loop)

    def visit_FunctionDef(self, n):
        return n

    visit_Lambda = visit_ClassDef = visit_AsyncFunctionDef = visit_FunctionDef


def comprehension_statements(repo):
    count = 0
    for fi in repo.functions.values():
        if not isinstance(fi.node, ast.FunctionDef):
            continue
        t = _CompStmt(_assigned(fi.node) | set(_params(fi.node)) | _names(fi.node))

        def rewrite(stmts):
            out = []
            for s_ in stmts:
                for fld in ('body', 'orelse', 'finalbody'):
                    b = getattr(s_, fld, None)
                    if isinstance(b, list) and b and isinstance(b[0], ast.stmt) and not isinstance(s_, (ast.FunctionDef, ast.ClassDef, ast.AsyncFunctionDef)):
                        setattr(s_, fld, rewrite(b))
                for h in getattr(s_, 'handlers', []) or []:
                    h.body = rewrite(h.body)
                out.append(t.visit_Expr(s_) if isinstance(s_, ast.Expr) else s_)
            return out
        fi.node.body = rewrite(fi.node.body)
        count += t.n
    return count


# ---------------------------------------------------------------- library combinators
GETTERS = {'itemgetter': 'item', 'operator.itemgetter': 'item', 'attrgetter': 'attr', 'operator.attrgetter': 'attr'}


def _getter_of(e, module_getters):
    """('item' | 'attr', [constants]) for itemgetter(..) / attrgetter(..) written on the spot or
    bound once at module level"""
    if isinstance(e, ast.Name) and e.id in module_getters:
        return module_getters[e.id]
    if isinstance(e, ast.Call) and not e.keywords and e.args and all(isinstance(a, ast.Constant) for a in e.args):
        nm = ast.unparse(e.func)
        if nm in GETTERS:
            kind = GETTERS[nm]
            vals = [a.value for a in e.args]
            if kind == 'attr' and not all(isinstance(v, str) and all(p.isidentifier() for p in v.split('.')) for v in vals):
                return None
            return kind, vals
    return None


def _apply_getter(g, x):
    kind, vals = g

    def one(v):
        if kind == 'item':
            return ast.Subscript(value=ast.Name(id=x, ctx=ast.Load()), slice=ast.Constant(value=v), ctx=ast.Load())
        e = ast.Name(id=x, ctx=ast.Load())
        for part in v.split('.'):
            e = ast.Attribute(value=e, attr=part, ctx=ast.Load())
        return e
    if len(vals) == 1:
        return one(vals[0])
    return ast.Tuple(elts=[one(v) for v in vals], ctx=ast.Load())


class _Combinators(ast.NodeTransformer):
    """map(f, xs) / filter(f, xs) with f an itemgetter / attrgetter / lambda is the generator
    expression that says the same thing; list(<generator expression>) is the list comprehension.
    Exact: both are lazy, evaluate xs once, and apply f to each element in order."""

    def __init__(self, module_getters, taken):
        self.g = module_getters
        self.taken = taken
        self.n = 0

    def fresh(self, base='_x'):
        new = base
        while new in self.taken:
            new += '_'
        self.taken.add(new)
        return new

    def visit_Call(self, c):
        self.generic_visit(c)
        nm = c.func.id if isinstance(c.func, ast.Name) else None
        if nm == 'map' and len(c.args) == 2 and not c.keywords and not any(isinstance(a, ast.Starred) for a in c.args):
            f, xs = c.args
            g = _getter_of(f, self.g)
            if g is not None:
                v = self.fresh()
                self.n += 1
                return ast.copy_location(ast.GeneratorExp(elt=_apply_getter(g, v), generators=[ast.comprehension(target=ast.Name(id=v, ctx=ast.Store()), iter=xs, ifs=[], is_async=0)]), c)
            if isinstance(f, ast.Lambda) and _plain_unary(f):
                self.n += 1
                return ast.copy_location(ast.GeneratorExp(elt=f.body, generators=[ast.comprehension(target=ast.Name(id=f.args.args[0].arg, ctx=ast.Store()), iter=xs, ifs=[], is_async=0)]), c)
        if nm == 'filter' and len(c.args) == 2 and not c.keywords and not any(isinstance(a, ast.Starred) for a in c.args):
            f, xs = c.args
            if isinstance(f, ast.Lambda) and _plain_unary(f):
                v = f.args.args[0].arg
                self.n += 1
                return ast.copy_location(ast.GeneratorExp(elt=ast.Name(id=v, ctx=ast.Load()), generators=[ast.comprehension(target=ast.Name(id=v, ctx=ast.Store()), iter=xs, ifs=[f.body], is_async=0)]), c)
            if isinstance(f, ast.Constant) and f.value is None:
                v = self.fresh()
                self.n += 1
                return ast.copy_location(ast.GeneratorExp(elt=ast.Name(id=v, ctx=ast.Load()), generators=[ast.comprehension(target=ast.Name(id=v, ctx=ast.Store()), iter=xs, ifs=[ast.Name(id=v, ctx=ast.Load())], is_async=0)]), c)
        if nm == 'list' and len(c.args) == 1 and not c.keywords and isinstance(c.args[0], ast.GeneratorExp):
            ge = c.args[0]
            self.n += 1
            return ast.copy_location(ast.ListComp(elt=ge.elt, generators=ge.generators), c)
        return c

    def visit_For(self, s):
        self.generic_visit(s)
        ge = s.iter
        # for T in (E for v in XS if C): BODY   is   for v in XS: if C: T = E; BODY
        if isinstance(ge, ast.GeneratorExp) and len(ge.generators) == 1 and not ge.generators[0].is_async:
            g = ge.generators[0]
            tnames = _names(g.target, (ast.Store,))
            ren = {}
            for t in sorted(tnames):
                if t in self.taken:
                    ren[t] = self.fresh(t + '__g')
                else:
                    self.taken.add(t)
            elt, ifs, target = ge.elt, list(g.ifs), g.target
            if ren:
                r = _Rename(ren)
                elt = r.visit(copy.deepcopy(elt))
                ifs = [r.visit(copy.deepcopy(x)) for x in ifs]
                target = r.visit(copy.deepcopy(target))
            body = [ast.copy_location(ast.Assign(targets=[s.target], value=elt), s)] + s.body
            if ifs and any(isinstance(n, (ast.Break, ast.Continue)) for st in s.body for n in ast.walk(st)):
                pass        # (still the same loop: break / continue refer to the for either way)
            for cond in reversed(ifs):
                body = [ast.copy_location(ast.If(test=cond, body=body, orelse=[]), s)]
            self.n += 1
            new = ast.For(target=target, iter=g.iter, body=body, orelse=s.orelse)
            return ast.fix_missing_locations(ast.copy_location(new, s))
        return s

    def visit_FunctionDef(self, n):
        return n

    visit_AsyncFunctionDef = visit_ClassDef = visit_FunctionDef


def _plain_unary(lam):
    a = lam.args
    return len(a.args) == 1 and not a.posonlyargs and not a.kwonlyargs and a.vararg is None and a.kwarg is None and not a.defaults


def lower_combinators(repo):
    count = 0
    for mod, info in repo.modules.items():
        tree = info['tree']
        bound = {}
        for st in tree.body:
            if isinstance(st, ast.Assign) and len(st.targets) == 1 and isinstance(st.targets[0], ast.Name):
                bound.setdefault(st.targets[0].id, []).append(st.value)
        stored_elsewhere = {n.id for n in ast.walk(tree) if isinstance(n, ast.Name) and isinstance(n.ctx, (ast.Store, ast.Del))}
        getters = {}
        for name, vals in bound.items():
            if len(vals) == 1:
                g = _getter_of(vals[0], {})
                # bound once at module level and never rebound in a function through ``global``
                if g is not None and sum(1 for n in ast.walk(tree) if isinstance(n, ast.Name) and n.id == name and isinstance(n.ctx, (ast.Store, ast.Del))) == 1 \
                        and not any(isinstance(n, ast.Global) and name in n.names for n in ast.walk(tree)):
                    getters[name] = g
        for fi in repo.functions.values():
            if fi.module != mod or not isinstance(fi.node, ast.FunctionDef):
                continue
            local = _assigned(fi.node) | set(_params(fi.node))
            t = _Combinators({k: v for k, v in getters.items() if k not in local}, _assigned(fi.node) | set(_params(fi.node)) | _names(fi.node))
            fi.node.body = [t.visit(x) for x in fi.node.body]
            count += t.n
    return count


# ---------------------------------------------------------------- index loops
def _index_loops(func):
    """i = 0 ... while i < len(xs): T = xs[i]; BODY; i += 1     is     for T in xs: BODY
    when i is used for nothing else in the function and BODY neither rebinds xs nor continues
    (a list / tuple is indexed in order and its length re-read on every pass by both forms)"""
    count = 0
    uses = {}
    for n in ast.walk(func):
        if isinstance(n, ast.Name):
            uses.setdefault(n.id, []).append(n)

    def rewrite(stmts):
        nonlocal count
        out = []
        for s_ in stmts:
            for fld in ('body', 'orelse', 'finalbody'):
                b = getattr(s_, fld, None)
                if isinstance(b, list) and b and isinstance(b[0], ast.stmt) and not isinstance(s_, (ast.FunctionDef, ast.ClassDef, ast.AsyncFunctionDef)):
                    setattr(s_, fld, rewrite(b))
            for h in getattr(s_, 'handlers', []) or []:
                h.body = rewrite(h.body)
            new = try_one(s_)
            if new is not None:
                count += 1
                out.append(new)
            else:
                out.append(s_)
        return out

    def try_one(w):
        if not isinstance(w, ast.While) or w.orelse or len(w.body) < 2:
            return None
        t = w.test
        if not (isinstance(t, ast.Compare) and len(t.ops) == 1 and isinstance(t.ops[0], ast.Lt) and isinstance(t.left, ast.Name)
                and isinstance(t.comparators[0], ast.Call) and isinstance(t.comparators[0].func, ast.Name) and t.comparators[0].func.id == 'len'
                and len(t.comparators[0].args) == 1 and isinstance(t.comparators[0].args[0], ast.Name)):
            return None
        i, xs = t.left.id, t.comparators[0].args[0].id
        first, last = w.body[0], w.body[-1]
        if not (isinstance(first, ast.Assign) and len(first.targets) == 1 and isinstance(first.value, ast.Subscript) and isinstance(first.value.value, ast.Name)
                and first.value.value.id == xs and isinstance(first.value.slice, ast.Name) and first.value.slice.id == i):
            return None
        if not (isinstance(last, ast.AugAssign) and isinstance(last.op, ast.Add) and isinstance(last.target, ast.Name) and last.target.id == i
                and isinstance(last.value, ast.Constant) and last.value.value == 1):
            return None
        middle = w.body[1:-1]
        for st in middle:
            for n in ast.walk(st):
                if isinstance(n, ast.Continue) or (isinstance(n, ast.Name) and n.id == i) or (isinstance(n, ast.Name) and n.id == xs):
                    return None
        # every use of i in the function: one ``i = 0`` plus the three uses in this loop
        mine = {id(t.left), id(first.value.slice), id(last.target)}
        others = [n for n in uses.get(i, []) if id(n) not in mine]
        if len(others) != 1 or not isinstance(others[0].ctx, ast.Store):
            return None
        init = [a for a in ast.walk(func) if isinstance(a, ast.Assign) and len(a.targets) == 1 and a.targets[0] is others[0]]
        if not init or not (isinstance(init[0].value, ast.Constant) and init[0].value.value == 0 and init[0].value.value is not False):
            return None
        if init[0].lineno > w.lineno:
            return None
        # xs: bound once (before the loop), to something that is not rebound in the loop
        xstores = [n for n in uses.get(xs, []) if isinstance(n.ctx, (ast.Store, ast.Del))]
        if len(xstores) != 1 or xstores[0].lineno > w.lineno:
            return None
        new = ast.For(target=first.targets[0], iter=ast.Name(id=xs, ctx=ast.Load()), body=middle or [ast.Pass()], orelse=[])
        return ast.fix_missing_locations(ast.copy_location(new, w))

    func.body = rewrite(func.body)
    return count


def lower_index_loops(repo):
    n = 0
    for fi in repo.functions.values():
        if isinstance(fi.node, ast.FunctionDef) and any(isinstance(x, ast.While) for x in ast.walk(fi.node)):
            n += _index_loops(fi.node)
    return n


# ---------------------------------------------------------------- with suppress(...)
class _Suppress(ast.NodeTransformer):
    """with contextlib.suppress(E1, E2): BODY   is   try: BODY / except (E1, E2): pass"""

    def __init__(self, names):
        self.names = names
        self.n = 0

    def visit_With(self, s):
        self.generic_visit(s)
        if len(s.items) != 1 or s.items[0].optional_vars is not None:
            return s
        c = s.items[0].context_expr
        if not (isinstance(c, ast.Call) and not c.keywords and c.args and not any(isinstance(a, ast.Starred) for a in c.args)):
            return s
        if ast.unparse(c.func) not in self.names:
            return s
        typ = c.args[0] if len(c.args) == 1 else ast.Tuple(elts=list(c.args), ctx=ast.Load())
        h = ast.ExceptHandler(type=typ, name=None, body=[ast.Pass()])
        new = ast.Try(body=s.body, handlers=[h], orelse=[], finalbody=[])
        self.n += 1
        return ast.fix_missing_locations(ast.copy_location(new, s))

    def visit_FunctionDef(self, n):
        self.generic_visit(n)
        return n


def lower_suppress(repo):
    count = 0
    for mod, info in repo.modules.items():
        tree = info['tree']
        names = set()
        for n in tree.body:
            if isinstance(n, ast.Import):
                for a in n.names:
                    if a.name == 'contextlib':
                        names.add('%s.suppress' % (a.asname or 'contextlib'))
            elif isinstance(n, ast.ImportFrom) and n.module == 'contextlib':
                for a in n.names:
                    if a.name == 'suppress':
                        names.add(a.asname or 'suppress')
        if not names:
            continue
        for fi in repo.functions.values():
            if fi.module == mod and isinstance(fi.node, ast.FunctionDef):
                t = _Suppress(names)
                fi.node.body = [t.visit(x) for x in fi.node.body]
                count += t.n
    return count


def lower_record_entries(repo):
    """get_fields() entries given as a namedtuple: ``R(name=a, field=b, ...)`` in the builder is
    the tuple of its arguments in field order, and a loop ``for e in X.get_fields():`` whose body
    uses ``e`` only as ``e.<field of R>`` is the loop ``for (e_f1, e_f2, ...) in X.get_fields():``
    over the same names -- the unpacking form the rest of the code base (and the generated code)
    uses.  Exact: a namedtuple is a tuple"""
    records = {}
    for mod in repo.modules.values():
        for st in mod['tree'].body:
            if isinstance(st, ast.Assign) and len(st.targets) == 1 and isinstance(st.targets[0], ast.Name) and isinstance(st.value, ast.Call) \
                    and (ast.unparse(st.value.func) in ('namedtuple', 'collections.namedtuple')) and len(st.value.args) == 2:
                a = st.value.args[1]
                if isinstance(a, ast.Constant) and isinstance(a.value, str):
                    records[st.targets[0].id] = a.value.replace(',', ' ').split()
                elif isinstance(a, (ast.List, ast.Tuple)) and all(isinstance(x, ast.Constant) and isinstance(x.value, str) for x in a.elts):
                    records[st.targets[0].id] = [x.value for x in a.elts]
    # which record type are the entries?  the one the builder's entry list is made of
    entry = None
    for fi in repo.functions.values():
        if fi.node.name != 'lookup_pack_unpack_methods':
            continue
        for n in ast.walk(fi.node):
            if isinstance(n, ast.ListComp) and isinstance(n.elt, ast.Call) and isinstance(n.elt.func, ast.Name) and n.elt.func.id in records:
                fields = records[n.elt.func.id]
                c = n.elt
                vals = dict(zip(fields, c.args))
                for k in c.keywords:
                    if k.arg:
                        vals[k.arg] = k.value
                if set(vals) == set(fields) and not any(isinstance(x, ast.Starred) for x in c.args):
                    n.elt = ast.copy_location(ast.Tuple(elts=[vals[f] for f in fields], ctx=ast.Load()), c)
                    entry = fields
    if entry is None:
        # the table built row by row: table.append(R(name=..., field=..., ...))
        for fi in repo.functions.values():
            if fi.node.name != 'lookup_pack_unpack_methods':
                continue
            for c in [x for x in ast.walk(fi.node) if isinstance(x, ast.Call) and isinstance(x.func, ast.Name) and x.func.id in records]:
                fields = records[c.func.id]
                vals = dict(zip(fields, c.args))
                for k in c.keywords:
                    if k.arg:
                        vals[k.arg] = k.value
                if set(vals) == set(fields) and not any(isinstance(x, ast.Starred) for x in c.args):
                    _Replace(c, ast.copy_location(ast.Tuple(elts=[vals[f] for f in fields], ctx=ast.Load()), c)).visit(fi.node)
                    entry = fields
            ast.fix_missing_locations(fi.node)
    if entry is None:
        return 0
    count = 0

    def is_get_fields(it):
        return isinstance(it, ast.Call) and isinstance(it.func, ast.Attribute) and it.func.attr == 'get_fields' and not it.args and not it.keywords

    def rewrite(body_nodes, var):
        """True when every use of var inside is var.<field>; then performs the renaming"""
        uses = [x for b in body_nodes for x in ast.walk(b) if isinstance(x, ast.Name) and x.id == var]
        attrs = [x for b in body_nodes for x in ast.walk(b) if isinstance(x, ast.Attribute) and isinstance(x.value, ast.Name) and x.value.id == var]
        if len(uses) != len(attrs) or not uses or any(a.attr not in entry or not isinstance(a.ctx, ast.Load) for a in attrs):
            return False

        class T(ast.NodeTransformer):
            def visit_Attribute(self, n):
                if isinstance(n.value, ast.Name) and n.value.id == var and n.attr in entry:
                    return ast.copy_location(ast.Name(id='%s_%s' % (var, n.attr), ctx=ast.Load()), n)
                return self.generic_visit(n)
        for i, b in enumerate(body_nodes):
            body_nodes[i] = T().visit(b)
        return True
    # inside the builder: elements of self.fields read by field name are read by position
    def elem_var(target, it):
        if canon_(it) == 'self.fields' and isinstance(target, ast.Name):
            return target.id
        if isinstance(it, ast.Call) and isinstance(it.func, ast.Name) and it.func.id == 'enumerate' and it.args and canon_(it.args[0]) == 'self.fields' \
                and isinstance(target, ast.Tuple) and len(target.elts) == 2 and isinstance(target.elts[1], ast.Name):
            return target.elts[1].id
        return None

    def canon_(e):
        return ast.unparse(e)
    for fi in repo.functions.values():
        if fi.cls is None or 'Builder' not in fi.cls.name:
            continue
        binders = [(n.target, n.iter, n.body) for n in ast.walk(fi.node) if isinstance(n, ast.For)] + \
                  [(g.target, g.iter, None) for n in ast.walk(fi.node) if isinstance(n, (ast.ListComp, ast.GeneratorExp, ast.SetComp, ast.DictComp)) for g in n.generators]
        vars_ = {elem_var(t, it) for t, it, _ in binders} - {None}
        if not vars_:
            continue

        class TB(ast.NodeTransformer):
            def visit_Attribute(self, n):
                self.generic_visit(n)
                if isinstance(n.value, ast.Name) and n.value.id in vars_ and n.attr in entry and isinstance(n.ctx, ast.Load):
                    return ast.copy_location(ast.Subscript(value=n.value, slice=ast.Constant(value=entry.index(n.attr)), ctx=ast.Load()), n)
                return n
        TB().visit(fi.node)
        ast.fix_missing_locations(fi.node)
        count += 1
    for fi in repo.functions.values():
        for n in ast.walk(fi.node):
            if isinstance(n, ast.For) and isinstance(n.target, ast.Name) and is_get_fields(n.iter):
                var = n.target.id
                if rewrite(n.body, var):
                    n.target = ast.copy_location(ast.Tuple(elts=[ast.Name(id='%s_%s' % (var, f), ctx=ast.Store()) for f in entry], ctx=ast.Store()), n.target)
                    count += 1
            elif isinstance(n, (ast.ListComp, ast.GeneratorExp, ast.SetComp)) and len(n.generators) == 1 and isinstance(n.generators[0].target, ast.Name) and is_get_fields(n.generators[0].iter):
                g = n.generators[0]
                var = g.target.id
                holder = [n.elt] + list(g.ifs)
                if rewrite(holder, var):
                    n.elt, g.ifs = holder[0], holder[1:]
                    g.target = ast.copy_location(ast.Tuple(elts=[ast.Name(id='%s_%s' % (var, f), ctx=ast.Store()) for f in entry], ctx=ast.Store()), g.target)
                    count += 1
        ast.fix_missing_locations(fi.node)
    return count


def lower_callable_records(repo):
    """``class C: __slots__ = (...); def __init__(self, a, b): self.a = a; self.b = b;
    def __call__(self, *params): return E`` -- a closure written as a class.  Where the class is
    only ever instantiated (never subclassed, tested with isinstance, or read otherwise), the
    statement ``x = C(e1, e2)`` / ``return C(e1, e2)`` outside any loop is
    ``_c1 = e1; _c2 = e2; x = lambda *params: E[self.a := _c1, self.b := _c2]``:
    the arguments are evaluated where the object was built, exactly once.  Exact for what the
    rules read (what the callable returns when called)"""
    import copy
    count = 0
    for mod, info in repo.modules.items():
        tree = info['tree']
        recs = {}
        for st in tree.body:
            if not isinstance(st, ast.ClassDef) or st.decorator_list or st.keywords:
                continue
            if any(not (isinstance(b, ast.Name) and b.id == 'object') for b in st.bases):
                continue
            init = call = None
            ok = True
            for b in st.body:
                if isinstance(b, ast.Expr) and isinstance(b.value, ast.Constant) and isinstance(b.value.value, str):
                    continue
                if isinstance(b, ast.Assign) and len(b.targets) == 1 and isinstance(b.targets[0], ast.Name) and b.targets[0].id == '__slots__':
                    continue
                if isinstance(b, ast.FunctionDef) and b.name == '__init__' and not b.decorator_list:
                    init = b
                elif isinstance(b, ast.FunctionDef) and b.name == '__call__' and not b.decorator_list:
                    call = b
                elif isinstance(b, ast.FunctionDef) and b.name in ('__repr__', '__str__') and not b.decorator_list:
                    pass        # how the callable prints: not what it computes
                else:
                    ok = False
            if not ok or init is None or call is None:
                continue
            a = init.args
            if a.vararg or a.kwarg or a.kwonlyargs or a.defaults or a.posonlyargs or len(a.args) < 1:
                continue
            self_i, params = a.args[0].arg, [x.arg for x in a.args[1:]]
            stores = {}
            for b in init.body:
                if isinstance(b, ast.Expr) and isinstance(b.value, ast.Constant):
                    continue
                if isinstance(b, ast.Assign) and len(b.targets) == 1 and isinstance(b.targets[0], ast.Attribute) and isinstance(b.targets[0].value, ast.Name) \
                        and b.targets[0].value.id == self_i and b.targets[0].attr not in stores \
                        and not any(isinstance(x, ast.Name) and x.id == self_i for x in ast.walk(b.value)) \
                        and not any(isinstance(x, (ast.Lambda, ast.Yield, ast.Await, ast.NamedExpr)) for x in ast.walk(b.value)) \
                        and not any(isinstance(x, ast.Name) and isinstance(x.ctx, ast.Store) and x.id in params for x in ast.walk(b.value)):
                    stores[b.targets[0].attr] = b.value        # an expression over the parameters
                else:
                    ok = False
            body = [b for b in call.body if not (isinstance(b, ast.Expr) and isinstance(b.value, ast.Constant))]
            if not ok or len(body) != 1 or not isinstance(body[0], ast.Return) or body[0].value is None or not call.args.args:
                continue
            self_c = call.args.args[0].arg
            # the body reads self only as self.<stored attribute>
            uses = [x for x in ast.walk(body[0].value) if isinstance(x, ast.Name) and x.id == self_c]
            attrs = [x for x in ast.walk(body[0].value) if isinstance(x, ast.Attribute) and isinstance(x.value, ast.Name) and x.value.id == self_c]
            if len(uses) != len(attrs) or any(x.attr not in stores or not isinstance(x.ctx, ast.Load) for x in attrs):
                continue
            if any(isinstance(x, (ast.Lambda, ast.ListComp, ast.GeneratorExp, ast.SetComp, ast.DictComp, ast.Yield, ast.Await, ast.NamedExpr)) for x in ast.walk(body[0].value)):
                continue
            recs[st.name] = (params, stores, call, self_c)
        if not recs:
            continue
        # only ever instantiated, anywhere in the package
        for nm in list(recs):
            for m2, i2 in repo.modules.items():
                par = {}
                for pnode in ast.walk(i2['tree']):
                    for c in ast.iter_child_nodes(pnode):
                        par[id(c)] = pnode
                for x in ast.walk(i2['tree']):
                    ref = (isinstance(x, ast.Name) and x.id == nm) or (isinstance(x, ast.Attribute) and x.attr == nm)
                    if ref:
                        pp = par.get(id(x))
                        if m2 != mod and isinstance(x, ast.Name):
                            # another module's own name
                            imported = any(isinstance(n, ast.ImportFrom) and any((al.asname or al.name) == nm for al in n.names) for n in ast.walk(i2['tree']))
                            if not imported:
                                continue
                        if not (isinstance(pp, ast.Call) and pp.func is x):
                            recs.pop(nm, None)
                            break
                if nm not in recs:
                    break
        if not recs:
            continue
        seq = [0]

        def build(callnode):
            params, stores, call, self_c = recs[callnode.func.id]
            if callnode.keywords and any(k.arg is None or k.arg not in params for k in callnode.keywords):
                return None
            if any(isinstance(x, ast.Starred) for x in callnode.args) or len(callnode.args) > len(params):
                return None
            vals = dict(zip(params, callnode.args))
            for k in callnode.keywords:
                if k.arg in vals:
                    return None
                vals[k.arg] = k.value
            if set(vals) != set(params):
                return None
            pre, pbound, bound = [], {}, {}
            seq[0] += 1
            for prm in params:
                v = vals[prm]
                if isinstance(v, ast.Constant):
                    pbound[prm] = v
                else:
                    nmv = '_cr%d_%s' % (seq[0], prm)
                    pre.append(ast.copy_location(ast.Assign(targets=[ast.Name(id=nmv, ctx=ast.Store())], value=v), callnode))
                    pbound[prm] = ast.Name(id=nmv, ctx=ast.Load())

            class P(ast.NodeTransformer):
                def visit_Name(self, n):
                    if isinstance(n.ctx, ast.Load) and n.id in pbound:
                        return ast.copy_location(copy.deepcopy(pbound[n.id]), n)
                    return n
            for attr, e in stores.items():
                if isinstance(e, ast.Name) and e.id in pbound:
                    bound[attr] = pbound[e.id]          # the parameter kept unchanged
                else:
                    nmv = '_cr%d_%s' % (seq[0], attr)
                    pre.append(ast.copy_location(ast.Assign(targets=[ast.Name(id=nmv, ctx=ast.Store())], value=P().visit(copy.deepcopy(e))), callnode))
                    bound[attr] = ast.Name(id=nmv, ctx=ast.Load())

            class S(ast.NodeTransformer):
                def visit_Attribute(self, n):
                    if isinstance(n.value, ast.Name) and n.value.id == self_c and n.attr in stores:
                        return ast.copy_location(copy.deepcopy(bound[n.attr]), n)
                    return self.generic_visit(n)
            largs = copy.deepcopy(call.args)
            largs.args = largs.args[1:]
            lam = ast.Lambda(args=largs, body=S().visit(copy.deepcopy(call.body[-1].value)))
            return pre, ast.copy_location(lam, callnode)

        def is_rec_call(e):
            return isinstance(e, ast.Call) and isinstance(e.func, ast.Name) and e.func.id in recs

        def block(stmts, in_loop):
            out = []
            for s_ in stmts:
                done = False
                if not in_loop and isinstance(s_, (ast.Assign, ast.Return)) and s_.value is not None and is_rec_call(s_.value) \
                        and not any(is_rec_call(x) for a_ in list(s_.value.args) + [k.value for k in s_.value.keywords] for x in ast.walk(a_)):
                    r = build(s_.value)
                    if r is not None:
                        pre, lam = r
                        s_.value = lam
                        out.extend(pre)
                        out.append(s_)
                        count_box[0] += 1
                        done = True
                if not done:
                    for fld in ('body', 'orelse', 'finalbody'):
                        sub = getattr(s_, fld, None)
                        if isinstance(sub, list) and sub and isinstance(sub[0], ast.stmt) and not isinstance(s_, (ast.FunctionDef, ast.ClassDef, ast.AsyncFunctionDef)):
                            setattr(s_, fld, block(sub, in_loop or isinstance(s_, (ast.For, ast.While))))
                    if isinstance(s_, ast.Try):
                        for h in s_.handlers:
                            h.body = block(h.body, in_loop)
                    out.append(s_)
            return out
        count_box = [0]
        for fi in repo.functions.values():
            if isinstance(fi.node, (ast.FunctionDef,)):
                fi.node.body = block(fi.node.body, False)
                ast.fix_missing_locations(fi.node)
        count += count_box[0]
    return count


def lower_derived_maps(repo):
    """A dict attribute D of a class that is a cache of a fact about another dict attribute C of
    the same object: created empty in __init__, and its only mutation anywhere is
    ``D[k] = k + len(v)`` in the statement sequence that also does ``C[k] = v`` (same key).
    Then D[x] == x + len(C[x]) whenever either is defined (both raise KeyError otherwise), so
    every read ``D[x]`` is rewritten to ``x + len(C[x])`` and the stores to D are dropped: the
    form the code has without the cache.  Anything else done with D (passed on, iterated,
    deleted from, another store) leaves the code untouched"""
    from .expr import lin
    count = 0
    for ci in list(repo.classes.values()):
        init = ci.methods.get('__init__')
        if init is None:
            continue
        empties = [n.targets[0].attr for n in ast.walk(init.node) if isinstance(n, ast.Assign) and len(n.targets) == 1 and isinstance(n.targets[0], ast.Attribute)
                   and isinstance(n.targets[0].value, ast.Name) and n.targets[0].value.id == 'self' and isinstance(n.value, ast.Dict) and not n.value.keys]
        if len(empties) < 2:
            continue
        for D in empties:
            funcs = [fi for fi in repo.functions.values() if isinstance(fi.node, ast.FunctionDef) and any(isinstance(x, ast.Attribute) and x.attr == D for x in ast.walk(fi.node))]
            plan = []        # (fi, aliases, stores)
            C = None
            ok = True
            for fi in funcs:
                par = {}
                for pn in ast.walk(fi.node):
                    for c in ast.iter_child_nodes(pn):
                        par[id(c)] = pn
                aliases = set()
                alias_stmts = []
                for x in ast.walk(fi.node):
                    if isinstance(x, ast.Attribute) and x.attr == D:
                        if not (isinstance(x.value, ast.Name) and x.value.id == 'self'):
                            ok = False
                            break
                        pp = par.get(id(x))
                        if isinstance(pp, ast.Assign) and pp.value is x and len(pp.targets) == 1 and isinstance(pp.targets[0], ast.Name):
                            aliases.add(pp.targets[0].id)
                            alias_stmts.append(pp)
                        elif isinstance(pp, ast.Subscript) and pp.value is x:
                            pass
                        elif isinstance(pp, ast.Assign) and x in pp.targets and fi is init and isinstance(pp.value, ast.Dict):
                            pass
                        else:
                            ok = False
                            break
                if not ok:
                    break
                # an alias is a local bound once, used only as alias[...]
                for a in aliases:
                    binds = [n for n in ast.walk(fi.node) if isinstance(n, ast.Name) and n.id == a and isinstance(n.ctx, ast.Store)]
                    if len(binds) != 1 or a in [x.arg for x in fi.node.args.args]:
                        ok = False
                    for n in ast.walk(fi.node):
                        if isinstance(n, ast.Name) and n.id == a and isinstance(n.ctx, ast.Load):
                            pp = par.get(id(n))
                            if not (isinstance(pp, ast.Subscript) and pp.value is n):
                                ok = False
                if not ok:
                    break

                def is_D(e):
                    return (isinstance(e, ast.Attribute) and e.attr == D) or (isinstance(e, ast.Name) and e.id in aliases)
                stores = []
                for n in ast.walk(fi.node):
                    if isinstance(n, ast.Subscript) and is_D(n.value) and not isinstance(n.ctx, ast.Load):
                        pp = par.get(id(n))
                        if not (isinstance(n.ctx, ast.Store) and isinstance(pp, ast.Assign) and n in pp.targets):
                            ok = False
                            break
                        stores.append((pp, n))
                if not ok:
                    break
                if stores:
                    defs = {}
                    cnt = {}
                    for n in ast.walk(fi.node):
                        if isinstance(n, ast.Assign) and len(n.targets) == 1 and isinstance(n.targets[0], ast.Name):
                            cnt[n.targets[0].id] = cnt.get(n.targets[0].id, 0) + 1
                            defs[n.targets[0].id] = n.value
                    defs = {k: v for k, v in defs.items() if cnt[k] == 1}

                    def res(e):
                        e = copy.deepcopy(e)
                        for _ in range(3):
                            class R(ast.NodeTransformer):
                                def visit_Name(self, n):
                                    if isinstance(n.ctx, ast.Load) and n.id in defs and n.id not in aliases:
                                        return copy.deepcopy(defs[n.id])
                                    return n
                            e = R().visit(e)
                        return e
                    for st, tgt in stores:
                        k = tgt.slice
                        cs = [n for n in ast.walk(fi.node) if isinstance(n, ast.Assign) and len(n.targets) == 1 and isinstance(n.targets[0], ast.Subscript)
                              and isinstance(n.targets[0].value, ast.Attribute) and isinstance(n.targets[0].value.value, ast.Name) and n.targets[0].value.value.id == 'self'
                              and n.targets[0].value.attr in empties and n.targets[0].value.attr != D and ast.unparse(n.targets[0].slice) == ast.unparse(k)]
                        if len(cs) != 1:
                            ok = False
                            break
                        c_attr = cs[0].targets[0].value.attr
                        # the two stores stand in the same block: one is done exactly when the other is
                        same_block = False
                        pp_ = par.get(id(st))
                        for fld in ('body', 'orelse', 'finalbody'):
                            blk = getattr(pp_, fld, None)
                            if isinstance(blk, list) and st in blk and cs[0] in blk:
                                i0, i1 = sorted((blk.index(st), blk.index(cs[0])))
                                same_block = not any(isinstance(y, (ast.Return, ast.Raise, ast.Break, ast.Continue)) for z in blk[i0:i1 + 1] for y in ast.walk(z))
                        if not same_block:
                            ok = False
                            break
                        if C not in (None, c_attr):
                            ok = False
                            break
                        C = c_attr
                        try:
                            want = dict(lin(res(k)))
                            lv = 'len(%s)' % ast.unparse(res(cs[0].value))
                            want[lv] = want.get(lv, 0) + 1
                            got = {(ast.unparse(kk) if isinstance(kk, ast.AST) else kk): vv for kk, vv in lin(res(st.value)).items()}
                            want = {(ast.unparse(kk) if isinstance(kk, ast.AST) else kk): vv for kk, vv in want.items()}
                        except Exception:
                            ok = False
                            break
                        if got != want:
                            ok = False
                            break
                    if not ok:
                        break
                plan.append((fi, aliases, alias_stmts, stores))
            if not ok or C is None or not plan:
                continue
            # C itself must be a plain map: fine, nothing more is needed for the equivalence
            for fi, aliases, alias_stmts, stores in plan:
                def is_D(e, aliases=aliases):
                    return (isinstance(e, ast.Attribute) and e.attr == D) or (isinstance(e, ast.Name) and e.id in aliases)

                class T(ast.NodeTransformer):
                    def visit_Subscript(self, n):
                        self.generic_visit(n)
                        if isinstance(n.ctx, ast.Load) and is_D(n.value):
                            x = n.slice
                            cx = ast.Subscript(value=ast.Attribute(value=ast.Name(id='self', ctx=ast.Load()), attr=C, ctx=ast.Load()), slice=copy.deepcopy(x), ctx=ast.Load())
                            return ast.copy_location(ast.BinOp(left=copy.deepcopy(x), op=ast.Add(), right=ast.Call(func=ast.Name(id='len', ctx=ast.Load()), args=[cx], keywords=[])), n)
                        return n

                    def visit_Assign(self, n):
                        if n in alias_stmts:
                            return None
                        if fi is init and any(isinstance(t, ast.Attribute) and t.attr == D for t in n.targets) and isinstance(n.value, ast.Dict):
                            n.targets = [t for t in n.targets if not (isinstance(t, ast.Attribute) and t.attr == D)]
                            return n if n.targets else None
                        n.targets = [t for t in n.targets if not (isinstance(t, ast.Subscript) and is_D(t.value))]
                        if not n.targets:
                            return ast.copy_location(ast.Expr(value=self.visit(n.value)), n)
                        self.generic_visit(n)
                        return n
                fi.node.body = [y for y in (T().visit(x) for x in fi.node.body) if y is not None] or [ast.Pass()]
                ast.fix_missing_locations(fi.node)
            count += 1
    return count


def lower_module_records(repo):
    """``R = namedtuple('R', [f0, f1, ...])`` at module level, used only to build records
    (``R(a, b, c)``, also as ``module.R(...)`` from elsewhere): the constructor call is the tuple
    of its arguments in field order, and inside the defining module a read ``x.fi`` -- x a loop /
    comprehension / lambda variable or a parameter, or an element ``x[...]`` of one -- is
    ``x[i]``.  A namedtuple is a tuple: exact whenever x is a record, and the names considered are
    those no class of the module uses as an attribute of its own objects"""
    count = 0
    for mod, info in repo.modules.items():
        tree = info['tree']
        recs = {}
        for st in tree.body:
            if isinstance(st, ast.Assign) and len(st.targets) == 1 and isinstance(st.targets[0], ast.Name) and isinstance(st.value, ast.Call) \
                    and ast.unparse(st.value.func) in ('namedtuple', 'collections.namedtuple') and len(st.value.args) == 2:
                a = st.value.args[1]
                if isinstance(a, ast.Constant) and isinstance(a.value, str):
                    recs[st.targets[0].id] = (a.value.replace(',', ' ').split(), st)
                elif isinstance(a, (ast.List, ast.Tuple)) and all(isinstance(x, ast.Constant) and isinstance(x.value, str) for x in a.elts):
                    recs[st.targets[0].id] = ([x.value for x in a.elts], st)
        for R, (fields, decl) in recs.items():
            # every mention of R in the package is the callee of a complete constructor call
            sites, ok = [], True
            for m2, i2 in repo.modules.items():
                par = {}
                for pn in ast.walk(i2['tree']):
                    for c in ast.iter_child_nodes(pn):
                        par[id(c)] = pn
                for x in ast.walk(i2['tree']):
                    hit = None
                    if isinstance(x, ast.Name) and x.id == R and m2 == mod:
                        hit = x
                    elif isinstance(x, ast.Attribute) and x.attr == R and ast.unparse(x.value) in (mod, 'bisturi.' + mod):
                        hit = x
                    elif isinstance(x, ast.Name) and x.id == R and m2 != mod and any(isinstance(n, ast.ImportFrom) and (n.module or '').endswith(mod) and any((al.asname or al.name) == R for al in n.names) for n in ast.walk(i2['tree'])):
                        hit = x
                    if hit is None:
                        continue
                    pp = par.get(id(hit))
                    if pp is decl and isinstance(hit.ctx, ast.Store):
                        continue
                    if isinstance(pp, ast.Call) and pp.func is hit and len(pp.args) == 1 and isinstance(pp.args[0], ast.Starred) and not pp.keywords:
                        # R(*t): the same elements under field names -- the tuple itself for every read by position
                        sites.append((m2, pp, None))
                    elif isinstance(pp, ast.Call) and pp.func is hit:
                        vals = dict(zip(fields, pp.args))
                        bad = any(isinstance(a_, ast.Starred) for a_ in pp.args) or len(pp.args) > len(fields)
                        for k in pp.keywords:
                            if k.arg is None or k.arg in vals or k.arg not in fields:
                                bad = True
                            else:
                                vals[k.arg] = k.value
                        if bad or set(vals) != set(fields):
                            ok = False
                        else:
                            sites.append((m2, pp, vals))
                    elif isinstance(pp, ast.ImportFrom) or isinstance(hit.ctx, ast.Store):
                        continue
                    else:
                        ok = False
            if not ok or not sites:
                continue
            # names that objects of the module's own classes carry: not lowered
            own = set()
            for n in ast.walk(tree):
                if isinstance(n, ast.Attribute) and isinstance(n.ctx, ast.Store):
                    own.add(n.attr)
                elif isinstance(n, ast.ClassDef):
                    for b in n.body:
                        if isinstance(b, (ast.FunctionDef, ast.AsyncFunctionDef)):
                            own.add(b.name)
                        elif isinstance(b, ast.Assign):
                            own |= {t.id for t in b.targets if isinstance(t, ast.Name)}
            low = [f for f in fields if f not in own]
            if len(low) != len(fields):
                continue
            # constructor calls -> tuples
            for m2, call, vals in sites:
                new = ast.copy_location(ast.Tuple(elts=[vals[f] for f in fields], ctx=ast.Load()), call) if vals is not None else call.args[0].value
                for fi in repo.functions.values():
                    if fi.module == m2:
                        _Replace(call, new).visit(fi.node)
            # reads by field name -> reads by position, in the defining module
            for fi in repo.functions.values():
                if fi.module != mod or not isinstance(fi.node, (ast.FunctionDef, ast.Lambda)):
                    continue
                bound = {a.arg for a in fi.node.args.args + fi.node.args.kwonlyargs} - {'self', 'cls'}
                for n in ast.walk(fi.node):
                    if isinstance(n, ast.For):
                        bound |= {x.id for x in ast.walk(n.target) if isinstance(x, ast.Name)}
                    elif isinstance(n, (ast.ListComp, ast.GeneratorExp, ast.SetComp, ast.DictComp)):
                        for g in n.generators:
                            bound |= {x.id for x in ast.walk(g.target) if isinstance(x, ast.Name)}
                    elif isinstance(n, ast.Lambda):
                        bound |= {a.arg for a in n.args.args}

                class T(ast.NodeTransformer):
                    def visit_Attribute(self, n):
                        self.generic_visit(n)
                        if isinstance(n.ctx, ast.Load) and n.attr in fields:
                            base = n.value
                            while isinstance(base, ast.Subscript):
                                base = base.value
                            if isinstance(base, ast.Name) and base.id in bound:
                                return ast.copy_location(ast.Subscript(value=n.value, slice=ast.Constant(value=fields.index(n.attr)), ctx=ast.Load()), n)
                        return n
                T().visit(fi.node)
                ast.fix_missing_locations(fi.node)
            count += 1
    return count


def lower_value_objects(repo):
    """An immutable value class ``class R(namedtuple('R', [f0, f1])): __slots__ = ()`` with
    classmethod constructors (``return cls(e0, e1)``) and pure one-expression methods, kept in one
    attribute H of other objects (every store of ``.H`` anywhere is ``x.H = R(...)`` /
    ``x.H = R.ctor(...)``, every read is ``x.H.fi`` or ``x.H.method(...)``), and whose field names
    nothing else in the package stores: the holder is flattened away --
    ``x.H = R.ctor(a, b)`` is ``x.f0 = e0[a, b]; x.f1 = e1[a, b]``, ``x.H.fi`` is ``x.fi`` and
    ``x.H.method(args)`` is the method's expression over ``x.fi`` and the arguments.  Exact for
    what the rules read: the values stored and computed are the same expressions"""
    count = 0

    def simple(e):
        return isinstance(e, (ast.Name, ast.Constant)) or (isinstance(e, ast.Attribute) and simple(e.value))

    for mod, info in repo.modules.items():
        for cd in info['tree'].body:
            if not (isinstance(cd, ast.ClassDef) and len(cd.bases) == 1 and isinstance(cd.bases[0], ast.Call) and not cd.decorator_list
                    and ast.unparse(cd.bases[0].func) in ('namedtuple', 'collections.namedtuple') and len(cd.bases[0].args) == 2):
                continue
            a = cd.bases[0].args[1]
            if isinstance(a, ast.Constant) and isinstance(a.value, str):
                fields = a.value.replace(',', ' ').split()
            elif isinstance(a, (ast.List, ast.Tuple)) and all(isinstance(x, ast.Constant) and isinstance(x.value, str) for x in a.elts):
                fields = [x.value for x in a.elts]
            else:
                continue
            R = cd.name
            ctors, meths, ok = {}, {}, True
            for b in cd.body:
                if isinstance(b, ast.Expr) and isinstance(b.value, ast.Constant):
                    continue
                if isinstance(b, ast.Assign) and len(b.targets) == 1 and isinstance(b.targets[0], ast.Name) and b.targets[0].id == '__slots__':
                    continue
                if not isinstance(b, ast.FunctionDef):
                    ok = False
                    break
                body = [x for x in b.body if not (isinstance(x, ast.Expr) and isinstance(x.value, ast.Constant))]
                ar = b.args
                if len(body) != 1 or not isinstance(body[0], ast.Return) or body[0].value is None or ar.vararg or ar.kwarg or ar.kwonlyargs or ar.defaults or not ar.args:
                    ok = False
                    break
                if any(isinstance(x, (ast.Lambda, ast.ListComp, ast.GeneratorExp, ast.SetComp, ast.DictComp, ast.Yield, ast.NamedExpr, ast.Await)) for x in ast.walk(body[0].value)):
                    ok = False
                    break
                decs = [ast.unparse(d) for d in b.decorator_list]
                first = ar.args[0].arg
                params = [x.arg for x in ar.args[1:]]
                if decs == ['classmethod']:
                    v = body[0].value
                    if not (isinstance(v, ast.Call) and isinstance(v.func, ast.Name) and v.func.id == first and len(v.args) == len(fields) and not v.keywords
                            and not any(isinstance(x, ast.Name) and x.id == first for a_ in v.args for x in ast.walk(a_))):
                        ok = False
                        break
                    ctors[b.name] = (params, list(v.args))
                elif not decs:
                    uses = [x for x in ast.walk(body[0].value) if isinstance(x, ast.Name) and x.id == first]
                    attrs = [x for x in ast.walk(body[0].value) if isinstance(x, ast.Attribute) and isinstance(x.value, ast.Name) and x.value.id == first]
                    if len(uses) != len(attrs) or any(x.attr not in fields or not isinstance(x.ctx, ast.Load) for x in attrs):
                        ok = False
                        break
                    meths[b.name] = (first, params, body[0].value)
                else:
                    ok = False
                    break
            if not ok:
                continue
            # every mention of R: a constructor call R(...) / R.ctor(...) that is the value of a store x.H = ...
            holders, stores = set(), []
            for m2, i2 in repo.modules.items():
                par = {}
                for pn in ast.walk(i2['tree']):
                    for c in ast.iter_child_nodes(pn):
                        par[id(c)] = pn
                for x in ast.walk(i2['tree']):
                    if not (isinstance(x, ast.Name) and x.id == R and isinstance(x.ctx, ast.Load)):
                        continue
                    if m2 != mod:
                        continue
                    pp = par.get(id(x))
                    call = None
                    if isinstance(pp, ast.Call) and pp.func is x:
                        call, ctor = pp, None
                    elif isinstance(pp, ast.Attribute) and pp.attr in ctors and isinstance(par.get(id(pp)), ast.Call) and par[id(pp)].func is pp:
                        call, ctor = par[id(pp)], pp.attr
                    if call is None or call.keywords or any(isinstance(a_, ast.Starred) for a_ in call.args):
                        ok = False
                        break
                    st = par.get(id(call))
                    if not (isinstance(st, ast.Assign) and st.value is call and len(st.targets) == 1 and isinstance(st.targets[0], ast.Attribute)):
                        ok = False
                        break
                    n_need = len(fields) if ctor is None else len(ctors[ctor][0])
                    if len(call.args) != n_need or (ctor is not None and not all(simple(a_) for a_ in call.args)):
                        ok = False
                        break
                    holders.add(st.targets[0].attr)
                    stores.append((st, call, ctor))
                if not ok:
                    break
            if not ok or len(holders) != 1:
                continue
            H = list(holders)[0]
            store_ids = {id(st) for st, _, _ in stores}
            in_cd = {id(x) for x in ast.walk(cd)}
            dead_stores, direct_reads = [], []
            for m2, i2 in repo.modules.items():
                par = {}
                for pn in ast.walk(i2['tree']):
                    for c in ast.iter_child_nodes(pn):
                        par[id(c)] = pn
                for x in ast.walk(i2['tree']):
                    if isinstance(x, ast.Attribute) and x.attr == H:
                        pp = par.get(id(x))
                        if isinstance(x.ctx, ast.Store):
                            if id(pp) not in store_ids:
                                ok = False
                        elif isinstance(x.ctx, ast.Load):
                            if not (isinstance(pp, ast.Attribute) and pp.value is x and isinstance(pp.ctx, ast.Load) and
                                    (pp.attr in fields or (pp.attr in meths and isinstance(par.get(id(pp)), ast.Call) and par[id(pp)].func is pp
                                                           and not par[id(pp)].keywords and len(par[id(pp)].args) == len(meths[pp.attr][1])))):
                                ok = False
                        else:
                            ok = False
                    elif isinstance(x, ast.Attribute) and x.attr in fields and isinstance(x.ctx, (ast.Store, ast.Del)):
                        # a store of the same name elsewhere: tolerated only when it is dead (the name is
                        # never read except through the holder) and pure -- it is dropped below
                        pp = par.get(id(x))
                        dead = isinstance(pp, ast.Assign) and len(pp.targets) == 1 and pp.targets[0] is x and not any(isinstance(y, (ast.Call, ast.Yield, ast.Await, ast.NamedExpr)) for y in ast.walk(pp.value))
                        if dead:
                            dead_stores.append(pp)
                        else:
                            ok = False
                    elif isinstance(x, ast.Attribute) and x.attr in fields and isinstance(x.ctx, ast.Load) and not (isinstance(x.value, ast.Attribute) and x.value.attr == H) \
                            and id(x) not in in_cd:
                        direct_reads.append(x)
                    elif isinstance(x, ast.Constant) and isinstance(x.value, str) and x.value in [H] + fields and id(x) not in in_cd:
                        ok = False
            if not ok:
                continue
            if dead_stores and any(r.attr in {d.targets[0].attr for d in dead_stores} for r in direct_reads):
                continue
            dead_ids = {id(d) for d in dead_stores}
            # method arguments: substituted once each, in signature order, or simple
            def arg_ok(mname, args):
                first, params, body = meths[mname]
                order = [x.id for x in ast.walk(body) if isinstance(x, ast.Name) and x.id in params]
                once = sorted(order) == sorted(params) and len(order) == len(params)
                return all(simple(a_) for a_ in args) or once
            bad = False
            for fi in repo.functions.values():
                for x in ast.walk(fi.node):
                    if isinstance(x, ast.Call) and isinstance(x.func, ast.Attribute) and x.func.attr in meths and isinstance(x.func.value, ast.Attribute) and x.func.value.attr == H:
                        if not arg_ok(x.func.attr, x.args):
                            bad = True
            if bad:
                continue

            class Sub(ast.NodeTransformer):
                def __init__(self, m):
                    self.m = m

                def visit_Name(self, n):
                    if isinstance(n.ctx, ast.Load) and n.id in self.m:
                        return copy.deepcopy(self.m[n.id])
                    return n

            class T(ast.NodeTransformer):
                def visit_Call(self, n):
                    self.generic_visit(n)
                    f = n.func
                    if isinstance(f, ast.Attribute) and f.attr in meths and isinstance(f.value, ast.Attribute) and f.value.attr == H:
                        first, params, body = meths[f.attr]
                        holder = f.value.value
                        b = copy.deepcopy(body)

                        class S2(ast.NodeTransformer):
                            def visit_Attribute(self, a):
                                if isinstance(a.value, ast.Name) and a.value.id == first:
                                    return ast.Attribute(value=copy.deepcopy(holder), attr=a.attr, ctx=ast.Load())
                                return self.generic_visit(a)
                        b = S2().visit(b)
                        b = Sub(dict(zip(params, n.args))).visit(b)
                        return ast.copy_location(b, n)
                    return n

                def visit_Attribute(self, n):
                    self.generic_visit(n)
                    if isinstance(n.ctx, ast.Load) and n.attr in fields and isinstance(n.value, ast.Attribute) and n.value.attr == H:
                        return ast.copy_location(ast.Attribute(value=n.value.value, attr=n.attr, ctx=ast.Load()), n)
                    return n

            def block(stmts):
                out = []
                for s_ in stmts:
                    if id(s_) in dead_ids:
                        continue
                    if id(s_) in store_ids:
                        st, call, ctor = [z for z in stores if z[0] is s_][0]
                        vals = list(call.args) if ctor is None else [Sub(dict(zip(ctors[ctor][0], call.args))).visit(copy.deepcopy(e)) for e in ctors[ctor][1]]
                        holder = s_.targets[0].value
                        for f_, v in zip(fields, vals):
                            out.append(ast.copy_location(ast.Assign(targets=[ast.Attribute(value=copy.deepcopy(holder), attr=f_, ctx=ast.Store())], value=T().visit(v)), s_))
                        continue
                    for fld in ('body', 'orelse', 'finalbody'):
                        sub = getattr(s_, fld, None)
                        if isinstance(sub, list) and sub and isinstance(sub[0], ast.stmt):
                            setattr(s_, fld, block(sub))
                    if isinstance(s_, ast.Try):
                        for h in s_.handlers:
                            h.body = block(h.body)
                    out.append(s_)
                return out
            for fi in repo.functions.values():
                if isinstance(fi.node, ast.FunctionDef) and fi.cls is not None and fi.cls.node is cd:
                    continue
                if isinstance(fi.node, ast.FunctionDef):
                    fi.node.body = block(fi.node.body)
                    T().visit(fi.node)
                    ast.fix_missing_locations(fi.node)
            count += 1
    return count


def lower_compiled_aliases(repo):
    """``self.A = self.X.m`` as a statement of C._compile that stands after the statement
    ``self.X._compile(...)``: a method of the (now compiled) sub-field looked up once.  When A is
    stored nowhere else, ``.m`` is only ever stored by declaration-phase methods (_compile & co,
    __init__) and ``self.X`` only by __init__, the cached value is what ``self.X.m`` evaluates to
    at any later time: every read ``self.A`` in the class is rewritten to ``self.X.m`` and the
    store is dropped -- the form the code has without the cache"""
    from .effects import COMPILE_PHASE_NAMES
    count = 0
    stores_of = {}
    for fi in repo.functions.values():
        last = fi.qual.split('.')[-1]
        for n in ast.walk(fi.node):
            if isinstance(n, ast.Attribute) and isinstance(n.ctx, (ast.Store, ast.Del)):
                stores_of.setdefault(n.attr, []).append((fi, last, n))
            elif isinstance(n, ast.Call) and isinstance(n.func, ast.Name) and n.func.id in ('setattr', 'delattr') and len(n.args) >= 2 and isinstance(n.args[1], ast.Constant):
                stores_of.setdefault(n.args[1].value, []).append((fi, last, n))
    alias_targets = {}
    for fi in repo.functions.values():
        if fi.qual.split('.')[-1] == '_compile' and isinstance(fi.node, ast.FunctionDef):
            for st in fi.node.body:
                if isinstance(st, ast.Assign) and len(st.targets) == 1 and isinstance(st.targets[0], ast.Attribute) and isinstance(st.value, ast.Attribute) \
                        and isinstance(st.value.value, ast.Attribute):
                    alias_targets[id(st.targets[0])] = (st.targets[0].attr, st.value.value.attr, st.value.attr)

    def _is_alias_store(node, A, X, m):
        return alias_targets.get(id(node)) == (A, X, m)
    strings = {n.value for info in repo.modules.values() for n in ast.walk(info['tree']) if isinstance(n, ast.Constant) and isinstance(n.value, str)}
    for ci in list(repo.classes.values()):
        comp = ci.methods.get('_compile')
        if comp is None or not isinstance(comp.node, ast.FunctionDef):
            continue
        compiled = set()
        plan = []
        for st in comp.node.body:
            if isinstance(st, ast.Expr) and isinstance(st.value, ast.Call) and isinstance(st.value.func, ast.Attribute) and st.value.func.attr == '_compile' \
                    and isinstance(st.value.func.value, ast.Attribute) and isinstance(st.value.func.value.value, ast.Name) and st.value.func.value.value.id == 'self':
                compiled.add(st.value.func.value.attr)
            elif isinstance(st, ast.Assign) and len(st.targets) == 1 and isinstance(st.targets[0], ast.Attribute) and isinstance(st.targets[0].value, ast.Name) \
                    and st.targets[0].value.id == 'self' and isinstance(st.value, ast.Attribute) and isinstance(st.value.value, ast.Attribute) \
                    and isinstance(st.value.value.value, ast.Name) and st.value.value.value.id == 'self':
                A, X, m = st.targets[0].attr, st.value.value.attr, st.value.attr
                if X not in compiled or A in strings:
                    continue
                if any(not _is_alias_store(par_n, A, X, m) for _, _, par_n in stores_of.get(A, [])):
                    continue
                if any(not (last in COMPILE_PHASE_NAMES or last in ('__init__', '__new__')) for _, last, _ in stores_of.get(m, [])):
                    continue
                if any(last not in ('__init__', '__new__') for _, last, _ in stores_of.get(X, [])):
                    continue
                plan.append((st, A, X, m))
        if not plan:
            continue
        amap = {A: (X, m) for _, A, X, m in plan}
        drop = {id(st) for st, _, _, _ in plan}
        comp.node.body = [st for st in comp.node.body if id(st) not in drop]

        class T(ast.NodeTransformer):
            def visit_Attribute(self, n):
                self.generic_visit(n)
                if isinstance(n.ctx, ast.Load) and n.attr in amap and isinstance(n.value, ast.Name) and n.value.id == 'self':
                    X, m = amap[n.attr]
                    return ast.copy_location(ast.Attribute(value=ast.Attribute(value=ast.Name(id='self', ctx=ast.Load()), attr=X, ctx=ast.Load()), attr=m, ctx=ast.Load()), n)
                return n
        for c in set([ci]) | set(repo.subclasses(ci.name)):
            for fi in c.methods.values():
                if isinstance(fi.node, ast.FunctionDef):
                    T().visit(fi.node)
                    ast.fix_missing_locations(fi.node)
        count += len(plan)
    return count


def lower_getters(repo):
    """module-level ``N = operator.attrgetter('a.b')`` / ``N = operator.itemgetter(i)`` (one key):
    ``N(e)`` is ``e.a.b`` / ``e[i]`` and the bare name N, handed on as a function, is
    ``lambda _g: _g.a.b`` / ``lambda _g: _g[i]``.  Likewise a module-level function whose body is
    one ``return <expression of its only parameter>`` and that is handed on by name (a key
    function) is that lambda.  Exact"""
    count = 0
    for mod, info in repo.modules.items():
        tree = info['tree']
        getters = {}
        for st in tree.body:
            if isinstance(st, ast.Assign) and len(st.targets) == 1 and isinstance(st.targets[0], ast.Name) and isinstance(st.value, ast.Call) \
                    and ast.unparse(st.value.func) in ('attrgetter', 'operator.attrgetter', 'itemgetter', 'operator.itemgetter') and len(st.value.args) == 1 \
                    and not st.value.keywords and isinstance(st.value.args[0], ast.Constant):
                kind = 'attr' if 'attrgetter' in ast.unparse(st.value.func) else 'item'
                v = st.value.args[0].value
                if kind == 'attr' and not (isinstance(v, str) and all(x.isidentifier() for x in v.split('.'))):
                    continue
                getters[st.targets[0].id] = (kind, v)
        # names bound more than once at module level are left alone
        for nm in list(getters):
            if sum(1 for st in tree.body if isinstance(st, (ast.Assign, ast.FunctionDef, ast.ClassDef)) and
                   ((isinstance(st, ast.Assign) and any(isinstance(t, ast.Name) and t.id == nm for t in st.targets)) or getattr(st, 'name', None) == nm)) != 1:
                getters.pop(nm)
        if not getters:
            continue

        def apply(nm, e):
            kind, v = getters[nm]
            if kind == 'item':
                return ast.Subscript(value=e, slice=ast.Constant(value=v), ctx=ast.Load())
            for part in v.split('.'):
                e = ast.Attribute(value=e, attr=part, ctx=ast.Load())
            return e

        class T(ast.NodeTransformer):
            def visit_Call(self, n):
                if isinstance(n.func, ast.Name) and n.func.id in getters and len(n.args) == 1 and not n.keywords and not isinstance(n.args[0], ast.Starred):
                    arg = self.visit(n.args[0])
                    return ast.copy_location(apply(n.func.id, arg), n)
                return self.generic_visit(n)

            def visit_Name(self, n):
                if isinstance(n.ctx, ast.Load) and n.id in getters:
                    lam = ast.Lambda(args=ast.arguments(posonlyargs=[], args=[ast.arg(arg='_g')], kwonlyargs=[], kw_defaults=[], defaults=[]),
                                     body=apply(n.id, ast.Name(id='_g', ctx=ast.Load())))
                    return ast.copy_location(lam, n)
                return n
        for fi in repo.functions.values():
            if fi.module == mod and isinstance(fi.node, ast.FunctionDef):
                local = {x.id for x in ast.walk(fi.node) if isinstance(x, ast.Name) and isinstance(x.ctx, ast.Store)} | {a.arg for a in fi.node.args.args}
                if local & set(getters):
                    continue
                fi.node.body = [T().visit(x) for x in fi.node.body]
                ast.fix_missing_locations(fi.node)
        count += len(getters)
        # one-expression module functions handed on by name
        for st in list(tree.body):
            if not (isinstance(st, ast.FunctionDef) and not st.decorator_list and len(st.args.args) == 1 and not (st.args.vararg or st.args.kwarg or st.args.kwonlyargs or st.args.defaults)):
                continue
            body = [b for b in st.body if not (isinstance(b, ast.Expr) and isinstance(b.value, ast.Constant))]
            if len(body) != 1 or not isinstance(body[0], ast.Return) or body[0].value is None:
                continue
            if any(isinstance(x, (ast.Lambda, ast.Yield, ast.Await, ast.NamedExpr, ast.ListComp, ast.GeneratorExp, ast.SetComp, ast.DictComp)) for x in ast.walk(body[0].value)):
                continue
            prm = st.args.args[0].arg
            free = {x.id for x in ast.walk(body[0].value) if isinstance(x, ast.Name)} - {prm}
            if free - set(dir(__builtins__) if not isinstance(__builtins__, dict) else __builtins__):
                continue
            nm = st.name

            class K(ast.NodeTransformer):
                def visit_Call(self, n):
                    # only the arguments: a direct call f(x) is left to the helper inliner
                    n.args = [self.visit(a_) for a_ in n.args]
                    n.keywords = [ast.keyword(arg=k_.arg, value=self.visit(k_.value)) for k_ in n.keywords]
                    if not (isinstance(n.func, ast.Name) and n.func.id == nm):
                        n.func = self.visit(n.func)
                    return n

                def visit_Name(self, n):
                    if isinstance(n.ctx, ast.Load) and n.id == nm:
                        lam = ast.Lambda(args=copy.deepcopy(st.args), body=copy.deepcopy(body[0].value))
                        return ast.copy_location(lam, n)
                    return n
            for fi in repo.functions.values():
                if fi.module == mod and isinstance(fi.node, ast.FunctionDef) and fi.node is not st:
                    local = {x.id for x in ast.walk(fi.node) if isinstance(x, ast.Name) and isinstance(x.ctx, ast.Store)} | {a.arg for a in fi.node.args.args}
                    if nm in local:
                        continue
                    fi.node.body = [K().visit(x) for x in fi.node.body]
                    ast.fix_missing_locations(fi.node)
    return count


def lower_local_method_aliases(repo):
    """``x = self.m`` where m is a method defined by the class (or a base) and the local x is bound
    once and only ever called: the calls ``x(...)`` are ``self.m(...)`` and the binding is dropped.
    (A bound method looked up a few statements earlier is the same bound method.)  This lets a
    helper that is also kept in a local for a loop be expanded like any other helper"""
    count = 0
    for fi in list(repo.functions.values()):
        if fi.cls is None or not isinstance(fi.node, ast.FunctionDef) or not fi.node.args.args:
            continue
        me = fi.node.args.args[0].arg
        methods = set()
        for c in repo.mro(fi.cls):
            methods |= {k for k, v in c.methods.items() if isinstance(v.node, ast.FunctionDef) and not v.node.decorator_list}
        # attributes that are assigned as data anywhere are not methods for this purpose
        cands = {}
        params_ = {a.arg for a in fi.node.args.args[1:]} - _assigned(fi.node)
        for st in fi.node.body:
            if isinstance(st, ast.Assign) and len(st.targets) == 1 and isinstance(st.targets[0], ast.Name) and isinstance(st.value, ast.Attribute) \
                    and isinstance(st.value.value, ast.Name) and st.value.value.id == me and st.value.attr in methods and not st.value.attr.startswith('__'):
                cands[st.targets[0].id] = st
            elif isinstance(st, ast.Assign) and len(st.targets) == 1 and isinstance(st.targets[0], ast.Name) and isinstance(st.value, ast.Attribute) \
                    and isinstance(st.value.value, ast.Name) and st.value.value.id in params_ and not st.value.attr.startswith('__') \
                    and sum(1 for c_ in repo.classes.values() if st.value.attr in c_.methods) == 1 \
                    and not any(repo.is_subclass(c_, 'Field') or repo.is_subclass(c_, 'Packet') for c_ in repo.classes.values() if st.value.attr in c_.methods):
                cands[st.targets[0].id] = st        # a step of a utility class asked of a parameter (the output buffer)
        if not cands:
            continue
        par = {}
        for pn in ast.walk(fi.node):
            for c in ast.iter_child_nodes(pn):
                par[id(c)] = pn
        for x, st in list(cands.items()):
            stores = [n for n in ast.walk(fi.node) if isinstance(n, ast.Name) and n.id == x and isinstance(n.ctx, (ast.Store, ast.Del))]
            loads = [n for n in ast.walk(fi.node) if isinstance(n, ast.Name) and n.id == x and isinstance(n.ctx, ast.Load)]
            attr = st.value.attr
            stored_as_data = any(isinstance(n, ast.Attribute) and n.attr == attr and isinstance(n.ctx, ast.Store) for info in repo.modules.values() for n in ast.walk(info['tree']))
            if len(stores) != 1 or stored_as_data or not loads or any(not (isinstance(par.get(id(n)), ast.Call) and par[id(n)].func is n) for n in loads):
                continue
            if any(isinstance(n, (ast.FunctionDef, ast.Lambda)) and n is not fi.node and any(isinstance(y, ast.Name) and y.id == x for y in ast.walk(n)) for n in ast.walk(fi.node)):
                continue
            for n in loads:
                call = par[id(n)]
                call.func = ast.copy_location(ast.Attribute(value=ast.Name(id=st.value.value.id, ctx=ast.Load()), attr=attr, ctx=ast.Load()), n)
            fi.node.body = [b for b in fi.node.body if b is not st]
            count += 1
        ast.fix_missing_locations(fi.node)
    return count


def lower_merged_handlers(repo):
    """``except Exception [as e]: <simple bindings>; if isinstance(X, K): A  [else:] B`` -- X the
    caught exception (e, or a local bound to sys.exc_info()[1]), K a class of the package derived
    from Exception, A ending in raise / return -- is the pair of handlers
    ``except K as e: <bindings>; A`` followed by ``except Exception as e: <bindings>; B``.
    Exact: the first handler whose class matches runs, and K is a subclass of Exception"""
    count = 0
    for fi in repo.functions.values():
        if not isinstance(fi.node, ast.FunctionDef):
            continue
        for t in ast.walk(fi.node):
            if not isinstance(t, ast.Try):
                continue
            new_handlers = []
            changed = False
            for h in t.handlers:
                ty = ast.unparse(h.type) if h.type is not None else None
                if ty not in ('Exception', 'BaseException') or not h.body:
                    new_handlers.append(h)
                    continue
                pre, rest = [], list(h.body)
                while rest and isinstance(rest[0], ast.Assign) and len(rest[0].targets) == 1 and isinstance(rest[0].targets[0], ast.Name) \
                        and not any(isinstance(x, ast.Call) and not (ast.unparse(x.func) in ('sys.exc_info',)) for x in ast.walk(rest[0].value)):
                    pre.append(rest.pop(0))
                if not rest or not isinstance(rest[0], ast.If):
                    new_handlers.append(h)
                    continue
                iff = rest[0]
                tst = iff.test
                if not (isinstance(tst, ast.Call) and isinstance(tst.func, ast.Name) and tst.func.id == 'isinstance' and len(tst.args) == 2
                        and isinstance(tst.args[0], ast.Name) and isinstance(tst.args[1], ast.Name)):
                    new_handlers.append(h)
                    continue
                X, K = tst.args[0].id, tst.args[1].id
                is_exc = X == h.name or any(isinstance(a, ast.Assign) and a.targets[0].id == X and ast.unparse(a.value) in ('sys.exc_info()[1]',) for a in pre)
                kcls = repo.classes.get(K)
                if not is_exc or kcls is None or not any(b in ('Exception',) or b.endswith('Error') for b in kcls.base_names):
                    new_handlers.append(h)
                    continue
                ends = iff.body and isinstance(iff.body[-1], (ast.Raise, ast.Return))
                name = h.name or X
                bind = [] if h.name == X or not any(isinstance(a, ast.Assign) and a.targets[0].id == X for a in pre) else []
                pre_wo = [a for a in pre if not (a.targets[0].id == X and ast.unparse(a.value) == 'sys.exc_info()[1]')]
                body_a = copy.deepcopy(pre_wo) + copy.deepcopy(iff.body) + ([] if ends else copy.deepcopy(rest[1:]))
                body_b = copy.deepcopy(pre_wo) + (copy.deepcopy(iff.orelse) if iff.orelse else []) + copy.deepcopy(rest[1:])
                if not body_b:
                    body_b = [ast.Pass()]
                ha = ast.ExceptHandler(type=ast.Name(id=K, ctx=ast.Load()), name=name, body=body_a)
                hb = ast.ExceptHandler(type=h.type, name=name, body=body_b)
                ast.copy_location(ha, h)
                ast.copy_location(hb, h)
                new_handlers.extend([ha, hb])
                changed = True
            if changed:
                t.handlers = new_handlers
                count += 1
        ast.fix_missing_locations(fi.node)
    return count


def lower_properties(repo):
    """A read-only ``@property`` whose body is one ``return <expression over self>`` (no calls
    with effects: only attribute reads, constants, operators, conditional expressions and calls of
    builtins on them), whose name no other class of the package defines and nothing in the package
    stores, and that has no setter: every read ``x.p`` (x a name or attribute chain) is the
    expression with ``x`` for ``self``.  Exact: the property is computed at every read from the
    same attributes"""
    import builtins
    count = 0
    defs = {}          # name -> number of class-level definitions in the package
    props = {}
    for ci in repo.classes.values():
        for b in ci.node.body:
            if isinstance(b, (ast.FunctionDef, ast.AsyncFunctionDef)):
                defs[b.name] = defs.get(b.name, 0) + 1
            elif isinstance(b, ast.Assign):
                for t in b.targets:
                    for x in ast.walk(t):
                        if isinstance(x, ast.Name):
                            defs[x.id] = defs.get(x.id, 0) + 1
            elif isinstance(b, ast.AnnAssign) and isinstance(b.target, ast.Name):
                defs[b.target.id] = defs.get(b.target.id, 0) + 1
    for ci in repo.classes.values():
        for b in ci.node.body:
            if not (isinstance(b, ast.FunctionDef) and len(b.decorator_list) == 1 and isinstance(b.decorator_list[0], ast.Name) and b.decorator_list[0].id == 'property'):
                continue
            ar = b.args
            if len(ar.args) != 1 or ar.vararg or ar.kwarg or ar.kwonlyargs or ar.defaults:
                continue
            body = [x for x in b.body if not (isinstance(x, ast.Expr) and isinstance(x.value, ast.Constant))]
            if len(body) != 1 or not isinstance(body[0], ast.Return) or body[0].value is None:
                continue
            e = body[0].value
            sname = ar.args[0].arg
            ok = defs.get(b.name, 0) == 1
            for x in ast.walk(e):
                if isinstance(x, (ast.Lambda, ast.Yield, ast.YieldFrom, ast.Await, ast.NamedExpr, ast.ListComp, ast.GeneratorExp, ast.SetComp, ast.DictComp, ast.Starred)):
                    ok = False
                elif isinstance(x, ast.Name) and x.id != sname and not (hasattr(builtins, x.id)):
                    ok = False
                elif isinstance(x, ast.Call) and not (isinstance(x.func, ast.Name) and x.func.id in ('len', 'int', 'bool', 'str', 'bytes', 'tuple', 'abs', 'min', 'max', 'isinstance')):
                    ok = False
                elif isinstance(x, ast.Attribute) and x.attr == b.name:
                    ok = False
            if ok:
                props[b.name] = (sname, e, ci)
    if not props:
        return 0
    # nothing stores / deletes the name, nobody reaches it by string
    for info in repo.modules.values():
        for x in ast.walk(info['tree']):
            if isinstance(x, ast.Attribute) and x.attr in props and not isinstance(x.ctx, ast.Load):
                props.pop(x.attr, None)
            elif isinstance(x, ast.Constant) and isinstance(x.value, str) and x.value in props:
                props.pop(x.value, None)
            elif isinstance(x, ast.Call) and isinstance(x.func, ast.Attribute) and x.func.attr in props:
                # the name is also called somewhere (``match.end()``): objects from outside the
                # package answer to it too
                props.pop(x.func.attr, None)
    if not props:
        return 0

    def simple(e):
        return isinstance(e, ast.Name) or (isinstance(e, ast.Attribute) and simple(e.value))

    class Sub(ast.NodeTransformer):
        def __init__(self, sname, recv):
            self.sname, self.recv = sname, recv

        def visit_Name(self, n):
            if n.id == self.sname:
                return copy.deepcopy(self.recv)
            return n

    class T(ast.NodeTransformer):
        def visit_Attribute(self, n):
            self.generic_visit(n)
            if isinstance(n.ctx, ast.Load) and n.attr in props and simple(n.value):
                sname, e, _ = props[n.attr]
                nonlocal count
                count += 1
                return ast.copy_location(Sub(sname, n.value).visit(copy.deepcopy(e)), n)
            return n
    for fi in repo.functions.values():
        if isinstance(fi.node, ast.FunctionDef) and not (fi.node.name in props and fi.cls is not None and fi.cls is props[fi.node.name][2]):
            fi.node.body = [T().visit(x) for x in fi.node.body]
            ast.fix_missing_locations(fi.node)
    return count


def lower_named_entries(repo):
    """Round 9.  ``T = namedtuple('T', [f0, f1, ...])`` at module level, used for the entries of
    the field table: ``T(a, b, ...)`` (all fields, positional) is the tuple ``(a, b, ...)``,
    ``T._make(x)`` / ``T(*x)`` is ``tuple(x)``, and ``e.fi`` is ``e[i]`` where ``e`` is a loop /
    comprehension variable that runs over the field table (``X.get_fields()``, ``self.fields``,
    possibly under ``enumerate``) and is bound nowhere else in the function.  Exact: a named
    tuple is that tuple, and its named parts are its positions"""
    count = 0
    records = {}
    for mod, info in repo.modules.items():
        for st in info['tree'].body:
            if isinstance(st, ast.Assign) and len(st.targets) == 1 and isinstance(st.targets[0], ast.Name) and isinstance(st.value, ast.Call) \
                    and ast.unparse(st.value.func) in ('namedtuple', 'collections.namedtuple') and len(st.value.args) == 2 and not st.value.keywords:
                a = st.value.args[1]
                if isinstance(a, ast.Constant) and isinstance(a.value, str):
                    fields = a.value.replace(',', ' ').split()
                elif isinstance(a, (ast.List, ast.Tuple)) and all(isinstance(x, ast.Constant) and isinstance(x.value, str) for x in a.elts):
                    fields = [x.value for x in a.elts]
                else:
                    continue
                if st.targets[0].id in records:
                    records[st.targets[0].id] = None
                else:
                    records[st.targets[0].id] = fields
    records = {k: v for k, v in records.items() if v}
    # only the records that are the rows of a field table: built in an assignment of ``self.fields``
    rows = set()
    for fi in repo.functions.values():
        for n in ast.walk(fi.node):
            if isinstance(n, (ast.Assign, ast.AugAssign)) and any(ast.unparse(t) == 'self.fields' for t in (n.targets if isinstance(n, ast.Assign) else [n.target])):
                for c in ast.walk(n.value):
                    if isinstance(c, ast.Call):
                        f = c.func.value if isinstance(c.func, ast.Attribute) and c.func.attr == '_make' else c.func
                        if isinstance(f, ast.Name) and f.id in records:
                            rows.add(f.id)
    records = {k: v for k, v in records.items() if k in rows}
    if not records:
        return 0
    by_field = {}
    for r, fs in records.items():
        for i, f in enumerate(fs):
            by_field.setdefault(f, set()).add(i)

    def table_iter(it):
        if isinstance(it, ast.Call) and isinstance(it.func, ast.Name) and it.func.id == 'enumerate' and len(it.args) == 1:
            return 'enum', it.args[0]
        return 'plain', it

    def is_table(e):
        t = ast.unparse(e)
        return t.endswith('.get_fields()') or t in ('self.fields', 'get_fields()')

    for fi in repo.functions.values():
        if not isinstance(fi.node, ast.FunctionDef):
            continue
        fn = fi.node
        # constructors
        class C(ast.NodeTransformer):
            def visit_Call(self, n):
                self.generic_visit(n)
                nonlocal count
                if isinstance(n.func, ast.Name) and n.func.id in records and not n.keywords:
                    if len(n.args) == len(records[n.func.id]) and not any(isinstance(a, ast.Starred) for a in n.args):
                        count += 1
                        return ast.copy_location(ast.Tuple(elts=list(n.args), ctx=ast.Load()), n)
                    if len(n.args) == 1 and isinstance(n.args[0], ast.Starred):
                        count += 1
                        return ast.copy_location(ast.Call(func=ast.Name(id='tuple', ctx=ast.Load()), args=[n.args[0].value], keywords=[]), n)
                if isinstance(n.func, ast.Attribute) and n.func.attr == '_make' and isinstance(n.func.value, ast.Name) and n.func.value.id in records and len(n.args) == 1 and not n.keywords:
                    count += 1
                    return ast.copy_location(ast.Call(func=ast.Name(id='tuple', ctx=ast.Load()), args=[n.args[0]], keywords=[]), n)
                return n
        fn.body = [C().visit(x) for x in fn.body]
        # entry variables
        stores = {}
        for x in ast.walk(fn):
            if isinstance(x, ast.Name) and isinstance(x.ctx, ast.Store):
                stores[x.id] = stores.get(x.id, 0) + 1
        entry_vars = set()
        for x in ast.walk(fn):
            gens = []
            if isinstance(x, ast.For):
                gens.append((x.target, x.iter))
            elif isinstance(x, (ast.ListComp, ast.GeneratorExp, ast.SetComp, ast.DictComp)):
                gens.extend((g.target, g.iter) for g in x.generators)
            for tgt, it in gens:
                kind, src = table_iter(it)
                if not is_table(src):
                    continue
                if kind == 'enum' and isinstance(tgt, ast.Tuple) and len(tgt.elts) == 2:
                    tgt = tgt.elts[1]
                elif kind == 'enum':
                    continue
                if isinstance(tgt, ast.Name) and stores.get(tgt.id) == 1:
                    entry_vars.add(tgt.id)
        if not entry_vars:
            ast.fix_missing_locations(fn)
            continue

        class A(ast.NodeTransformer):
            def visit_Attribute(self, n):
                self.generic_visit(n)
                nonlocal count
                if isinstance(n.ctx, ast.Load) and isinstance(n.value, ast.Name) and n.value.id in entry_vars and n.attr in by_field and len(by_field[n.attr]) == 1:
                    count += 1
                    return ast.copy_location(ast.Subscript(value=n.value, slice=ast.Constant(value=next(iter(by_field[n.attr]))), ctx=ast.Load()), n)
                return n
        fn.body = [A().visit(x) for x in fn.body]
        ast.fix_missing_locations(fn)
    return count


def lower_concatenated_comprehension_loops(repo):
    """Round 9.  ``L = [E1 for x in X] + [E2 for y in Y]`` (L assigned once, used once: as the
    iterable of the ``for T in L`` that follows in the same block) is the loops written out:
    ``for x in X: T = E1; body`` then ``for y in Y: T = E2; body``.  The comprehension variables
    must not be used anywhere else in the function.  Exact: same elements, same order"""
    count = 0

    def own_names(fn):
        """Name nodes of the function outside nested function scopes"""
        out = []
        stack = list(fn.body)
        while stack:
            n = stack.pop()
            if isinstance(n, (ast.FunctionDef, ast.AsyncFunctionDef, ast.Lambda, ast.ClassDef)):
                continue
            if isinstance(n, ast.Name):
                out.append(n)
            stack.extend(ast.iter_child_nodes(n))
        return out

    for fi in repo.functions.values():
        fn = fi.node
        if not isinstance(fn, ast.FunctionDef):
            continue
        names = own_names(fn)

        def comps_of(e):
            if isinstance(e, ast.BinOp) and isinstance(e.op, ast.Add):
                l, r = comps_of(e.left), comps_of(e.right)
                return None if l is None or r is None else l + r
            if isinstance(e, ast.ListComp) and len(e.generators) == 1 and not e.generators[0].ifs and not e.generators[0].is_async:
                return [e]
            return None

        def rewrite(block):
            nonlocal count
            i = 0
            while i + 1 < len(block):
                a, f = block[i], block[i + 1]
                if isinstance(a, ast.Assign) and len(a.targets) == 1 and isinstance(a.targets[0], ast.Name) and isinstance(f, ast.For) and not f.orelse \
                        and isinstance(f.iter, ast.Name) and f.iter.id == a.targets[0].id:
                    L = a.targets[0].id
                    comps = comps_of(a.value)
                    uses = [n for n in names if n.id == L]
                    if comps and len(comps) >= 1 and len(uses) == 2 and not any(isinstance(x, (ast.Break, ast.Continue)) for b in f.body for x in ast.walk(b)):
                        cvars = {x.id for c in comps for x in ast.walk(c.generators[0].target) if isinstance(x, ast.Name)}
                        inside = {id(x) for c in comps for x in ast.walk(c)}
                        clash = [n for n in names if n.id in cvars and id(n) not in inside]
                        if not clash:
                            loops = []
                            for c in comps:
                                g = c.generators[0]
                                asg = ast.Assign(targets=[copy.deepcopy(f.target)], value=copy.deepcopy(c.elt))
                                lp = ast.For(target=copy.deepcopy(g.target), iter=copy.deepcopy(g.iter), body=[asg] + copy.deepcopy(f.body), orelse=[])
                                for t_ in ast.walk(lp.target):
                                    if isinstance(t_, ast.Name):
                                        t_.ctx = ast.Store()
                                ast.copy_location(lp, f)
                                ast.copy_location(asg, f)
                                loops.append(lp)
                            block[i:i + 2] = loops
                            count += 1
                            i += len(loops)
                            continue
                i += 1
            for st in block:
                for fld in ('body', 'orelse', 'finalbody'):
                    sub = getattr(st, fld, None)
                    if isinstance(sub, list) and sub and isinstance(sub[0], ast.stmt) and not isinstance(st, (ast.FunctionDef, ast.ClassDef)):
                        rewrite(sub)
        rewrite(fn.body)
        ast.fix_missing_locations(fn)
    return count


def inline_helpers(repo):
    repo.lowered_concat_loops = lower_concatenated_comprehension_loops(repo)
    repo.lowered_named_entries = lower_named_entries(repo)
    repo.lowered_properties = lower_properties(repo)
    repo.lowered_merged_handlers = 0
    repo.lowered_local_method_aliases = lower_local_method_aliases(repo)
    repo.lowered_getters = 0
    repo.lowered_compiled_aliases = lower_compiled_aliases(repo)
    repo.lowered_value_objects = lower_value_objects(repo)
    repo.lowered_module_records = 0
    repo.lowered_derived_maps = lower_derived_maps(repo)
    repo.lowered_callable_records = lower_callable_records(repo)
    repo.lowered_getters = lower_getters(repo)
    repo.lowered_record_entries = lower_record_entries(repo)
    repo.lowered_module_records = lower_module_records(repo)
    repo.lowered_suppress = lower_suppress(repo)
    repo.lowered_index_loops = lower_index_loops(repo)
    repo.lowered_combinators = lower_combinators(repo)
    repo.desugared_super = desugar_super(repo)
    repo.comprehension_statements = comprehension_statements(repo)
    inl = Inliner(repo).run()
    repo.lowered_merged_handlers = lower_merged_handlers(repo)
    repo.inlined = inl.expanded
    repo.helpers = sorted(inl.helpers)
    # helpers without any remaining call site: their code now lives in their callers
    remaining = set()
    for fi in repo.functions.values():
        for n in ast.walk(fi.node):
            if isinstance(n, ast.Call):
                f = n.func
                nm = f.id if isinstance(f, ast.Name) else f.attr if isinstance(f, ast.Attribute) else None
                if nm in inl.helpers and not (fi.node is inl.helpers[nm].node):
                    remaining.add(nm)
    expanded = {h for _, h, _ in inl.expanded}
    repo.absorbed = {h for h in inl.helpers if h in expanded and h not in remaining}
    return inl
