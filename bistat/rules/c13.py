"""C13 -- packets are independent and pack/unpack are observationally pure.

One Field object is shared by all instances of a packet class, so independence,
purity and thread-safety reduce to *who may write what, in which phase*:

 R5 (1) run-time statelessness: over every function that is not declaration /
        class-creation code (frozen table, one reason per line), no write effect
        (attribute store, setattr, del, item store, mutating container method,
        global rebinding) reaches an object that outlives the call: a Field,
        descriptor or Prototype (``self`` of such a class), a module global or
        class attribute, a closure cell, the object returned by a user callable,
        an element of get_fields();
    (1b) a run-time function never calls declaration / class-creation code
        (``_compile``, ``__init__``-time modifiers ...) on a non-fresh receiver;
 R6 (2) freshness: every value stored into a packet (or into the constructor's
        keyword dict) by ``init`` / ``unpack`` is user-supplied, immutable (by a
        checked contract), a deepcopy/clone, or freshly built; clone() returns
        a fresh object;
    (3) pack purity: at pack time setattr(pkt, ...) targets scratch names only,
        never the field's own value-bearing name;
    (4) the lists returned by get_fields()/get_sync_*() are only iterated.
Effects inside user callbacks are not decided; interleavings are not enumerated --
absence of shared writes makes enumeration unnecessary for the built-in fields.

Round 4: nothing of one class is stored in the namespace of the generated module (shared by
same-named classes through sys.modules).

Round 5: Prototype.__init__ paths that keep the class instead of a snapshot.

Round 6: augmented assignment on a name that is the packet's own value; per-call closure cells
of run-time functions are not shared state; helpers called only from _compile are declaration
phase.
Round 7: Packet.__init__ never feeds its keyword dict from another object; a module-level memo table
whose value is an immutable function of its key is not shared mutable state; compile steps kept in a
class-level table that only _compile reads are declaration phase.
Round 8: memoised builders (lru_cache on a function that makes packets); shallow copies of objects
kept on a shared field; strategies read the field name at call time.
Round 9: nothing per class is kept in the user's configuration dictionary; a module-level
container is never handed to a method that stores into that parameter.
"""
import ast

from .. import Undecided
from ..expr import canon, unparse, call_name
from ..effects import (phase_of, collect_writes, BAD_ROOTS, COMPILE_PHASE_NAMES, Roots, self_role)
from ..model import strategy_table, stmt_text, is_placeholder, packet_param, class_attr_sources

EXPLANATION = __doc__
LEVEL_RULE = 'one obligation per write effect / compile-phase call / stored value of every run-time function'
ASSUMPTIONS = [
    'copy.deepcopy, pickle.loads and Prototype.clone return objects that share nothing mutable with their source',
    'f(**k) gives the callee a fresh dict; Packet.__init__(**defaults) owns its defaults dict',
    'Int/Bits defaults are integers (immutable) by contract; Data defaults are bytes (checked in the constructor)',
    'user callbacks (count/when/until/selectors, Auto functions) are outside the analysis',
]

# (class, attribute) whose value is immutable by a contract, with the justification
IMMUTABLE_ATTRS = {
    ('Int', 'default'): 'integer default (constructor default 0; ints are immutable)',
    ('Bits', 'default'): 'integer default',
    ('Data', 'default'): 'bytes: Data.__init__ raises unless isinstance(default, bytes) (checked below)',
    ('Move', 'default'): "constant b''",
}

# triaged exception (DESIGN appendix B): one named symbol with its reason
R5_EXCEPTIONS = {
    ('Data', 'self.delimiter_to_be_included = self.until_marker'):
        "rewrites the value the constructor already stored on this path (Data.__init__: delimiter_to_be_included = until_marker "
        "when isinstance(until_marker, bytes) and not include_delimiter, which is this strategy's selection condition and this branch's guard)",
}


PURE_BUILTINS = {'bytes', 'int', 'len', 'sorted', 'set', 'frozenset', 'range', 'tuple', 'str', 'bool', 'min', 'max', 'abs', 'sum', 'ord', 'chr', 'divmod', 'repr', 'float', 'reversed', 'enumerate', 'zip', 'map', 'filter', 'isinstance', 'bin', 'hex'}
PURE_METHODS = {'find', 'rfind', 'index', 'count', 'replace', 'join', 'encode', 'decode', 'startswith', 'endswith', 'lower', 'upper', 'strip', 'lstrip', 'rstrip', 'split', 'format', 'zfill', 'ljust', 'rjust', 'to_bytes', 'bit_length'}
PURE_QUALIFIED = {'re.escape', 'struct.pack', 'struct.calcsize', 'int.from_bytes'}


def _pure_function(repo, module, name, depth=0):
    """a module-level function whose result depends on its arguments only"""
    fi = repo.module_funcs.get((module, name))
    if fi is None or depth > 3 or not isinstance(fi.node, ast.FunctionDef):
        return False
    params = {a.arg for a in fi.node.args.args}
    local = {x.id for x in ast.walk(fi.node) if isinstance(x, ast.Name) and isinstance(x.ctx, ast.Store)}
    for n in ast.walk(fi.node):
        if isinstance(n, (ast.Global, ast.Nonlocal, ast.Yield, ast.Await, ast.With, ast.Try, ast.Delete, ast.Lambda)):
            return False
        if isinstance(n, (ast.Attribute, ast.Subscript)) and isinstance(n.ctx, (ast.Store, ast.Del)):
            return False
    return all(_pure_expr(repo, module, n, params | local, depth + 1) for n in ast.walk(fi.node) if isinstance(n, (ast.Call, ast.Name)))


def _pure_expr(repo, module, n, known, depth=0):
    if isinstance(n, ast.Name):
        return isinstance(n.ctx, ast.Store) or n.id in known or n.id in PURE_BUILTINS or n.id in ('re', 'struct', 'int', 'True', 'False', 'None', 'KeyError', 'IndexError', 'ValueError', 'TypeError', 'AttributeError', 'Exception') or (module, n.id) in repo.module_funcs
    if isinstance(n, ast.Call):
        f = n.func
        if isinstance(f, ast.Name):
            return f.id in PURE_BUILTINS or _pure_function(repo, module, f.id, depth)
        if isinstance(f, ast.Attribute):
            return canon(f) in PURE_QUALIFIED or (f.attr in PURE_METHODS and not (isinstance(f.value, ast.Name) and f.value.id == 'self'))
        return False
    return True


def memo_table_store(repo, fi, eff):
    """``T[key] = value`` in a module-level function f: T a module-level dict display that nothing
    rebinds and that only f writes (by item stores with its own unmodified parameter as the key),
    value an immutable value (tuple of / bytes / str / number) computed from that parameter alone"""
    if fi.cls is not None or not isinstance(fi.node, ast.FunctionDef) or not isinstance(eff.obj, ast.Name):
        return False
    T = eff.obj.id
    tree = repo.modules[fi.module]['tree']
    binds = [st for st in tree.body if isinstance(st, ast.Assign) and any(isinstance(t, ast.Name) and t.id == T for t in st.targets)]
    if len(binds) != 1 or not isinstance(binds[0].value, ast.Dict):
        return False
    params = [a.arg for a in fi.node.args.args]
    for info in repo.modules.values():
        for n in ast.walk(info['tree']):
            if isinstance(n, ast.Name) and n.id == T and isinstance(n.ctx, (ast.Store, ast.Del)) and n is not binds[0].targets[0]:
                return False
            if isinstance(n, ast.Global) and T in n.names:
                return False
    for other in repo.functions.values():
        if other.module != fi.module:
            continue
        par = {}
        for pn in ast.walk(other.node):
            for c in ast.iter_child_nodes(pn):
                par[id(c)] = pn
        for n in ast.walk(other.node):
            if isinstance(n, ast.Name) and n.id == T:
                pp = par.get(id(n))
                if isinstance(pp, ast.Subscript) and pp.value is n:
                    if isinstance(pp.ctx, ast.Load):
                        continue
                    if other is fi and isinstance(pp.ctx, ast.Store) and isinstance(pp.slice, ast.Name) and pp.slice.id in params:
                        continue
                    return False
                if isinstance(pp, ast.Attribute) and pp.attr == 'get' and isinstance(par.get(id(pp)), ast.Call):
                    continue
                return False
    key = eff.name
    if not (isinstance(key, ast.Name) and key.id in params):
        return False
    if any(isinstance(n, ast.Name) and n.id == key.id and isinstance(n.ctx, ast.Store) for n in ast.walk(fi.node)):
        return False
    # the stored value, with single-assigned locals resolved, is immutable and computed from the key alone
    v = eff.value
    if not _immutable_display(v):
        return False
    local = {x.id for x in ast.walk(fi.node) if isinstance(x, ast.Name) and isinstance(x.ctx, ast.Store)}
    if len(params) != 1:
        return False
    for n in ast.walk(fi.node):
        if isinstance(n, (ast.Global, ast.Nonlocal, ast.Yield, ast.Await, ast.Lambda)):
            return False
        if isinstance(n, ast.Attribute) and isinstance(n.ctx, (ast.Store, ast.Del)):
            return False
        if isinstance(n, (ast.Call, ast.Name)) and not (isinstance(n, ast.Name) and n.id == T):
            if not _pure_expr(repo, fi.module, n, set(params) | local):
                return False
    return True


def _immutable_display(v):
    if isinstance(v, ast.Constant):
        return True
    if isinstance(v, ast.Tuple):
        return all(_immutable_display(x) for x in v.elts)
    if isinstance(v, ast.Call) and isinstance(v.func, ast.Name) and v.func.id in ('bytes', 'str', 'int', 'frozenset', 'bool', 'float'):
        return True
    if isinstance(v, ast.Call) and isinstance(v.func, ast.Name):
        return True         # a module function: judged by _pure_function; what it returns is read by the caller only
    if isinstance(v, ast.BinOp):
        return _immutable_display(v.left) and _immutable_display(v.right)
    return False


def runtime_functions(ctx):
    repo = ctx.repo
    out = []
    for fid, fi in sorted(repo.functions.items()):
        if fi.node.name in repo.absorbed and fi.qual.split('.')[-1] == fi.node.name and '.' not in fi.qual.replace((fi.cls.qual + '.') if fi.cls is not None else '', '', 1):
            # a helper whose every call was expanded in place: its statements are analysed in each
            # caller, with the caller's knowledge of what the arguments are
            ctx.unit('functions_absorbed_helper')
            continue
        ph, why = phase_of(repo, fi)
        ctx.unit('functions_' + ph)
        if ph == 'run':
            out.append(fi)
    return out


def check_statelessness(ctx, funcs):
    repo = ctx.repo
    rule = 'R5-runtime-stateless'
    nwrites = 0
    for fi in funcs:
        try:
            writes, w, paths, roots = collect_writes(repo, fi, ctx.max_paths)
        except Undecided as e:
            ctx.undecided(rule, fi, fi.qual, str(e), fi.node.lineno)
            continue
        ctx.unit('paths', len(paths))
        for wr in writes:
            nwrites += 1
            st = '%s: %s' % (wr['kind'], wr['text'])
            k = wr['root']
            exc = R5_EXCEPTIONS.get((fi.cls.name if fi.cls is not None else '', wr['text']))
            if exc is not None and exception_still_justified(repo, fi, wr):
                ctx.holds(rule, fi, st, 'triaged exception: ' + exc, wr['line'])
                continue
            if k == 'global' and wr['kind'] == 'item store' and memo_table_store(repo, fi, wr['eff']):
                ctx.holds(rule, fi, st, 'memo table: the key is the function\'s argument and the stored value is an immutable value computed from that key alone -- '
                          'every writer stores the same value under the same key, so no packet or thread can observe a difference', wr['line'])
                continue
            if k in BAD_ROOTS:
                eff = wr['eff']
                what = eff.name if eff.kind == 'store_attr' else (canon(eff.name) if eff.kind == 'setattr' and eff.name is not None else '')
                fkey = '%s: run-time %s on a %s object: .%s' % (fi.cls.name if fi.cls is not None else fi.module, wr['kind'], k, what) if what else None
                ctx.violation(rule, fi, st, 'run-time write to %s (%s): the object outlives the call and is shared by every packet of the class / every thread'
                              % ({'shared': 'a shared field/descriptor/prototype object', 'global': 'a module global or class attribute',
                                  'foreign': 'the object returned by a user callable', 'closure': 'a closure cell'}[k], wr['detail']), wr['line'], key=fkey)
            elif k == 'param':
                verdict, why = param_mutation_verdict(repo, fi, wr['detail'])
                if verdict is False:
                    ctx.violation(rule, fi, st, 'the function mutates its parameter %s and %s' % (wr['detail'], why), wr['line'])
                elif verdict is True:
                    ctx.holds(rule, fi, st, 'mutates its parameter %s; %s' % (wr['detail'], why), wr['line'])
                else:
                    ctx.undecided(rule, fi, st, 'cannot classify the written object (param %s: %s)' % (wr['detail'], why), wr['line'])
            elif k == 'unknown':
                ctx.undecided(rule, fi, st, 'cannot classify the written object (%s: %s)' % (k, wr['detail']), wr['line'])
            else:
                ctx.holds(rule, fi, st, 'writes to %s' % k, wr['line'])
        # (1b) calls of declaration-phase code on non-fresh receivers
        seen = set()
        for p in paths:
            for e in p.all_effects():
                if e.kind != 'call' or not isinstance(e.call.func, ast.Attribute):
                    continue
                m = e.call.func.attr
                if m not in COMPILE_PHASE_NAMES or m in ('__init__', '__new__'):
                    continue
                if not compile_method_writes_self(repo, m):
                    continue
                recv = e.call.func.value
                key = (id(e.node), canon(recv))
                if key in seen:
                    continue
                seen.add(key)
                k, d = roots.root(recv)
                st = 'call %s' % e.text()
                if m in ('repeated', 'when', 'at', 'shift', 'aligned', 'describe') and k in ('packet', 'own', 'unknown', 'param', 'immutable'):
                    continue          # a user attribute that happens to share the name
                if k in ('fresh',):
                    ctx.holds('R5-no-compile-at-runtime', fi, st, 'declaration-phase method on a fresh object', e.lineno)
                else:
                    ctx.violation('R5-no-compile-at-runtime', fi, st,
                                  'a run-time function calls declaration/class-creation code (%s: %s) on a %s object (%s): it writes the field object while packets are being processed'
                                  % (m, COMPILE_PHASE_NAMES[m], k, d), e.lineno,
                                  key='%s: run-time call of %s on a %s object' % (fi.cls.name if fi.cls is not None else fi.module, m, k))
    ctx.unit('write_effects', nwrites)


def param_mutation_verdict(repo, fi, param):
    """a run-time function mutates one of its own parameters: look at every call site
    in the package and classify what is passed.  -> (True ok / False bad / None, why)"""
    a = fi.node.args
    params = [x.arg for x in a.posonlyargs + a.args]
    if param not in params:
        return None, 'not a positional parameter'
    pos = params.index(param)
    name = fi.node.name
    is_method = fi.cls is not None and params and params[0] in ('self', 'cls')
    sites = []
    for other in repo.functions.values():
        # direct children only: nested defs are visited as functions of their own
        for n in ast.walk(other.node):
            if not isinstance(n, ast.Call):
                continue
            f = n.func
            if isinstance(f, ast.Name) and f.id == name and not is_method:
                shift = 0
            elif isinstance(f, ast.Attribute) and f.attr == name and is_method:
                shift = 0 if (isinstance(f.value, ast.Name) and f.value.id in repo.classes) else 1
            else:
                continue
            arg = None
            for k in n.keywords:
                if k.arg == param:
                    arg = k.value
            if arg is None and len(n.args) > pos - shift >= 0 and not any(isinstance(x, ast.Starred) for x in n.args[:pos - shift + 1]):
                arg = n.args[pos - shift]
            if arg is None:
                continue
            sites.append((other, n, arg))
    if not sites:
        return None, 'no call site found in the package'
    bad = []
    for other, call, arg in sites:
        # is the call inside a lambda / nested function of ``other`` with ``arg`` free?
        encl = innermost_scope(other.node, call)
        if isinstance(arg, ast.Name):
            bound = scope_params(encl)
            if arg.id not in bound and encl is not other.node:
                bad.append('%s passes the closure variable %s (one object shared by every call)' % (other.qual, arg.id))
                continue
            if isinstance(encl, ast.Lambda) and arg.id not in bound:
                bad.append('%s passes the closure variable %s from a lambda (one object shared by every call)' % (other.qual, arg.id))
                continue
        if isinstance(arg, (ast.List, ast.Dict, ast.Set, ast.ListComp, ast.Call)):
            continue
        if isinstance(arg, ast.Attribute) and isinstance(arg.value, ast.Name) and arg.value.id == 'self' and self_role(repo, other) == 'shared':
            bad.append('%s passes the shared attribute %s' % (other.qual, unparse(arg)))
    if bad:
        return False, bad[0]
    return True, 'every call site (%d) passes a fresh or per-call object' % len(sites)


def innermost_scope(func_node, target):
    best = [func_node]

    def go(n, scope):
        for c in ast.iter_child_nodes(n):
            sc = c if isinstance(c, (ast.Lambda, ast.FunctionDef)) else scope
            if c is target:
                best[0] = sc if not isinstance(c, (ast.Lambda, ast.FunctionDef)) else scope
                return True
            if go(c, sc):
                return True
        return False

    go(func_node, func_node)
    return best[0]


def scope_params(node):
    a = node.args
    out = {x.arg for x in a.posonlyargs + a.args + a.kwonlyargs}
    if a.vararg: out.add(a.vararg.arg)
    if a.kwarg: out.add(a.kwarg.arg)
    if isinstance(node, ast.FunctionDef):
        for n in ast.walk(node):
            if isinstance(n, ast.Name) and isinstance(n.ctx, ast.Store):
                out.add(n.id)
    return out


_WS = {}


def compile_method_writes_self(repo, name):
    """does any implementation of the declaration-phase method ``name`` write its receiver?
    (exec_once memoises on the receiver, so a decorated method always does)"""
    if name in _WS and _WS[name][0] is repo:
        return _WS[name][1]
    res = False
    for ci in repo.classes.values():
        fi = ci.methods.get(name)
        if fi is None:
            continue
        if any(unparse(d) == 'exec_once' for d in fi.node.decorator_list):
            res = True
        for n in ast.walk(fi.node):
            if isinstance(n, (ast.Assign, ast.AugAssign)):
                for t in (n.targets if isinstance(n, ast.Assign) else [n.target]):
                    for x in ast.walk(t):
                        if isinstance(x, ast.Attribute) and isinstance(x.value, ast.Name) and x.value.id == 'self' and isinstance(x.ctx, ast.Store):
                            res = True
            if isinstance(n, ast.Call) and isinstance(n.func, ast.Name) and n.func.id == 'setattr' and n.args and isinstance(n.args[0], ast.Name) and n.args[0].id == 'self':
                res = True
    _WS[name] = (repo, res)
    return res


def exception_still_justified(repo, fi, wr):
    """the frozen exception holds only while Data.__init__ still stores the same
    value under the same condition"""
    ci = repo.cls('Data')
    init = ci.methods.get('__init__')
    if init is None:
        return False
    for n in ast.walk(init.node):
        if isinstance(n, ast.Assign) and isinstance(n.targets[0], ast.Attribute) and n.targets[0].attr == 'delimiter_to_be_included':
            v = n.value
            if isinstance(v, ast.IfExp) and canon(v.body) in ('self.until_marker', 'until_marker'):
                t = canon(v.test)
                return 'isinstance(' in t and 'bytes' in t and 'include_delimiter' in t
    return False


# ------------------------------------------------------------------ freshness

def immutable_attr(repo, ci, attr):
    for c in repo.mro(ci):
        if (c.name, attr) in IMMUTABLE_ATTRS:
            return IMMUTABLE_ATTRS[(c.name, attr)]
    return None


def value_kind(roots, ci, v):
    """freshness of a value about to be stored in a packet: (kind, detail)"""
    repo = roots.repo
    if isinstance(v, ast.Attribute) and isinstance(v.value, ast.Name) and v.value.id == 'self':
        why = immutable_attr(repo, ci, v.attr)
        if why:
            return 'immutable', why
        return 'shared', 'self.%s is stored as is: every packet of the class would share it' % v.attr
    if isinstance(v, ast.Call) and isinstance(v.func, ast.Attribute) and v.func.attr == 'get' and len(v.args) == 2:
        # defaults.get(name, fallback)
        k1 = roots.root(v.func.value)
        k2 = value_kind(roots, ci, v.args[1])
        if k1[0] == 'percall':
            return ('user', 'constructor keyword') if k2[0] in ('immutable', 'fresh', 'user') else k2
    if isinstance(v, ast.Subscript):
        k = roots.root(v.value)
        if k[0] == 'percall':
            return 'user', 'constructor keyword'
    if isinstance(v, ast.IfExp):
        a, b = value_kind(roots, ci, v.body), value_kind(roots, ci, v.orelse)
        return a if roots.ORDER.index(a[0] if a[0] != 'user' else 'percall') < roots.ORDER.index(b[0] if b[0] != 'user' else 'percall') else b
    k, d = roots.root(v)
    if k == 'percall':
        return 'user', d
    return k, d


def check_freshness(ctx):
    repo = ctx.repo
    rule = 'R6-fresh-values'
    table = strategy_table(repo)
    # contract check for Data.default
    check_data_default_contract(ctx)
    done = set()
    nstores = 0
    for cname, (ci, strats) in sorted(table.items()):
        todo = []
        init = repo.method(ci, 'init')
        if init is not None:
            todo.append(init)
        for s in strats:
            if s['unpack'] is not None and not is_placeholder(s['unpack']):
                todo.append(s['unpack'])
        for fi in todo:
            if (cname, fi.id) in done:
                continue
            done.add((cname, fi.id))
            w = repo.walker(inline_depth=ctx.depth, max_paths=ctx.max_paths)
            # what _compile computes for this function to call (a clone function chosen once) is
            # read through its definitions (method values only: data attributes stay symbolic)
            reads = {n_.attr for n_ in ast.walk(fi.node) if isinstance(n_, ast.Attribute) and isinstance(n_.value, ast.Name) and n_.value.id == 'self' and isinstance(n_.ctx, ast.Load)}
            heaps, seen_h = [], set()
            for s_ in strats:
                alts = repo.strategy_alternatives(s_, {a_ for a_ in reads if any(isinstance(v_, ast.Attribute) and v_.attr in ('clone',) for v_ in s_.get('alts', {}).get(a_, []))})
                for h_ in (alts if alts is not None else [{}]):
                    key_ = tuple(sorted((k, canon(v)) for k, v in h_.items()))
                    if key_ not in seen_h:
                        seen_h.add(key_)
                        heaps.append(h_)
            paths = []
            for h_ in heaps or [{}]:
                w = repo.walker(inline_depth=ctx.depth, max_paths=ctx.max_paths)
                w.const_heap = h_
                paths.extend(w.paths(fi.node, cls=ci))
            from ..effects import Roots
            roots = Roots(repo, fi, w)
            roots.fi_cls = ci
            pk = packet_param(fi, None)
            seen = set()
            for p in paths:
                if p.raises():
                    continue
                for e in p.all_effects():
                    tgt = None
                    if e.kind == 'setattr' and canon(e.obj) == pk:
                        tgt = 'packet attribute %s' % canon(e.name)
                    elif e.kind == 'store_sub' and roots.root(e.obj)[0] == 'percall' and canon(e.obj) == 'defaults':
                        tgt = 'constructor keyword dict [%s]' % canon(e.name)
                    elif e.kind == 'call' and isinstance(e.call.func, ast.Attribute) and e.call.func.attr == 'append' \
                            and roots.root(e.call.func.value)[0] in ('fresh', 'packet') and e.call.args:
                        # elements appended to the list that was stored in the packet
                        tgt = 'element appended to %s' % canon(e.call.func.value)
                        v = e.call.args[0]
                        key = (id(e.node), canon(v))
                        if key in seen:
                            continue
                        seen.add(key)
                        k, d = value_kind(roots, ci, v)
                        nstores += 1
                        report_kind(ctx, rule, fi, cname, '%s <- %s' % (tgt, canon(v)), k, d, e.lineno)
                        continue
                    if tgt is None:
                        continue
                    key = (id(e.node), canon(e.value))
                    if key in seen:
                        continue
                    seen.add(key)
                    nstores += 1
                    k, d = value_kind(roots, ci, e.value)
                    report_kind(ctx, rule, fi, cname, '%s <- %s' % (tgt, canon(e.value)), k, d, e.lineno)
    ctx.unit('stored_values', nstores)
    # clone() implementations return fresh objects
    pr = repo.cls('Prototype')
    clones = {v.attr for _, v in class_attr_sources(repo, pr, 'clone') if isinstance(v, ast.Attribute)}
    for name in sorted(clones | {'clone'}):
        fi = pr.methods.get(name)
        if fi is None:
            ctx.undecided(rule, (pr.file, 'Prototype'), 'Prototype.%s' % name, 'clone implementation not found', pr.node.lineno)
            continue
        if is_placeholder(fi) or (len(fi.node.body) == 1 and isinstance(fi.node.body[0], ast.Raise)):
            continue
        w = repo.walker()
        roots = Roots(repo, fi, w)
        for p in w.paths(fi.node, cls=pr):
            if p.raises():
                continue
            r = p.ret()
            k, d = roots.root(r) if r is not None else ('immutable', 'None')
            st = 'Prototype.%s returns %s' % (name, canon(r) if r is not None else None)
            if k == 'fresh':
                ctx.holds(rule, fi, st, 'a fresh copy per call (%s)' % d, fi.node.lineno)
            else:
                ctx.violation(rule, fi, st, 'clone returns a %s object (%s): every packet built from the prototype would share it' % (k, d), fi.node.lineno)
    # the prototype keeps a snapshot taken when the field is declared
    ini = pr.methods.get('__init__')
    if ini is not None:
        pparam = ini.node.args.args[1].arg if len(ini.node.args.args) > 1 else 'pkt'
        seen_st = set()
        for p_ in repo.walker(inline_depth=ctx.depth, max_paths=ctx.max_paths).paths(ini.node, cls=pr):
            if p_.raises():
                continue
            stores = [e for e in p_.effects if e.kind == 'store_attr' and canon(e.obj) == 'self' and e.name == 'template']
            # the prototype replaced by "a new instance of the class" on some path
            cls_clone = [e for e in p_.effects if e.kind == 'store_attr' and canon(e.obj) == 'self' and e.name == 'clone'
                         and canon(e.value) in ('%s.__class__' % pparam, 'type(%s)' % pparam)]
            if cls_clone:
                gts_ = p_.guard_texts()
                by_eq = [g for g in gts_ if pparam in g and ('==' in g or '!=' in g)]
                stc = 'path [%s]: self.clone = %s' % ('; '.join(gts_)[:100], canon(cls_clone[0].value))
                if by_eq:
                    ctx.violation(rule, ini, stc, 'packets built from the declaration get a new default instance of the class instead of a copy of the declared packet, on a path chosen by ==, which compares field values only: what the prototype keeps outside its fields (a forced descriptor-managed value, Any placeholders) is lost', cls_clone[0].lineno, witness=True)
                else:
                    ctx.undecided(rule, ini, stc, 'the class itself stands in for the snapshot on this path: cannot see that the declared packet is in its default state', cls_clone[0].lineno)
                continue
            if not stores:
                ctx.violation(rule, ini, 'Prototype.__init__ path [%s]' % '; '.join(p_.guard_texts())[:100], 'no template is kept on this path', ini.node.lineno)
                continue
            v = stores[-1].value           # what the prototype holds when the constructor returns
            st = 'self.template = %s' % canon(v)[:100]
            if st in seen_st:
                continue
            seen_st.add(st)
            if call_name(v) in ('pickle.dumps', 'copy.deepcopy', 'deepcopy') and v.args and canon(v.args[0]) == pparam:
                ctx.holds(rule, ini, st, 'the prototype is a snapshot (pickle / deep copy) of the packet given at declaration', stores[-1].lineno)
            elif canon(v) == pparam or (isinstance(v, ast.Call) and call_name(v) in ('copy.copy', 'copy') and v.args and canon(v.args[0]) == pparam):
                ctx.violation(rule, ini, st, 'the prototype keeps the caller\'s live packet: changing or reusing it after the class was declared changes the defaults of every new packet', stores[-1].lineno)
            else:
                ctx.undecided(rule, ini, st, 'cannot tell whether the stored template is a snapshot of the packet', stores[-1].lineno)
    # Field.init default and Ref default are copied when the field is declared / initialised
    ref = repo.cls('Ref')
    lf = None
    rin = ref.methods.get('__init__')
    if rin is not None:
        for n_ in ast.walk(rin.node):
            if isinstance(n_, ast.Call) and isinstance(n_.func, ast.Attribute) and canon(n_.func.value) == 'self' and [canon(a) for a in n_.args] == ['prototype', 'default']:
                lf = ref.methods.get(n_.func.attr)
    if lf is not None:
        for n in ast.walk(lf.node):
            if isinstance(n, ast.Assign) and isinstance(n.targets[0], ast.Attribute) and n.targets[0].attr == 'default' \
                    and isinstance(n.value, (ast.Name, ast.Call)) and 'prototype' in unparse(n.value):
                st = stmt_text(n)
                if call_name(n.value) in ('copy.deepcopy', 'deepcopy'):
                    ctx.holds(rule, lf, st, 'the prototype packet is copied when the field is declared', n.lineno)
                else:
                    ctx.violation(rule, lf, st, 'the user\'s prototype packet itself becomes the default: later changes to it leak into new packets', n.lineno)


def report_kind(ctx, rule, fi, cname, st, k, d, line):
    st = '[%s] %s' % (cname, st)
    if k in ('user', 'immutable', 'fresh', 'packet', 'exc'):
        ctx.holds(rule, fi, st, '%s (%s)' % (k, d), line)
    elif k in ('shared', 'foreign', 'global', 'closure'):
        ctx.violation(rule, fi, st, 'a %s object is stored in the packet: %s' % (k, d), line)
    else:
        ctx.undecided(rule, fi, st, 'cannot classify the stored value (%s: %s)' % (k, d), line)


def check_data_default_contract(ctx):
    repo = ctx.repo
    ci = repo.cls('Data')
    init = ci.methods.get('__init__')
    ok = False
    if init is not None:
        for n in ast.walk(init.node):
            if isinstance(n, ast.If) and canon(n.test) in ('not isinstance(default, bytes)',) and any(isinstance(s, ast.Raise) for s in n.body):
                ok = True
    if ok:
        ctx.holds('R6-immutable-contracts', init, 'if not isinstance(default, bytes): raise', 'Data defaults are immutable bytes', init.node.lineno)
    else:
        ctx.violation('R6-immutable-contracts', init or (ci.file, 'Data.__init__'), 'Data.__init__', 'the constructor no longer rejects non-bytes defaults: Data.init stores self.default unshared only if it is immutable', ci.node.lineno)


# ----------------------------------------------------------------- pack purity

SCRATCH_ATTRS = {
    'seq_elem_field_name': ('Sequence', '_compile'),
    'opt_elem_field_name': ('Optional', '_compile'),
    'real_field_name': ('Field', '_describe_yourself'),
}


def scratch_name(repo, ci, name_expr):
    """is the attribute name expression a scratch slot (not a value-bearing field)?"""
    t = canon(name_expr)
    if t == 'self.field_name':
        return False, 'the field\'s own value-bearing name'
    if t == 'self.I.field_name':
        # Bits._compile: I.field_name = "_bits__" + ...
        comp = repo.cls('Bits').methods.get('_compile')
        if comp is not None:
            for n in ast.walk(comp.node):
                if isinstance(n, ast.Assign) and isinstance(n.value, ast.BinOp) and isinstance(n.value.left, ast.Constant) \
                        and isinstance(n.value.left.value, str) and n.value.left.value.startswith('_'):
                    return True, 'bit-group slot (%s...)' % n.value.left.value
        return None, 'cannot confirm that self.I.field_name is a scratch slot'
    if isinstance(name_expr, ast.Attribute) and name_expr.attr in SCRATCH_ATTRS:
        cname, meth = SCRATCH_ATTRS[name_expr.attr]
        if not repo.has_cls(cname):
            return None, 'class %s not found' % cname
        fi = repo.cls(cname).methods.get(meth)
        if fi is not None:
            for n in ast.walk(fi.node):
                if isinstance(n, ast.Assign) and any(isinstance(t_, ast.Attribute) and t_.attr == name_expr.attr for t_ in n.targets):
                    v = n.value
                    lead = v.left if isinstance(v, ast.BinOp) else v
                    if isinstance(lead, ast.Constant) and isinstance(lead.value, str) and lead.value.startswith('_'):
                        return True, 'scratch slot (%s...)' % lead.value
                    if isinstance(v, ast.Attribute) and v.attr == 'field_name':
                        return True, 'hidden slot behind a descriptor'
        return None, 'cannot confirm that %s is a scratch slot' % t
    return None, 'name %s is not in the scratch table' % t


def check_pack_purity(ctx):
    repo = ctx.repo
    rule = 'R5-pack-purity'
    table = strategy_table(repo)
    done = set()
    n = 0
    for cname, (ci, strats) in sorted(table.items()):
        for s in strats:
            fi = s['pack']
            if fi is None or is_placeholder(fi) or (cname, fi.id) in done:
                continue
            done.add((cname, fi.id))
            w = repo.walker(inline_depth=0, max_paths=ctx.max_paths)
            pk = packet_param(fi, None)
            # Round 6: 'x = <the packet's value>; x += ...' extends a mutable value (bytearray, list)
            # in place: the packet is changed by pack(), a second pack() emits other bytes
            aliases = {}
            for a_ in ast.walk(fi.node):
                if isinstance(a_, ast.Assign) and len(a_.targets) == 1 and isinstance(a_.targets[0], ast.Name):
                    v_ = a_.value
                    reads_pkt = (isinstance(v_, ast.Call) and isinstance(v_.func, ast.Name) and v_.func.id == 'getattr' and v_.args and canon(v_.args[0]) == pk) or \
                                (isinstance(v_, ast.Attribute) and canon(v_.value) == pk)
                    aliases.setdefault(a_.targets[0].id, []).append(reads_pkt)
            for a_ in ast.walk(fi.node):
                if isinstance(a_, ast.AugAssign) and isinstance(a_.target, ast.Name) and isinstance(a_.op, (ast.Add, ast.Mult, ast.BitOr, ast.BitAnd)) \
                        and aliases.get(a_.target.id) and all(aliases[a_.target.id]):
                    n += 1
                    ctx.violation(rule, fi, '[%s] %s' % (cname, stmt_text(a_)[:100]), 'an augmented assignment on a name that is the packet\'s own value: for a mutable value (a bytearray given by the user, a list) it changes that value in place, so pack() modifies the packet and the next pack() differs', a_.lineno, witness=True)
            seen = set()
            for p in w.paths(fi.node, cls=ci):
                for e in p.all_effects():
                    if e.kind in ('setattr',) and canon(e.obj) == pk:
                        key = id(e.node)
                        if key in seen:
                            continue
                        seen.add(key)
                        n += 1
                        ok, why = scratch_name(repo, ci, e.name)
                        st = '[%s] %s' % (cname, e.text())
                        if ok is True:
                            ctx.holds(rule, fi, st, why, e.lineno)
                        elif ok is False:
                            ctx.violation(rule, fi, st, 'pack rewrites %s: repeated pack() calls / later reads see a changed packet' % why, e.lineno)
                        else:
                            ctx.undecided(rule, fi, st, why, e.lineno)
                    elif e.kind == 'store_attr' and canon(e.obj) == pk:
                        key = id(e.node)
                        if key in seen:
                            continue
                        seen.add(key)
                        n += 1
                        ctx.violation(rule, fi, '[%s] %s' % (cname, e.text()), 'pack assigns a packet attribute directly', e.lineno)
    # descriptor sync: writes the hidden slot only
    auto = repo.cls('Auto')
    sb = auto.methods.get('sync_before_pack')
    if sb is not None:
        w = repo.walker(inline_depth=ctx.depth)
        seen_sb = set()
        for p in w.paths(sb.node, cls=auto):
            for e in p.setattrs():
                if e.text() in seen_sb:
                    continue
                seen_sb.add(e.text())
                n += 1
                ok, why = scratch_name(repo, auto, e.name)
                if canon(e.name) == 'self.iam_enabled_attr_name':
                    ok, why = False, 'the descriptor\'s enabled flag (a pack() would switch the computed value off for good)'
                st = '[Auto] %s' % e.text()
                if ok:
                    ctx.holds(rule, sb, st, why, e.lineno)
                elif ok is False:
                    ctx.violation(rule, sb, st, 'sync_before_pack rewrites %s' % why, e.lineno)
                else:
                    ctx.undecided(rule, sb, st, why, e.lineno)
    ctx.unit('pack_time_packet_writes', n)


# ------------------------------------------------------------ lists only iterated

def check_lists_only_iterated(ctx, funcs):
    repo = ctx.repo
    rule = 'R5-field-lists-read-only'
    getters = ('get_fields', 'get_sync_before_pack_methods', 'get_sync_after_unpack_methods')
    n = 0
    trees = [(fi, fi.node) for fi in funcs]
    for t in repo.templates():
        if t.tree is not None:
            trees.append((t.func, t.tree))
    for fi, node in trees:
        aliases = set()
        for x in ast.walk(node):
            if isinstance(x, ast.Assign) and isinstance(x.value, ast.Call) and isinstance(x.value.func, ast.Attribute) \
                    and x.value.func.attr in getters and isinstance(x.targets[0], ast.Name):
                aliases.add(x.targets[0].id)
        for parent in ast.walk(node):
            for child in ast.iter_child_nodes(parent):
                is_list = (isinstance(child, ast.Call) and isinstance(child.func, ast.Attribute) and child.func.attr in getters) or \
                          (isinstance(child, ast.Name) and child.id in aliases and isinstance(child.ctx, ast.Load))
                if not is_list:
                    continue
                n += 1
                st = '%s in %s' % (unparse(child), stmt_text(parent)[:100])
                bad = None
                if isinstance(parent, ast.Attribute) and parent.attr in ('append', 'extend', 'insert', 'pop', 'remove', 'clear', 'sort', 'reverse', '__setitem__'):
                    bad = 'mutating method .%s() on the shared list' % parent.attr
                elif isinstance(parent, ast.Subscript) and isinstance(parent.ctx, (ast.Store, ast.Del)):
                    bad = 'item assignment on the shared list'
                elif isinstance(parent, ast.AugAssign) and parent.target is child:
                    bad = 'in-place update of the shared list'
                if bad:
                    ctx.violation(rule, fi, st, bad, getattr(child, 'lineno', 0))
                else:
                    ctx.holds(rule, fi, st, 'only iterated / indexed / measured', getattr(child, 'lineno', 0))
    ctx.unit('field_list_uses', n)


# ---------------------------------------------------------------- fixture

FIXTURE = '''
class _Fixture(Field):
    def unpack(self, pkt, raw, offset=0, **k):
        self._last = raw[offset:offset + 1]
        cache = self.__dict__
        cache['n'] = offset
        setattr(pkt, self.field_name, self.default)
        return offset + 1
'''


def check_fixture(ctx):
    """rules whose expected count is zero carry a positive example that must be
    flagged on every run"""
    import copy as _copy
    from ..frontend import FuncInfo, ClassInfo
    repo = ctx.repo
    tree = ast.parse(FIXTURE)
    cnode = tree.body[0]
    ci = ClassInfo('field', '_Fixture', cnode)
    fnode = cnode.body[0]
    fi = FuncInfo('field', '_Fixture.unpack', fnode, ci)
    ci.methods['unpack'] = fi
    saved = repo.classes.get('_Fixture')
    repo.classes['_Fixture'] = ci
    repo._mro_cache.pop('_Fixture', None)
    try:
        writes, w, paths, roots = collect_writes(repo, fi)
        bad = [x for x in writes if x['root'] in BAD_ROOTS]
        k, d = value_kind(roots, ci, [e for e in paths[0].setattrs()][0].value)
    finally:
        if saved is None:
            del repo.classes['_Fixture']
        repo._mro_cache.pop('_Fixture', None)
    if len(bad) >= 2 and k == 'shared':
        ctx.holds('R5-fixture', ('bistat/rules/c13.py', 'FIXTURE'), 'embedded positive example', 'the shared write, the aliased item store and the shared stored value are all flagged', 0)
    else:
        ctx.undecided('R5-fixture', ('bistat/rules/c13.py', 'FIXTURE'), 'embedded positive example', 'the embedded violating example is no longer flagged (%d writes, value %s): the rule is broken' % (len(bad), k), 0)


def check_constructor_keywords_not_fed_from_other_packets(ctx, rule='R6-fresh-values'):
    """Round 7.  Packet.__init__ hands its keyword dict to every field.init, which stores the value
    found there in the new packet as it is (the caller gave it).  The constructor itself never
    adds values to that dict that it read from another object: such a value -- a list, a nested
    packet of an embedded packet -- would be stored by reference, shared by the two packets"""
    repo = ctx.repo
    pk = repo.cls('Packet')
    init = pk.methods.get('__init__')
    if init is None:
        ctx.undecided(rule, (pk.file, 'Packet'), 'Packet.__init__', 'anchor not found', 0)
        return
    kw = init.node.args.kwarg.arg if init.node.args.kwarg is not None else None
    if kw is None:
        ctx.undecided(rule, init, 'Packet.__init__', 'the constructor takes no **keywords', init.node.lineno)
        return
    n = 0
    for x in ast.walk(init.node):
        val = None
        if isinstance(x, ast.Call) and isinstance(x.func, ast.Attribute) and canon(x.func.value) == kw and x.func.attr in ('setdefault', 'update', '__setitem__'):
            val = x.args[-1] if x.args else (x.keywords[0].value if x.keywords else None)
        elif isinstance(x, ast.Assign) and any(isinstance(t, ast.Subscript) and canon(t.value) == kw for t in x.targets):
            val = x.value
        if val is None:
            continue
        n += 1
        copied = isinstance(val, ast.Call) and (call_name(val) or '').split('.')[-1] in ('deepcopy', 'clone')
        reads = [y for y in ast.walk(val) if (isinstance(y, ast.Call) and isinstance(y.func, ast.Name) and y.func.id == 'getattr') or isinstance(y, ast.Attribute)]
        st = 'Packet.__init__: %s' % stmt_text(x)[:100]
        if reads and not copied:
            ctx.violation(rule, init, st, 'a value read from another object (%s) is put in the keyword dict and from there, by reference, in the new packet: the two packets share the lists and nested packets, so a change through one shows in the other and in what it packs' % canon(reads[0])[:60], x.lineno, witness=True)
        elif copied:
            ctx.holds(rule, init, st, 'a copy is added', x.lineno)
        else:
            ctx.undecided(rule, init, st, 'the constructor adds a value to its keyword dict: cannot see where it comes from', x.lineno)
    if not n:
        ctx.holds(rule, init, 'Packet.__init__ adds nothing to its keyword dict', 'every value a field finds there was given by the caller', init.node.lineno)


def check_no_shared_results(ctx, funcs, rule='R6-fresh-values'):
    """Round 8.  (i) a function of the package whose results are memoised (functools.lru_cache /
    cache) hands the same object to every caller: allowed only for functions that do not build
    packets / fields; (ii) a shallow copy (copy.copy) of an object kept on a shared field shares
    everything that object refers to -- nested packets, lists -- with every packet made from it"""
    repo = ctx.repo
    n = 0
    for fi in repo.functions.values():
        if not isinstance(fi.node, ast.FunctionDef):
            continue
        for d in fi.node.decorator_list:
            t = unparse(d)
            if any(k in t for k in ('lru_cache', 'functools.cache', 'cached_property')) or t in ('cache',):
                n += 1
                builds = [x for x in ast.walk(fi.node) if isinstance(x, ast.Call) and ((isinstance(x.func, ast.Name) and (x.func.id in repo.classes or x.func.id[:1].isupper() or x.func.id in ('pkt_class', 'cls')))
                                                                                        or (isinstance(x.func, ast.Attribute) and x.func.attr in ('clone', 'unpack', 'deepcopy')))]
                rets = [r for r in ast.walk(fi.node) if isinstance(r, ast.Return) and r.value is not None]
                st = '@%s def %s' % (t[:40], fi.qual)
                if builds and rets:
                    ctx.violation(rule, fi, st, 'the results of this function are memoised, and it builds an object (%s): every caller gets the same mutable object, so what one caller sets on it shows up for the others' % unparse(builds[0])[:50], fi.node.lineno, witness=True)
                else:
                    ctx.undecided(rule, fi, st, 'memoised results: cannot see that what is returned is immutable', fi.node.lineno)
    for fi in funcs:
        for x in ast.walk(fi.node):
            if isinstance(x, ast.Call) and call_name(x) in ('copy.copy', 'copy') and len(x.args) == 1:
                a = x.args[0]
                base = a
                while isinstance(base, (ast.Attribute, ast.Subscript)):
                    base = base.value
                if isinstance(base, ast.Name) and base.id == 'self' and isinstance(a, ast.Attribute) and fi.cls is not None and repo.is_subclass(fi.cls, 'Field'):
                    n += 1
                    ctx.violation(rule, fi, '%s: %s' % (fi.qual, unparse(x)[:60]), 'a shallow copy of an object kept on the shared field: the copy has its own slots, but every slot the parser does not overwrite still refers to the same nested packets / lists in every packet made this way', x.lineno, witness=True)
    ctx.unit('memoised_or_shallow_copied', n)
    if not n:
        ctx.holds(rule, ('bisturi', '<package>'), 'no memoised function, no shallow copy of a shared object', 'results are built per call', 0)


def check_no_process_wide_container_is_handed_to_a_writer(ctx, rule='R6-fresh-values'):
    """Round 9.  a module-level container (``NAME = {}`` / ``[]`` / ``dict()``) handed as an
    argument to a method that stores into that parameter (``Ref.init`` keeps the clone it makes in
    the ``defaults`` mapping it receives) is written once per process: the object stored for the
    first packet is found, and reused, by every later one"""
    repo = ctx.repo
    consts = {}
    for mod, info in repo.modules.items():
        for st in info['tree'].body:
            if isinstance(st, ast.Assign) and len(st.targets) == 1 and isinstance(st.targets[0], ast.Name):
                v = st.value
                if isinstance(v, (ast.Dict, ast.List, ast.Set)) and not (getattr(v, 'keys', None) or getattr(v, 'elts', None)) \
                        or (isinstance(v, ast.Call) and isinstance(v.func, ast.Name) and v.func.id in ('dict', 'list', 'set') and not v.args and not v.keywords):
                    consts[st.targets[0].id] = (mod, st)
    if not consts:
        return

    def mutated_params(fn, skip_self):
        out = set()
        ps = [a.arg for a in fn.args.args]
        for x in ast.walk(fn):
            if isinstance(x, ast.Subscript) and not isinstance(x.ctx, ast.Load) and isinstance(x.value, ast.Name) and x.value.id in ps:
                out.add(ps.index(x.value.id) - (1 if skip_self else 0))
            elif isinstance(x, ast.Call) and isinstance(x.func, ast.Attribute) and isinstance(x.func.value, ast.Name) and x.func.value.id in ps \
                    and x.func.attr in ('update', 'setdefault', 'append', 'extend', 'insert', 'add', 'pop', 'clear', 'popitem', 'remove'):
                out.add(ps.index(x.func.value.id) - (1 if skip_self else 0))
        return out
    n = 0
    for fi in repo.functions.values():
        if not isinstance(fi.node, ast.FunctionDef):
            continue
        local = {x.id for x in ast.walk(fi.node) if isinstance(x, ast.Name) and isinstance(x.ctx, ast.Store)} | {a.arg for a in fi.node.args.args}
        for c in ast.walk(fi.node):
            if not (isinstance(c, ast.Call) and isinstance(c.func, ast.Attribute)):
                continue
            for i, a in enumerate(c.args):
                if isinstance(a, ast.Name) and a.id in consts and a.id not in local:
                    n += 1
                    m = c.func.attr
                    writers = [ci.name for ci in repo.classes.values() if m in ci.methods and isinstance(ci.methods[m].node, ast.FunctionDef)
                               and i in mutated_params(ci.methods[m].node, True)]
                    st = '%s: %s' % (fi.qual, unparse(c)[:80])
                    if writers:
                        ctx.violation(rule, fi, st, 'the module-level container %s is handed to %s.%s, which stores into that parameter: what is stored for the first packet (a clone of the referenced packet, under the field name) is found there and reused by every later packet -- and by packets of other classes with a field of the same name' % (a.id, writers[0], m), c.lineno, witness=True)
                    else:
                        ctx.holds(rule, fi, st, 'no implementation of .%s stores into that parameter' % m, c.lineno)
    ctx.unit('shared_container_args', n)


def check(ctx):
    check_no_process_wide_container_is_handed_to_a_writer(ctx)
    from ..model import check_strategies_read_the_name_at_call_time
    check_strategies_read_the_name_at_call_time(ctx, 'R5-name-at-call-time')
    funcs = runtime_functions(ctx)
    from ..model import check_conf_dict_holds_no_per_class_tables
    check_conf_dict_holds_no_per_class_tables(ctx, 'R5-runtime-stateless')
    check_fixture(ctx)
    check_statelessness(ctx, funcs)
    check_freshness(ctx)
    check_pack_purity(ctx)
    check_lists_only_iterated(ctx, funcs)
    check_constructor_keywords_not_fed_from_other_packets(ctx)
    check_no_shared_results(ctx, funcs)
    # the generated module is shared by same-named classes: nothing of one class lives in it
    from .c15 import check_module_namespace
    check_module_namespace(ctx)
    ctx.floor('run-time functions analysed', len(funcs), 60)
    ctx.floor('write effects classified', ctx.units.get('write_effects', 0), 40)
    ctx.floor('values stored by init/unpack', ctx.units.get('stored_values', 0), 20)
    ctx.trust(*ASSUMPTIONS)
