"""C05 -- integer fields encode and decode exact two's-complement values.

Rule families R9 (finite tables) and R1 (codec parameter agreement):

 (a) struct-code table of Int._compile: every key n maps to a code of *standard* size n
     (b/B 1, h/H 2, i/I/l/L 4, q/Q 8), the table's keys are exactly the widths sent to
     the primitive path, the code is lower-cased iff the field is signed, and the format
     prefix is '>' / '<' chosen by is_bigendian (never native alignment);
 (b) endianness fold: over {'big','little','network','local'} x sys.byteorder in
     {big, little} the expression assigned to is_bigendian folds to True, False, True,
     byteorder == 'big'; an omitted endianness is replaced by
     bisturi_conf.get('endianness', 'big') first;
 (c) arbitrary width: int.from_bytes / int.to_bytes receive the same width
     (self.byte_count), the same byteorder expression and signed=self.is_signed;
 (d) no wrapping: the value read from the packet flows unmodified into a strict encoder
     (struct.Struct.pack raises struct.error, int.to_bytes raises OverflowError) and the
     encoder's result is appended unmodified; the decoder's result is stored unmodified;
 (e) the constructor stores width / signedness / endianness unchanged.
The arithmetic of struct / int.from_bytes themselves is a trusted table.
"""
import ast

from .. import Undecided
from ..expr import canon, lin, call_name, unparse, negate, conj, kwarg
from ..model import stmt_text

EXPLANATION = __doc__
LEVEL_RULE = 'one obligation per table entry, per fold case (4 spellings x 2 byte orders + default), per codec parameter and per value flow'
ASSUMPTIONS = [
    "struct standard sizes with '<' '>' '!' '=': b/B 1, h/H 2, i/I/l/L 4, q/Q 8; lower case = signed",
    'struct.Struct.pack raises struct.error for out-of-range or non-integer values; int.to_bytes raises OverflowError',
    'int.from_bytes(b, byteorder, signed=) is the exact unsigned / two\'s-complement value of b',
]

STD = {'b': 1, 'B': 1, 'h': 2, 'H': 2, 'i': 4, 'I': 4, 'l': 4, 'L': 4, 'q': 8, 'Q': 8}


def gtexts(p):
    out = set()
    for g, pol in p.guards:
        t = g if pol else negate(g)
        for c in conj(t):
            out.add(canon(c))
    return out


class Unknown(Exception):
    pass


def fold(e, env):
    """evaluate a side-effect-free expression over a finite environment
    (attribute chains -> values).  No repository code runs."""
    if isinstance(e, ast.Constant):
        return e.value
    if isinstance(e, (ast.Attribute, ast.Name)):
        k = canon(e)
        if k in env:
            return env[k]
        raise Unknown(k)
    if isinstance(e, ast.Tuple):
        return tuple(fold(x, env) for x in e.elts)
    if isinstance(e, ast.List):
        return [fold(x, env) for x in e.elts]
    if isinstance(e, ast.BoolOp):
        if isinstance(e.op, ast.And):
            v = True
            for x in e.values:
                v = fold(x, env)
                if not v:
                    return v
            return v
        v = False
        for x in e.values:
            v = fold(x, env)
            if v:
                return v
        return v
    if isinstance(e, ast.UnaryOp) and isinstance(e.op, ast.Not):
        return not fold(e.operand, env)
    if isinstance(e, ast.IfExp):
        return fold(e.body, env) if fold(e.test, env) else fold(e.orelse, env)
    if isinstance(e, ast.Compare):
        left = fold(e.left, env)
        for op, r in zip(e.ops, e.comparators):
            right = fold(r, env)
            if isinstance(op, ast.Eq): ok = left == right
            elif isinstance(op, ast.NotEq): ok = left != right
            elif isinstance(op, ast.In): ok = left in right
            elif isinstance(op, ast.NotIn): ok = left not in right
            elif isinstance(op, ast.Is): ok = left is right
            elif isinstance(op, ast.IsNot): ok = left is not right
            else:
                raise Unknown(type(op).__name__)
            if not ok:
                return False
            left = right
        return True
    if isinstance(e, ast.Call) and isinstance(e.func, ast.Attribute) and e.func.attr in ('lower', 'upper') and not e.args:
        v = fold(e.func.value, env)
        return getattr(v, e.func.attr)()
    raise Unknown(type(e).__name__)


def check_compile(ctx, ci, comp):
    repo = ctx.repo
    w = repo.walker(max_paths=ctx.max_paths)
    paths = [p for p in w.paths(comp.node, cls=ci) if not p.raises()]
    ctx.unit('paths', len(paths))
    # ---------------------------------------------------------------- (b)
    rule = 'R9-endianness-fold'
    exprs = {}
    defaults = {}
    for p in paths:
        for e in p.effects:
            if e.kind == 'store_attr' and canon(e.obj) == 'self' and e.name == 'is_bigendian':
                exprs[canon(e.value)] = (e.value, e.lineno, gtexts(p))
            if e.kind == 'store_attr' and canon(e.obj) == 'self' and e.name == 'endianness':
                defaults[canon(e.value)] = (e.value, e.lineno, gtexts(p))
    if not exprs:
        ctx.violation(rule, comp, 'Int._compile', 'is_bigendian is never computed', comp.node.lineno, clause='b')
    want = {'big': (True, True), 'network': (True, True), 'little': (False, False), 'local': (True, False)}
    for txt, (e, line, gt) in exprs.items():
        # on the path where the default was applied, self.endianness was substituted by the default expr
        for spelling, (w_big, w_little) in sorted(want.items()):
            for order, wanted in (('big', w_big), ('little', w_little)):
                env = {'self.endianness': spelling, 'sys.byteorder': order}
                st = 'is_bigendian for endianness=%r on a %s-endian host' % (spelling, order)
                if 'bisturi_conf.get' in txt:
                    # path taken when endianness is None: evaluate with the class default in place
                    e2 = _replace_conf_get(e, spelling)
                else:
                    e2 = e
                try:
                    got = bool(fold(e2, env))
                except Unknown as u:
                    ctx.undecided(rule, comp, st, 'cannot fold %s (%s)' % (canon(e)[:80], u), line, clause='b')
                    continue
                if got == wanted:
                    ctx.holds(rule, comp, st + ' -> %s' % got, 'matches the documented meaning', line, clause='b')
                else:
                    ctx.violation(rule, comp, st + ' -> %s' % got, 'expected %s: %s' % (wanted, canon(e)[:120]), line, clause='b')
    # default when omitted
    okd = False
    for txt, (e, line, gt) in defaults.items():
        if '(self.endianness is None)' in gt:
            st = 'endianness omitted -> %s' % txt
            if isinstance(e, ast.Call) and canon(e.func) == 'bisturi_conf.get' and len(e.args) == 2 and isinstance(e.args[0], ast.Constant) \
                    and e.args[0].value == 'endianness' and isinstance(e.args[1], ast.Constant) and e.args[1].value == 'big':
                ctx.holds(rule, comp, st, 'class-level option, big endian when absent', line, clause='b')
            else:
                ctx.violation(rule, comp, st, "an omitted endianness must become bisturi_conf.get('endianness', 'big')", line, clause='b')
            okd = True
    if not okd:
        ctx.violation(rule, comp, 'endianness omitted', 'the class-level endianness option is not consulted when the field gives none', comp.node.lineno, clause='b')
    # ---------------------------------------------------------------- (a)
    rule = 'R9-struct-codes'
    table = None
    for n in ast.walk(comp.node):
        if isinstance(n, ast.Dict) and n.keys and all(isinstance(k, ast.Constant) and isinstance(k.value, int) for k in n.keys) \
                and all(isinstance(v, ast.Constant) and isinstance(v.value, str) for v in n.values):
            table = n
    if table is None:
        ctx.undecided(rule, comp, 'struct code table', 'no {width: code} table found in Int._compile', comp.node.lineno, clause='a')
    else:
        keys = []
        for k, v in zip(table.keys, table.values):
            keys.append(k.value)
            st = 'width %d -> struct code %r' % (k.value, v.value)
            code = v.value
            if code not in STD:
                ctx.violation(rule, comp, st, 'not a struct integer code', table.lineno, clause='a')
            elif STD[code] != k.value:
                ctx.violation(rule, comp, st, 'code %r has standard size %d, not %d' % (code, STD[code], k.value), table.lineno, clause='a')
            elif not code.isupper():
                ctx.violation(rule, comp, st, 'the table must hold the unsigned (upper-case) code; signedness is applied with lower()', table.lineno, clause='a')
            else:
                ctx.holds(rule, comp, st, 'standard size %d, unsigned' % STD[code], table.lineno, clause='a')
        # the widths routed to the primitive path are exactly the keys
        prim = [p for p in paths if any(e.kind == 'store_attr' and e.name == 'struct_obj' for e in p.effects)]
        conds = set()
        for p in prim:
            for g in gtexts(p):
                if g.startswith('(self.byte_count in '):
                    conds.add(g)
        for g in conds:
            try:
                tup = ast.literal_eval(g[len('(self.byte_count in '):-1])
            except Exception:
                ctx.undecided(rule, comp, g, 'cannot read the primitive-width test', comp.node.lineno, clause='a')
                continue
            if sorted(tup) == sorted(keys):
                ctx.holds(rule, comp, 'primitive widths %s' % (sorted(tup),), 'exactly the keys of the code table', comp.node.lineno, clause='a')
            else:
                ctx.violation(rule, comp, 'primitive widths %s vs table keys %s' % (sorted(tup), sorted(keys)), 'a width is sent to the struct path without a code (KeyError) or a width with a code is not', comp.node.lineno, clause='a')
        if not conds:
            ctx.undecided(rule, comp, 'primitive-width test', 'no "self.byte_count in (...)" test selects the struct path', comp.node.lineno, clause='a')
        # signedness and prefix on the primitive paths
        for p in prim:
            gt = gtexts(p)
            signed = 'self.is_signed' in gt
            unsigned = 'not self.is_signed' in gt
            code_v = [e for e in p.effects if e.kind == 'store_attr' and e.name == 'struct_code' and canon(e.obj) == 'self']
            obj_v = [e for e in p.effects if e.kind == 'store_attr' and e.name == 'struct_obj' and canon(e.obj) == 'self']
            if not code_v or not obj_v:
                continue
            cv = code_v[-1].value
            lowered = isinstance(cv, ast.Call) and isinstance(cv.func, ast.Attribute) and cv.func.attr == 'lower'
            base = cv.func.value if lowered else cv
            st = 'struct_code on the %s path = %s' % ('signed' if signed else 'unsigned' if unsigned else '?', canon(cv))
            is_lookup = isinstance(base, ast.Subscript) and isinstance(base.value, ast.Dict) and canon(base.slice) == 'self.byte_count'
            if not is_lookup:
                ctx.violation(rule, comp, st, 'the code is not table[self.byte_count]', code_v[-1].lineno, clause='a')
            elif signed and not lowered:
                ctx.violation(rule, comp, st, 'a signed field keeps the unsigned code', code_v[-1].lineno, clause='a')
            elif unsigned and lowered:
                ctx.violation(rule, comp, st, 'an unsigned field gets the signed code', code_v[-1].lineno, clause='a')
            elif not (signed or unsigned):
                ctx.violation(rule, comp, st, 'the code does not depend on is_signed', code_v[-1].lineno, clause='a')
            else:
                ctx.holds(rule, comp, st, 'lower-case iff signed', code_v[-1].lineno, clause='a')
            ov = obj_v[-1].value
            st = 'struct_obj = %s' % canon(ov)[:150]
            if call_name(ov) not in ('struct.Struct', 'Struct') or not ov.args:
                ctx.violation(rule, comp, st, 'struct_obj is not a struct.Struct', obj_v[-1].lineno, clause='a')
                continue
            fmt = ov.args[0]
            okp = isinstance(fmt, ast.BinOp) and isinstance(fmt.op, ast.Add) and isinstance(fmt.left, ast.IfExp) \
                and canon(fmt.left.test) == 'self.is_bigendian' and isinstance(fmt.left.body, ast.Constant) and fmt.left.body.value in ('>', '!') \
                and isinstance(fmt.left.orelse, ast.Constant) and fmt.left.orelse.value == '<' and canon(fmt.right) == canon(cv)
            # is_bigendian may have been substituted by its defining expression on this path
            if not okp and isinstance(fmt, ast.BinOp) and isinstance(fmt.left, ast.IfExp) and isinstance(fmt.left.body, ast.Constant) and isinstance(fmt.left.orelse, ast.Constant):
                okp = fmt.left.body.value in ('>', '!') and fmt.left.orelse.value == '<' and canon(fmt.left.test) in exprs and canon(fmt.right) == canon(cv)
            if okp:
                ctx.holds(rule, comp, st[:120], "'>' if big endian else '<', then the code: standard size, no alignment", obj_v[-1].lineno, clause='a')
            else:
                ctx.violation(rule, comp, st[:160], "the struct format must be ('>' if is_bigendian else '<') + struct_code", obj_v[-1].lineno, clause='a')


def _replace_conf_get(e, value):
    import copy

    class T(ast.NodeTransformer):
        def visit_Call(self, n):
            self.generic_visit(n)
            if canon(n.func) == 'bisturi_conf.get':
                return ast.Constant(value=value)
            return n
    return T().visit(copy.deepcopy(e))


def check_codecs(ctx, ci):
    repo = ctx.repo
    w = repo.walker(max_paths=ctx.max_paths)
    strat = repo.strategies(ci)
    BO = "('big' if self.is_bigendian else 'little')"
    GETV = canon(ast.parse('getattr(pkt, self.field_name)', mode='eval').body)
    for s in strat:
        up, pk = s['unpack'], s['pack']
        ctx.unit('strategy_pairs')
        # ---- unpack: stored value is the decoder's result
        for p in w.paths(up.node, cls=ci):
            if p.raises() or any(t.startswith("caught(") for t in p.guard_texts()):
                continue
            st_ = [e for e in p.effects if e.kind == 'setattr' and canon(e.obj) == 'pkt' and canon(e.name) == 'self.field_name']
            if not st_:
                ctx.violation('R1-int-codec', up, up.qual, 'a non-raising path stores no value', up.node.lineno, clause='d')
                continue
            v = st_[-1].value
            st = '%s stores %s' % (up.qual, canon(v)[:150])
            if isinstance(v, ast.Subscript) and isinstance(v.slice, ast.Constant) and v.slice.value == 0 and isinstance(v.value, ast.Call) \
                    and canon(v.value.func) == 'self.struct_obj.unpack':
                arg = v.value.args[0] if v.value.args else None
                if isinstance(arg, ast.Subscript) and isinstance(arg.slice, ast.Slice) and lin(ast.BinOp(left=arg.slice.upper, op=ast.Sub(), right=arg.slice.lower)) == {'self.byte_count': 1}:
                    ctx.holds('R1-int-codec', up, st, 'struct decode of exactly byte_count bytes, result stored unmodified', st_[-1].lineno, clause='d')
                else:
                    ctx.violation('R1-int-codec', up, st, 'the decoded slice is not byte_count bytes at the cursor', st_[-1].lineno, clause='d')
            elif isinstance(v, ast.Call) and call_name(v) == 'int.from_bytes':
                bo = kwarg(v, 'byteorder', 1)
                sg = kwarg(v, 'signed')
                arg = v.args[0] if v.args else None
                ok = True
                if bo is None or canon(bo) != BO:
                    ok = ctx.violation('R1-int-codec', up, st, "byteorder must be 'big' if self.is_bigendian else 'little' (got %s)" % (canon(bo) if bo is not None else 'default'), st_[-1].lineno, clause='c')
                if sg is None or canon(sg) != 'self.is_signed':
                    ok = ctx.violation('R1-int-codec', up, st, 'signed must be self.is_signed (got %s): negative values decode as large positives' % (canon(sg) if sg is not None else 'default False'), st_[-1].lineno, clause='c')
                if not (isinstance(arg, ast.Subscript) and isinstance(arg.slice, ast.Slice) and arg.slice.upper is not None and arg.slice.lower is not None
                        and lin(ast.BinOp(left=arg.slice.upper, op=ast.Sub(), right=arg.slice.lower)) == {'self.byte_count': 1} and arg.slice.step is None):
                    ok = ctx.violation('R1-int-codec', up, st, 'the decoded slice is not byte_count bytes at the cursor', st_[-1].lineno, clause='c')
                if ok:
                    ctx.holds('R1-int-codec', up, st, 'width byte_count, byteorder from is_bigendian, signed=is_signed, stored unmodified', st_[-1].lineno, clause='c')
            else:
                ctx.violation('R1-int-codec', up, st, 'the stored value is not the unmodified result of the struct / from_bytes decoder', st_[-1].lineno, clause='d')
            r = p.ret()
            if r is None or lin(r) != {'offset': 1, 'self.byte_count': 1}:
                ctx.violation('R1-int-codec', up, '%s returns %s' % (up.qual, canon(r) if r is not None else None), 'the cursor must advance by byte_count', up.node.lineno, clause='c')
        # ---- pack: value flows unmodified into a strict encoder, result appended unmodified
        for p in w.paths(pk.node, cls=ci):
            if p.raises() or any(t.startswith("caught(") for t in p.guard_texts()):
                continue
            apps = p.calls(lambda e: isinstance(e.call.func, ast.Attribute) and canon(e.call.func.value) == 'fragments' and e.call.func.attr in ('append', 'extend', 'insert'))
            if len(apps) != 1 or apps[0].call.func.attr != 'append':
                ctx.violation('R1-int-codec', pk, pk.qual, 'pack does not append exactly one chunk', pk.node.lineno, clause='d')
                continue
            v = apps[0].call.args[0]
            st = '%s appends %s' % (pk.qual, canon(v)[:150])
            if isinstance(v, ast.Call) and canon(v.func) == 'self.struct_obj.pack':
                if len(v.args) == 1 and canon(v.args[0]) == GETV:
                    ctx.holds('R1-int-codec', pk, st, 'the packet value flows unmodified into struct.pack (raises when out of range)', apps[0].lineno, clause='d')
                else:
                    ctx.violation('R1-int-codec', pk, st, 'the value is modified before packing (%s): out-of-range values wrap or truncate instead of raising' % canon(v.args[0] if v.args else v), apps[0].lineno, clause='d')
            elif isinstance(v, ast.Call) and isinstance(v.func, ast.Attribute) and v.func.attr == 'to_bytes':
                ok = True
                if canon(v.func.value) != GETV:
                    ok = ctx.violation('R1-int-codec', pk, st, 'the value is modified before encoding (%s): out-of-range values wrap instead of raising' % canon(v.func.value), apps[0].lineno, clause='d')
                width = kwarg(v, 'length', 0)
                bo = kwarg(v, 'byteorder', 1)
                sg = kwarg(v, 'signed')
                if width is None or canon(width) != 'self.byte_count':
                    ok = ctx.violation('R1-int-codec', pk, st, 'width must be self.byte_count', apps[0].lineno, clause='c')
                if bo is None or canon(bo) != BO:
                    ok = ctx.violation('R1-int-codec', pk, st, "byteorder must be 'big' if self.is_bigendian else 'little' (got %s)" % (canon(bo) if bo is not None else 'default'), apps[0].lineno, clause='c')
                if sg is None or canon(sg) != 'self.is_signed':
                    ok = ctx.violation('R1-int-codec', pk, st, 'signed must be self.is_signed (got %s)' % (canon(sg) if sg is not None else 'default False'), apps[0].lineno, clause='c')
                if ok:
                    ctx.holds('R1-int-codec', pk, st, 'same width / byteorder / signed expressions as the decoder; strict encoder', apps[0].lineno, clause='c')
            else:
                ctx.violation('R1-int-codec', pk, st, 'the chunk appended is not the unmodified result of struct.pack / int.to_bytes', apps[0].lineno, clause='d')
            if p.ret() is None or canon(p.ret()) != 'fragments':
                pass


def check_ctor(ctx, ci):
    init = ci.methods.get('__init__')
    if init is None:
        raise Undecided('anchor Int.__init__ not found')
    rule = 'R9-int-ctor'
    want = {'byte_count': 'byte_count', 'endianness': 'endianness', 'is_signed': 'signed', 'default': 'default'}
    for attr, param in want.items():
        ok = False
        for n in ast.walk(init.node):
            if isinstance(n, ast.Assign) and isinstance(n.targets[0], ast.Attribute) and n.targets[0].attr == attr and canon(n.targets[0].value) == 'self':
                ok = isinstance(n.value, ast.Name) and n.value.id == param
        if ok:
            ctx.holds(rule, init, 'self.%s = %s' % (attr, param), 'declared option stored unchanged', init.node.lineno, clause='e')
        else:
            ctx.violation(rule, init, 'self.%s' % attr, 'the constructor does not store %s unchanged' % param, init.node.lineno, clause='e')
    a = init.node.args
    defaults = dict(zip([x.arg for x in a.args][len(a.args) - len(a.defaults):], a.defaults))
    sd = defaults.get('signed')
    if isinstance(sd, ast.Constant) and sd.value is False:
        ctx.holds(rule, init, 'signed defaults to False', 'unsigned unless declared', init.node.lineno, clause='e')
    else:
        ctx.violation(rule, init, 'signed default %s' % (canon(sd) if sd is not None else None), 'integers are unsigned unless declared signed', init.node.lineno, clause='e')
    ed = defaults.get('endianness')
    if isinstance(ed, ast.Constant) and ed.value is None:
        ctx.holds(rule, init, 'endianness defaults to None', 'class-level default applies', init.node.lineno, clause='e')
    else:
        ctx.violation(rule, init, 'endianness default %s' % (canon(ed) if ed is not None else None), 'an omitted endianness must defer to the class-level default', init.node.lineno, clause='e')


def check(ctx):
    repo = ctx.repo
    ci = repo.cls('Int')
    comp = ci.methods.get('_compile')
    if comp is None:
        raise Undecided('anchor Int._compile not found')
    ctx.unit('functions', 6)
    check_compile(ctx, ci, comp)
    check_codecs(ctx, ci)
    check_ctor(ctx, ci)
    from .c03 import check_struct_block
    check_struct_block(ctx)
    ctx.floor('strategy pairs of Int', ctx.units.get('strategy_pairs', 0), 2)
    ctx.floor('endianness fold cases', sum(1 for o in ctx.obs if o.rule == 'R9-endianness-fold'), 9)
    from ..model import check_conf_plumbing
    check_conf_plumbing(ctx, 'R9-conf-plumbing', 'endianness')
    ctx.trust(*ASSUMPTIONS)
