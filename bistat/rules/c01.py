"""C01 -- parse-then-serialize reproduces the parsed bytes.

 (1) driver symmetry: all four drivers (generic pack / unpack, generated pack / unpack) visit
     the same get_fields() list, each index once, in order, with no filter / slice / reverse
     (templates: the blocks are a concatenation of groupby runs, C03-c);
 (2) R1 inverse-pair agreement for every co-installed (unpack, pack) strategy pair from the
     strategy table (method values assigned in _compile are followed): bytes consumed ==
     bytes emitted and codec parameters are the same expressions --
       Int (2 pairs)      struct object / from_bytes-to_bytes width, byteorder, signed (C05);
       Data (5 pairs)     stored slice, returned cursor and emitted value + delimiter agree
                          per (include, consume) path; the statement's exclusions
                          (consume_delimiter False, regex delimiter not kept) are the paths
                          where they legitimately differ (C06);
       Bits               one shared read at the first member, one write at the last (C07);
       Sequence/Optional  one child unpack per element <-> one child pack per element, same
                          order, same pad expression (C08, C10);
       Ref (3 pairs)      child cursor returned / child packs itself; embed: both no-ops (C08);
       Move               same new-cursor expression on both sides (C10);
       Em / Bkpt          consume nothing / emit nothing;
     a field class without a pair rule is reported as undecided, never silently accepted;
 (3) fill: the Fragments built in Packet.pack is constructed with the default fill, which
     resolves to b'.', and tobytes emits fill * gap before every chunk (C11-5); Packet.pack
     returns tobytes() of the buffer the drivers wrote;
 (4) overlaps surface: Fragments.insert raises an Exception on its collision guards (C11-4)
     and no pack strategy wraps a fragments write or a child pack in a try that could swallow
     it, so the pack driver's handler turns it into PacketError (R7).
Byte-for-byte equality for all inputs and "no longer than the region traversed" are not decided.

Round 5: the Em marker stores an empty chunk at the cursor; only Int / Data own a struct code,
never a pad code; every function Ref._compile can install in a role is judged in that role;
C11's index rule (bisect slot) is included.

Round 6: constructor-derived attributes of Int that go stale when another class resizes the
object (R9-ctor-derived-state); the selector's own packet stored; pack cutting / padding the
value to a recomputed size.
Round 7: the marker strategies of a kind split over several strategies are each judged under the
test that selects them; a delimiter left out of the value is remembered for pack (C06-e').
Round 8: a strategy built as a closure at compile time must not capture the value of
self.field_name (Ref renames the fields it hands out); abstract intermediate bases are judged
through their subclasses.
Round 9: every unpack strategy decodes exactly the bytes of its field (C04's strict-decode rule:
pack gives back the full width); every chunk goes through the collision guards of insert (C11 append).
"""
import ast

from .. import Undecided
from ..expr import canon, call_name, unparse
from ..model import strategy_pairs, is_placeholder, stmt_text
from .. import drivers as D

EXPLANATION = __doc__
LEVEL_RULE = 'one obligation per driver clause, per (strategy pair, path, clause), per fragments write site'
ASSUMPTIONS = [
    'the trusted standard-library table of C04 / C05 / C06 / C11 (struct, int.from_bytes/to_bytes, bytes.find, re, bisect)',
    'declarations that discard information by design are excluded by the statement (regex delimiter not kept, consume_delimiter=False, embed=True)',
]


def _abstract_base(repo, ci):
    """the class has subclasses in the package and the package never instantiates it (no call of
    its name, no mention of it besides base-class lists and isinstance tests)"""
    if not [c for c in repo.subclasses(ci.name) if c is not ci]:
        return False
    for info in repo.modules.values():
        par = {}
        for pn in ast.walk(info['tree']):
            for c in ast.iter_child_nodes(pn):
                par[id(c)] = pn
        for n in ast.walk(info['tree']):
            if isinstance(n, ast.Name) and n.id == ci.name and isinstance(n.ctx, ast.Load):
                pp = par.get(id(n))
                if isinstance(pp, ast.ClassDef) and n in pp.bases:
                    continue
                if isinstance(pp, ast.Call) and call_name(pp) == 'isinstance':
                    continue
                if isinstance(pp, ast.Attribute) and pp.value is n:
                    continue        # Base.method(self, ...)
                return False
    return True


def check_pairs(ctx):
    """R1: dispatch every co-installed (unpack, pack) pair to the rule of its field class"""
    repo = ctx.repo
    from . import c05, c06, c07, c08, c10
    pairs = strategy_pairs(repo)
    done = set()
    n = 0
    for ci, up, pk, s in pairs:
        n += 1
        ctx.unit('strategy_pairs')
        name = ci.name
        label = '%s: (%s, %s)' % (name, up.qual if up else None, pk.qual if pk else None)
        if (up is None or pk is None or is_placeholder(up) or is_placeholder(pk)) and _abstract_base(repo, ci):
            ctx.holds('R1-pair-installed', (ci.file, name), label, 'an intermediate base class that is never instantiated: judged through the classes derived from it', ci.node.lineno, clause='2')
            continue
        if up is None or pk is None or is_placeholder(up) or is_placeholder(pk):
            ctx.violation('R1-pair-installed', (ci.file, name), label, 'a _compile path leaves a placeholder behind .pack / .unpack: the field cannot be parsed or serialized', ci.node.lineno, clause='2')
            continue
        if name in done:
            continue
        if name == 'Int':
            done.add(name)
            c05.check_codecs(ctx, ci)
            from ..model import check_stale_derived
            check_stale_derived(ctx, 'R9-ctor-derived-state', 'Int', clause='2')
        elif name == 'Data':
            done.add(name)
            sel = c06.check_selection(ctx)
            seen = set()
            for kind in ('int', 'field', 'callable', 'expression'):
                t = sel.get(kind)
                if t is None:
                    continue
                fi = repo.method(ci, t)
                key = (fi.id, 'callable' if kind == 'expression' else kind)
                if key in seen:
                    continue
                seen.add(key)
                c06.classify_sized(ctx, ci, fi, 'callable' if kind == 'expression' else kind)
            for kind, regex in (('bytes-marker', False), ('regex-marker', True)):
                targets = [(sel[kind], ())] if sel.get(kind) is not None else sel.get('__multi__', {}).get(kind, [])
                for t, facts in targets:
                    if repo.method(ci, t) is not None:
                        c06.classify_marker(ctx, ci, repo.method(ci, t), regex, facts)
            c06.check_pack_and_ctor(ctx)
        elif name == 'Bits':
            done.add(name)
            c07.check_unpack(ctx, ci)
            c07.check_pack(ctx, ci)
        elif name == 'Sequence':
            done.add(name)
            c08.check_sequence_unpack(ctx, ci)
            c08.check_sequence_pack(ctx, ci)
            c10.check_sequence_pads(ctx)
        elif name == 'Optional':
            done.add(name)
            c08.check_optional(ctx, ci)
        elif name == 'Ref':
            done.add(name)
            c08.check_ref(ctx, ci)
            # the embed pair: both sides are the no-ops
            for ci2, up2, pk2, s2 in pairs:
                if ci2.name == 'Ref' and up2.node.name.endswith('noop') != pk2.node.name.endswith('noop'):
                    ctx.violation('R1-pair-installed', up2, 'Ref: (%s, %s)' % (up2.qual, pk2.qual), 'an embedded reference is a no-op on one side only', up2.node.lineno, clause='2')
            check_noop(ctx, repo.cls('Field'))
        elif name == 'Move':
            done.add(name)
            c10.check_move(ctx)
        elif name in ('Em', 'Bkpt'):
            done.add(name)
            check_empty_pair(ctx, ci, up, pk)
        else:
            ctx.undecided('R1-pair-installed', (ci.file, name), label, 'no inverse-pair rule exists for field class %s: its pack / unpack agreement is not analysed' % name, ci.node.lineno, clause='2')
    ctx.floor('co-installed strategy pairs', n, 14)
    return n


def check_noop(ctx, fld):
    repo = ctx.repo
    rule = 'R1-empty-pair'
    w = repo.walker()
    up, pk = fld.methods.get('unpack_noop'), fld.methods.get('pack_noop')
    if up is None or pk is None:
        ctx.undecided(rule, (fld.file, 'Field'), 'unpack_noop / pack_noop', 'no-op strategies not found', fld.node.lineno)
        return
    _empty(ctx, rule, 'Field no-op', up, pk, w, fld)


def check_empty_pair(ctx, ci, up, pk):
    w = ctx.repo.walker()
    _empty(ctx, 'R1-empty-pair', ci.name, up, pk, w, ci)


def _empty(ctx, rule, label, up, pk, w, ci):
    for p in w.paths(up.node, cls=ci):
        if p.raises():
            continue
        r = p.ret()
        reads = [n for n in ast.walk(up.node) if isinstance(n, ast.Subscript) and isinstance(n.value, ast.Name) and n.value.id == 'raw']
        if r is not None and canon(r) == 'offset' and not p.setattrs() and not reads:
            ctx.holds(rule, up, '%s.unpack: return offset' % label, 'consumes nothing, stores nothing', up.node.lineno, clause='2')
        else:
            ctx.violation(rule, up, '%s.unpack: return %s' % (label, canon(r) if r is not None else None), 'a placeholder field must consume nothing', up.node.lineno, clause='2')
    for p in w.paths(pk.node, cls=ci):
        if p.raises():
            continue
        writes = [e for e in p.calls() if isinstance(e.call.func, ast.Attribute) and canon(e.call.func.value) == 'fragments' and e.call.func.attr in ('append', 'extend', 'insert')]
        nonempty = [e for e in writes if not (e.call.args and isinstance(e.call.args[-1], ast.Constant) and e.call.args[-1].value == b'')]
        moved = [e for e in p.effects if e.kind == 'store_attr' and canon(e.obj) == 'fragments']
        if not nonempty and not moved and not writes and label == 'Em':
            # Em is the position marker of the declaration language (tail = Em().aligned(4)): the
            # cursor movement before it only shows in the output when something is stored there
            mv = ctx.repo.cls('Move').methods.get('pack') if ctx.repo.has_cls('Move') else None
            mv_writes = mv is not None and any(isinstance(n, ast.Call) and isinstance(n.func, ast.Attribute) and canon(n.func.value) == 'fragments'
                                               and n.func.attr in ('append', 'extend', 'insert') for n in ast.walk(mv.node))
            if mv_writes:
                ctx.undecided(rule, pk, 'Em.pack: stores nothing', 'cannot see that Move.pack records the position it moved to', pk.node.lineno, clause='2')
            else:
                ctx.violation(rule, pk, 'Em.pack: stores nothing at the cursor', 'the marker does not record the position it stands at (an empty chunk at the cursor): the bytes skipped by an alignment / shift / at before a final Em are missing from pack() instead of holding the fill byte', pk.node.lineno, clause='2', witness=True)
        elif not nonempty and not moved and p.ret() is not None and canon(p.ret()) == 'fragments':
            ctx.holds(rule, pk, '%s.pack: emits nothing%s' % (label, " (appends b'')" if writes else ''), 'consumes nothing <-> emits nothing', pk.node.lineno, clause='2')
        else:
            ctx.violation(rule, pk, '%s.pack: %s' % (label, [e.text() for e in nonempty + moved]), 'a placeholder field must emit nothing and leave the cursor alone', pk.node.lineno, clause='2')


def check_driver_symmetry(ctx):
    repo = ctx.repo
    drivers = D.get_drivers(repo)
    layout = D.fields_tuple_layout(repo)
    for d in drivers:
        ctx.unit('drivers')
        if d.origin == 'generic':
            sh = D.generic_loop_shape(ctx, 'R2-driver-symmetry', d)
            if sh is not None:
                D.check_call_signature(ctx, 'R2-driver-symmetry', d, sh, layout, d.where, d.label)
        else:
            sh = D.template_loop_shape(ctx, 'R2-driver-symmetry', repo, d.kind)
            if sh is not None:
                D.check_call_signature(ctx, 'R2-driver-symmetry', d, sh, layout, sh['template'].func, '%s loop block' % d.kind)
        D.check_try_span(ctx, 'R2-driver-symmetry', d)
    from .c03 import check_partition, check_struct_block, check_struct_code_owners
    check_partition(ctx)
    check_struct_block(ctx)
    check_struct_code_owners(ctx)
    ctx.floor('drivers analysed', ctx.units.get('drivers', 0), 4)
    return drivers


def check_fill_and_buffer(ctx):
    repo = ctx.repo
    rule = 'R8-fill-flow'
    pk = repo.cls('Packet')
    fi = pk.methods.get('pack')
    if fi is None:
        raise Undecided('anchor Packet.pack not found')
    w = repo.walker(tag=lambda c: 'buffer' if call_name(c) in ('Fragments',) else None)
    ok_any = False
    for p in w.paths(fi.node, cls=pk):
        if p.raises():
            continue
        r = p.ret()
        ctor = [e for e in p.calls() if call_name(e.call) == 'Fragments']
        impl = [e for e in p.calls() if isinstance(e.call.func, ast.Attribute) and e.call.func.attr == 'pack_impl']
        st = 'Packet.pack: %s' % (canon(r) if r is not None else None)
        if len(ctor) != 1 or ctor[0].call.args or ctor[0].call.keywords:
            ctx.violation(rule, fi, 'Packet.pack: %s' % [e.text() for e in ctor], 'the output buffer must be one Fragments() with the default fill', fi.node.lineno, clause='3')
            continue
        S = ctor[0].value.id
        if len(impl) != 1 or not impl[0].call.args or canon(impl[0].call.args[0]) != S:
            ctx.violation(rule, fi, 'Packet.pack: %s' % [e.text() for e in impl], 'pack_impl must receive the fresh buffer', fi.node.lineno, clause='3')
            continue
        if r is not None and canon(r) in ('self.pack_impl(%s, root=self).tobytes()' % S, '%s.tobytes()' % S):
            ok_any = True
            ctx.holds(rule, fi, 'fragments = Fragments(); fragments = self.pack_impl(fragments, root=self); return fragments.tobytes()', 'default fill, bytes of the buffer the drivers wrote', fi.node.lineno, clause='3')
        else:
            ctx.violation(rule, fi, st, 'pack must return tobytes() of the buffer handed to the drivers', fi.node.lineno, clause='3')
    if not ok_any and not any(o.rule == rule and o.verdict == 'VIOLATION' for o in ctx.obs):
        ctx.violation(rule, fi, 'Packet.pack', 'no successful path', fi.node.lineno, clause='3')
    # the fill default and tobytes (C11 clauses 5)
    from .c11 import check_tobytes
    fr = repo.cls('Fragments')
    init = fr.methods.get('__init__')
    a = init.node.args
    defaults = dict(zip([x.arg for x in a.args][len(a.args) - len(a.defaults):], a.defaults))
    fill = None
    for n in ast.walk(init.node):
        if isinstance(n, ast.Assign) and isinstance(n.targets[0], ast.Attribute) and n.targets[0].attr == 'fill':
            v = n.value
            fill = defaults.get(v.id) if isinstance(v, ast.Name) and v.id in defaults else v
    if isinstance(fill, ast.Constant) and fill.value == b'.':
        ctx.holds(rule, init, "Fragments() -> fill = b'.'", "skipped positions are rendered as '.'", init.node.lineno, clause='3')
    else:
        ctx.violation(rule, init, 'Fragments() -> fill = %s' % (canon(fill) if fill is not None else None), "the default fill is not b'.'", init.node.lineno, clause='3')
    cmap = None
    for n in ast.walk(init.node):
        if isinstance(n, ast.Assign) and isinstance(n.targets[0], ast.Attribute) and isinstance(n.value, ast.Dict) and not n.value.keys:
            cmap = n.targets[0].attr
    if cmap is None:
        raise Undecided('cannot identify the chunk map of Fragments')
    check_tobytes(ctx, repo, fr, fr.methods['tobytes'], 'self.' + cmap)


def check_overlap_surfaces(ctx):
    repo = ctx.repo
    rule = 'R7-overlap-surfaces'
    from ..model import pack_strategies
    sites = cursor_writes = 0
    for ci, fi, s in pack_strategies(repo):
        for n in ast.walk(fi.node):
            if isinstance(n, ast.Call) and isinstance(n.func, ast.Attribute) and canon(n.func.value) == 'fragments' and n.func.attr in ('append', 'extend', 'insert'):
                sites += 1
            if isinstance(n, (ast.Assign, ast.AugAssign)):
                for t in (n.targets if isinstance(n, ast.Assign) else [n.target]):
                    if canon(t) == 'fragments.current_offset':
                        cursor_writes += 1
        for t in ast.walk(fi.node):
            if not isinstance(t, ast.Try):
                continue
            body_src = ' '.join(unparse(s_) for s_ in t.body)
            risky = 'fragments.append' in body_src or 'fragments.extend' in body_src or 'fragments.insert' in body_src or '.pack(' in body_src or '.pack_impl(' in body_src or 'pack(pkt' in body_src
            if not risky:
                continue
            for h in t.handlers:
                reraises = h.body and isinstance(h.body[-1], ast.Raise)
                broad = h.type is None or unparse(h.type) in ('Exception', 'BaseException')
                if broad and not reraises:
                    ctx.violation(rule, fi, '[%s] try: %s except %s' % (ci.name, body_src[:80], unparse(h.type) if h.type else ''), 'a pack strategy swallows failures of a buffer write / child pack: two fields writing the same bytes no longer raise', t.lineno, clause='4')
    for t in repo.templates():
        if t.tree is not None:
            for n in ast.walk(t.tree):
                if isinstance(n, ast.Call) and isinstance(n.func, ast.Attribute) and canon(n.func.value) == 'fragments' and n.func.attr in ('append', 'extend', 'insert'):
                    sites += 1
    ctx.unit('fragments_write_sites', sites)
    ctx.unit('cursor_write_sites', cursor_writes)
    if not any(o.rule == rule for o in ctx.obs):
        ctx.holds(rule, ('bisturi/', 'pack strategies'), '%d buffer write sites, %d cursor writes; no swallowing try around them' % (sites, cursor_writes), 'a collision raised by Fragments.insert reaches the driver handler', 0, clause='4')
    ctx.floor('fragments write sites', sites, 5)
    # collision raises are Exception instances
    ins = repo.cls('Fragments').methods.get('insert')
    raises = [n for n in ast.walk(ins.node) if isinstance(n, ast.Raise) and n.exc is not None]
    if raises and all(call_name(r.exc) in ('Exception', 'ValueError', 'RuntimeError', 'OverflowError') or (isinstance(r.exc, ast.Call) and 'Error' in (call_name(r.exc) or '')) for r in raises):
        ctx.holds(rule, ins, 'Fragments.insert raises %s on collision' % sorted({call_name(r.exc) for r in raises}), 'caught by the driver\'s "except Exception" and turned into PacketError', ins.node.lineno, clause='4')
    elif not raises:
        ctx.violation(rule, ins, 'Fragments.insert', 'no collision is ever raised: overlapping fields silently overwrite each other', ins.node.lineno, clause='4')
    else:
        ctx.undecided(rule, ins, 'Fragments.insert raises %s' % [unparse(r.exc) for r in raises], 'cannot tell that the collision error derives from Exception', ins.node.lineno, clause='4')
    # pack drivers convert it
    for d in D.get_drivers(repo):
        if d.kind == 'pack':
            D.check_handlers(ctx, 'R7-overlap-surfaces', d)
    # the collision guards themselves (C11 clauses 4 and 7)
    from .c11 import check as c11_check
    c11_check(ctx, parts=('index', 'guards', 'atomic', 'append'))


def check(ctx):
    from ..model import check_strategies_read_the_name_at_call_time
    check_strategies_read_the_name_at_call_time(ctx, 'R1-name-at-call-time')
    check_driver_symmetry(ctx)
    check_pairs(ctx)
    check_fill_and_buffer(ctx)
    check_overlap_surfaces(ctx)
    # Round 9.  pack emits the full width of every field: the bytes come back only if unpack took
    # exactly that many -- a decoder that accepts "what is there" (a short slice) stores a value
    # whose encoding is longer than the input.  The strict-decode rule of C04 on every strategy
    from ..model import strategy_variants
    from .c04 import check_strategy_strict
    for ci_, fi_, s_, parked_ in strategy_variants(ctx.repo, 'unpack'):
        try:
            check_strategy_strict(ctx, ci_, fi_, s_, parked_, rule='R1-takes-what-it-gives-back')
        except Undecided as e:
            ctx.undecided('R1-takes-what-it-gives-back', fi_, fi_.qual, str(e), fi_.node.lineno)
    ctx.trust(*ASSUMPTIONS)


def thorough(ctx):
    """thorough tier: the declaration constructs used anywhere in the repository (examples, tests,
    docs) map to analysed strategies / rules"""
    from ..inventory import inventory
    inventory(ctx)
