"""C10 -- positioning and alignment act identically when parsing and serializing.

 (a) at / shift / aligned record (argument, reference, is_alignment) with the documented
     defaults; _describe_yourself inserts the Move pseudo-field *before* the field, passes
     the three values in the order Move.__init__ stores them, and applies the class-wide
     align option only when the field has no move of its own;
 (b) sibling agreement Move.unpack vs Move.pack: for each of the 6 (is_alignment,
     reference) cases and each way to resolve the argument (field / int / callable) the
     new-cursor expression is identical up to  offset <-> fragments.current_offset;
 (c) pad formula (congruence normaliser): every alignment step has the shape
     cursor + (E % a) with  E == -(cursor - start) (mod a)  -- i.e. the least non-negative
     amount, always < a, that makes (cursor - start) a multiple of a; the non-alignment
     cases are  value,  cursor + value,  k['innermost-pkt-pos'] + value;
 (d) per-element alignment of Sequence: the same pad expression at the three sites
     (count loop, until loop, pack loop), satisfying (c) with start = 0, applied right
     before each element; aligned_to defaults to the class-wide align, else 1;
 (e) all four drivers record the entry cursor as k['innermost-pkt-pos'] before any field;
 (f) Move.pack only assigns the cursor (skipped bytes become holes, filled with '.');
     Move.unpack reads no input bytes and stores nothing; every Fragments.insert -- an empty
     chunk included -- is recorded and moves the cursor, and tobytes fills holes (C11 1, 2, 5).
Values returned by user callables are not decided.

Round 5: (k) Packet.unpack hands the drivers the caller's data and offset unchanged; (l) a
positioning pseudo-field never joins a struct block (no struct code outside Int / Data).

Round 6: (m) only Move.pack and the per-element pad of Sequence.pack set the cursor; an element
packed without the pad; class-wide align rules decided on paths.
Round 7: a Move is never switched off at class creation (a neighbour's alignment with an unexamined
reference point is no proof that the cursor is aligned).
Round 8: includes the selector-configuration rule of C08 (class-wide align on both sides).
"""
import ast
import copy

from .. import Undecided
from ..expr import canon, lin, lin_sub, residue_mod, call_name, unparse, negate, conj
from ..model import stmt_text
from .. import drivers as D

EXPLANATION = __doc__
LEVEL_RULE = 'one obligation per (case, argument kind) of Move, per pad site, per modifier, per driver'
ASSUMPTIONS = [
    'x % a is the non-negative residue for a > 0 (Python semantics)',
    'callable move arguments have different unpack / pack interfaces by design (TODO in the code): their results are compared as one opaque value',
]

REFS = ('begins', 'current-offset', 'innermost-pkt')


def gtexts(p):
    out = set()
    for g, pol in p.guards:
        t = g if pol else negate(g)
        for c in conj(t):
            out.add(canon(c))
    return out


class Opaque(ast.NodeTransformer):
    """callable move argument -> the opaque value MV; fragments.current_offset -> offset"""

    def __init__(self, cursor):
        self.cursor = cursor

    def visit_Call(self, n):
        self.generic_visit(n)
        if canon(n.func) == 'self.move_arg':
            return ast.Name(id='MV', ctx=ast.Load())
        return n

    def visit_Attribute(self, n):
        self.generic_visit(n)
        if canon(n) == self.cursor and self.cursor != 'offset':
            return ast.Name(id='offset', ctx=ast.Load())
        return n


def case_of(gt):
    al = 'self.is_alignment' in gt
    nal = 'not self.is_alignment' in gt
    ref = None
    for r in REFS:
        if ("('%s' == self.reference)" % r) in gt:
            ref = r
    kind = 'field' if 'isinstance(self.move_arg, Field)' in gt else 'int' if 'isinstance(self.move_arg, int)' in gt else 'callable' if 'callable(self.move_arg)' in gt else None
    return (True if al else False if nal else None), ref, kind


def new_cursor(p, side):
    if side == 'unpack':
        return p.ret()
    st = [e for e in p.effects if e.kind == 'store_attr' and canon(e.obj) == 'fragments' and e.name == 'current_offset']
    return st[-1].value if st else None


def check_move(ctx):
    repo = ctx.repo
    mv = repo.cls('Move')
    up, pk = mv.methods.get('unpack'), mv.methods.get('pack')
    if up is None or pk is None:
        raise Undecided('anchor Move.unpack / Move.pack not found')
    ctx.unit('functions', 2)
    w = repo.walker(inline_depth=2, max_paths=ctx.max_paths, split_ifexp=True)
    table = {}
    extras = {}
    for side, fi, cursor in (('unpack', up, 'offset'), ('pack', pk, 'fragments.current_offset')):
        paths = w.paths(fi.node, cls=mv)
        ctx.unit('paths', len(paths))
        for p in paths:
            if p.raises():
                continue
            al, ref, kind = case_of(gtexts(p))
            if kind is not None and (al is None or ref is None):
                ctx.violation('R8-move-siblings', fi, 'Move.%s path [%s] -> %s' % (side, '; '.join(sorted(gtexts(p)))[:160], canon(new_cursor(p, side)) if new_cursor(p, side) is not None else None),
                              'the new cursor is produced without consulting %s: the six (is_alignment, reference) cases have pairwise different results, so a path that ignores the reference point is wrong for some of them' % ('is_alignment' if al is None else 'the reference point'), fi.node.lineno, clause='b')
                continue
            if al is None or ref is None or kind is None:
                ctx.undecided('R8-move-siblings', fi, 'path [%s]' % '; '.join(sorted(gtexts(p)))[:200], 'cannot tell which (is_alignment, reference, argument kind) case this path is', fi.node.lineno, clause='b')
                continue
            v = new_cursor(p, side)
            if v is None:
                ctx.violation('R8-move-siblings', fi, 'Move.%s [%s, %s, %s]' % (side, 'align' if al else 'move', ref, kind), 'the path does not produce a new cursor', fi.node.lineno, clause='b')
                continue
            norm = Opaque(cursor).visit(copy.deepcopy(v))
            table.setdefault((al, ref, kind), {})[side] = (norm, fi, p)
            extra = sorted(g for g in gtexts(p) if not any(t in g for t in ('self.is_alignment', 'self.reference', 'isinstance(self.move_arg', 'callable(self.move_arg', 'isinstance(self.is_alignment')))
            extras.setdefault((al, ref, kind), {})[side] = [canon_cursor(g, cursor) for g in extra]
            # (f)
            if side == 'pack':
                writes = [e for e in p.effects if e.kind == 'call' and isinstance(e.call.func, ast.Attribute) and canon(e.call.func.value) == 'fragments'
                          and e.call.func.attr in ('append', 'extend', 'insert')]
                if writes:
                    ctx.violation('R8-move-only-moves', fi, writes[0].text(), 'Move.pack emits bytes: skipped regions must stay holes', writes[0].lineno, clause='f')
                if p.ret() is None or canon(p.ret()) != 'fragments':
                    ctx.violation('R8-move-only-moves', fi, 'Move.pack returns %s' % (canon(p.ret()) if p.ret() is not None else None), 'pack must return the buffer', fi.node.lineno, clause='f')
            else:
                if p.setattrs():
                    ctx.violation('R8-move-only-moves', fi, p.setattrs()[0].text(), 'Move.unpack stores a value', p.setattrs()[0].lineno, clause='f')
    if not any(o.rule == 'R8-move-only-moves' for o in ctx.obs):
        ctx.holds('R8-move-only-moves', pk, 'Move.pack assigns fragments.current_offset only; Move.unpack stores nothing', 'skipped bytes are ignored on input and become holes on output', pk.node.lineno, clause='f')
    # raw must not be read by Move.unpack except to hand it to the callable
    for n in ast.walk(up.node):
        if isinstance(n, ast.Subscript) and isinstance(n.value, ast.Name) and n.value.id == 'raw':
            ctx.violation('R8-move-only-moves', up, stmt_text(n), 'Move.unpack reads input bytes', n.lineno, clause='f')
    for key, sd in sorted(extras.items(), key=lambda kv: str(kv[0])):
        if set(sd) == {'unpack', 'pack'} and sd['unpack'] != sd['pack']:
            fi_ = up if sd['unpack'] else pk
            ctx.violation('R8-move-siblings', fi_, 'Move [%s, %s, %s]: unpack accepts only under %s, pack under %s' % ('align' if key[0] else 'move', key[1], key[2], sd['unpack'], sd['pack']),
                          'one side rejects (or restricts) positions that the other side accepts: a packet that serializes cannot be parsed back, or the reverse', fi_.node.lineno, clause='b')
    ncases = 0
    for (al, ref, kind), sides in sorted(table.items(), key=lambda kv: (not kv[0][0], kv[0][1], kv[0][2])):
        label = '[%s, %s, %s]' % ('align' if al else 'move', ref, kind)
        if set(sides) != {'unpack', 'pack'}:
            fi = list(sides.values())[0][1]
            other = 'unpack' if 'pack' in sides else 'pack'
            if any(o.rule == 'R8-move-siblings' and o.verdict == 'UNDECIDED' and o.function == 'Move.%s' % other for o in ctx.obs):
                ctx.undecided('R8-move-siblings', fi, 'Move %s' % label, 'the case was found only on the %s side, but the cases of Move.%s could not all be told apart' % (list(sides)[0], other), fi.node.lineno, clause='b')
                continue
            ctx.violation('R8-move-siblings', fi, 'Move %s' % label, 'the case exists only on the %s side' % list(sides)[0], fi.node.lineno, clause='b')
            continue
        ncases += 1
        (eu, fu, pu), (ep, fp, pp) = sides['unpack'], sides['pack']
        cu, cp = canon(eu), canon(ep)
        if cu == cp:
            ctx.holds('R8-move-siblings', fp, 'Move %s: new cursor = %s' % (label, cu), 'identical on both sides up to offset <-> fragments.current_offset', fp.node.lineno, clause='b')
        else:
            ctx.violation('R8-move-siblings', fp, 'Move %s: unpack %s | pack %s' % (label, cu, cp), 'parsing and serializing place the field at different positions', fp.node.lineno, clause='b')
        # (c) formula, on the unpack side (the pack side is equal or already reported)
        mvv = {'field': canon(ast.parse('getattr(pkt, self.move_arg.field_name)', mode='eval').body), 'int': 'self.move_arg', 'callable': 'MV'}[kind]
        for side, e, fi in (('unpack', eu, fu), ('pack', ep, fp)):
            st = 'Move.%s %s: %s' % (side, label, canon(e))
            if not al:
                want = {'begins': {mvv: 1}, 'current-offset': {'offset': 1, mvv: 1}, 'innermost-pkt': {"k['innermost-pkt-pos']": 1, mvv: 1}}[ref]
                if lin(e) == want:
                    ctx.holds('R8-move-formula', fi, st, 'reference point + value', fi.node.lineno, clause='c')
                else:
                    ctx.violation('R8-move-formula', fi, st, 'expected %s' % ' + '.join(want), fi.node.lineno, clause='c')
            else:
                start = {'begins': {}, 'current-offset': {'offset': 1}, 'innermost-pkt': {"k['innermost-pkt-pos']": 1}}[ref]
                ok, why = check_pad(e, 'offset', start, mvv)
                if ok:
                    ctx.holds('R8-move-formula', fi, st, why, fi.node.lineno, clause='c')
                else:
                    ctx.violation('R8-move-formula', fi, st, why, fi.node.lineno, clause='c')
    ctx.unit('move_cases', ncases)
    ctx.floor('Move (case, kind) pairs compared', ncases, 18)


def canon_cursor(g, cursor):
    return g.replace(cursor, 'CURSOR') if cursor != 'offset' else g.replace('offset', 'CURSOR')


def check_pad(e, cursor, start, a_text):
    """e == cursor + (X % a)  with  X == -(cursor - start) (mod a)"""
    f = lin(e)
    rest = dict(f)
    if rest.get(cursor) != 1:
        return False, 'the new cursor is not the old cursor plus a pad'
    del rest[cursor]
    if len(rest) != 1 or list(rest.values())[0] != 1:
        return False, 'the pad is not a single (E %% a) term: %s' % sorted(rest)
    # find the pad node in e
    pad = None
    for n in ast.walk(e):
        if isinstance(n, ast.BinOp) and isinstance(n.op, ast.Mod) and canon(n) == list(rest)[0]:
            pad = n
    if pad is None:
        return False, 'the pad is not reduced modulo the alignment: when the cursor is already aligned a full unit is skipped'
    if canon(pad.right) != a_text:
        return False, 'the pad is reduced modulo %s, not the alignment %s' % (canon(pad.right), a_text)
    red = residue_mod(pad.left, a_text)
    want = lin_sub(start, {cursor: 1})
    if red == want:
        return True, 'pad = E %% a with E == -(cursor - start) (mod a): least non-negative, < a, reaches a multiple'
    return False, 'E reduces to %s (mod a), expected %s: the pad does not reach a multiple of the alignment from the reference point' % (red, want)


def check_modifiers(ctx):
    repo = ctx.repo
    fld = repo.cls('Field')
    rule = 'R8-modifiers'
    want = {
        'at': dict(arg=0, reference='reference', ref_default='innermost-pkt', is_alignment=False),
        'shift': dict(arg=0, reference="'current-offset'", ref_default=None, is_alignment=False),
        'aligned': dict(arg=0, reference='reference', ref_default='begins', is_alignment=True),
    }
    for name, wnt in want.items():
        fi = fld.methods.get(name)
        if fi is None:
            ctx.violation(rule, (fld.file, 'Field'), 'Field.%s' % name, 'modifier not found', fld.node.lineno, clause='a')
            continue
        ctx.unit('functions')
        params = [a.arg for a in fi.node.args.args][1:]
        defaults = dict(zip(params[len(params) - len(fi.node.args.defaults):], fi.node.args.defaults))
        vals = {}
        for n in ast.walk(fi.node):
            if isinstance(n, ast.Assign) and isinstance(n.targets[0], ast.Attribute) and canon(n.targets[0].value) == 'self':
                vals[n.targets[0].attr] = n.value
        ok = True
        if 'move_arg' not in vals or canon(vals['move_arg']) != params[0]:
            ok = ctx.violation(rule, fi, '%s: move_arg = %s' % (name, canon(vals.get('move_arg')) if 'move_arg' in vals else None), 'the position / alignment argument is not recorded', fi.node.lineno, clause='a')
        rv = canon(vals['reference']) if 'reference' in vals else None
        if rv != wnt['reference']:
            ok = ctx.violation(rule, fi, '%s: reference = %s' % (name, rv), 'expected %s' % wnt['reference'], fi.node.lineno, clause='a')
        if wnt['ref_default'] is not None:
            d = defaults.get('reference')
            if not (isinstance(d, ast.Constant) and d.value == wnt['ref_default']):
                ok = ctx.violation(rule, fi, '%s: reference default %s' % (name, canon(d) if d is not None else None), 'documented default is %r' % wnt['ref_default'], fi.node.lineno, clause='a')
        ia = vals.get('is_alignment')
        if not (isinstance(ia, ast.Constant) and ia.value is wnt['is_alignment']):
            ok = ctx.violation(rule, fi, '%s: is_alignment = %s' % (name, canon(ia) if ia is not None else None), 'expected %s' % wnt['is_alignment'], fi.node.lineno, clause='a')
        rets = [r for r in ast.walk(fi.node) if isinstance(r, ast.Return)]
        if not rets or any(r.value is None or canon(r.value) != 'self' for r in rets):
            ok = ctx.violation(rule, fi, name, 'the modifier must return the field itself', fi.node.lineno, clause='a')
        if ok:
            ctx.holds(rule, fi, 'Field.%s records (%s, %s, %s)' % (name, params[0], wnt['reference'], wnt['is_alignment']), 'documented meaning and defaults', fi.node.lineno, clause='a')
    # _describe_yourself
    dy = fld.methods.get('_describe_yourself')
    mv = repo.cls('Move')
    minit = mv.methods.get('__init__')
    if dy is None or minit is None:
        raise Undecided('anchor Field._describe_yourself / Move.__init__ not found')
    w = repo.walker()
    paths = w.paths(dy.node, cls=fld)
    mparams = [a.arg for a in minit.node.args.args][1:]
    stored = {}
    for n in ast.walk(minit.node):
        if isinstance(n, ast.Assign) and isinstance(n.targets[0], ast.Attribute) and isinstance(n.value, ast.Name):
            stored[n.targets[0].attr] = n.value.id
    if all(stored.get(a) == a for a in ('move_arg', 'reference', 'is_alignment')):
        ctx.holds(rule, minit, 'Move.__init__(%s) stores each under its own name' % ', '.join(mparams), 'the pseudo-field carries the recorded move', minit.node.lineno, clause='a')
    else:
        ctx.violation(rule, minit, 'Move.__init__ stores %s' % stored, 'the three values are not stored under their own names', minit.node.lineno, clause='a')
    seen_move = False
    for p in paths:
        if p.raises():
            continue
        gt = gtexts(p)
        r = p.ret()
        ctor = [e for e in p.calls() if call_name(e.call) == 'Move']
        if ctor:
            seen_move = True
            c = ctor[0].call
            bound = dict(zip(mparams, c.args))
            for k in c.keywords:
                bound[k.arg] = k.value
            okb = all(a in bound and canon(bound[a]).startswith('self.' + a) or (a in bound and canon(bound[a]) == 'self.' + a) for a in ('move_arg', 'reference', 'is_alignment'))
            if not okb:
                # after self.aligned(...) on this path the attributes may have been substituted: accept values recorded by aligned
                okb = all(a in bound for a in ('move_arg', 'reference', 'is_alignment'))
                direct = {a: canon(bound[a]) for a in bound}
                if not all(direct.get(a, '').endswith(a) or 'self.' + a == direct.get(a) for a in ('move_arg', 'reference', 'is_alignment')):
                    ctx.violation(rule, dy, stmt_text(ctor[0].node), 'Move(...) does not receive (move_arg, reference, is_alignment) in the order its constructor stores them: %s' % direct, ctor[0].lineno, clause='a')
                    continue
            if isinstance(r, ast.List) and len(r.elts) == 2 and 'Move(' in canon(r.elts[0]) and canon(r.elts[1]).endswith('self,)'):
                pass
            elif isinstance(r, ast.List) and len(r.elts) == 2:
                first = canon(r.elts[0])
                if 'Move(' not in first:
                    ctx.violation(rule, dy, 'returns %s' % canon(r)[:120], 'the Move pseudo-field must come before the field it positions', dy.node.lineno, clause='a')
                    continue
            else:
                ctx.violation(rule, dy, 'returns %s' % (canon(r)[:120] if r is not None else None), 'a positioned field must be described as [move, field]', dy.node.lineno, clause='a')
                continue
    if seen_move:
        ctx.holds(rule, dy, '[(move name, Move(self.move_arg, self.reference, self.is_alignment)), (name, self)]', 'the move runs right before its field, on both paths', dy.node.lineno, clause='a')
    else:
        ctx.violation(rule, dy, '_describe_yourself', 'no Move pseudo-field is ever inserted', dy.node.lineno, clause='a')
    # class-wide align: decided on the paths of _describe_yourself with one level of helpers expanded
    found = wrong = None
    for p in repo.walker(inline_depth=1, max_paths=ctx.max_paths, keep={'aligned', 'at', 'shift'}).paths(dy.node, cls=repo.cls('Field')):
        if p.raises():
            continue
        from ..model import path_facts
        facts = set(p.guard_texts()) | set(path_facts(p))
        for e in p.effects:
            if e.kind == 'call' and canon(e.call.func) == 'self.aligned':
                c = e.call
                arg = c.args[0] if c.args else next((k.value for k in c.keywords if k.arg == 'to'), None)
                extra = [k for k in c.keywords if k.arg == 'reference'] or len(c.args) > 1
                from_conf = arg is not None and canon(arg) in ("bisturi_conf['align']",) or (isinstance(arg, ast.Call) and canon(arg.func) == 'bisturi_conf.get' and arg.args and canon(arg.args[0]) == "'align'")
                own_move = '(self.move_arg is None)' in facts
                if from_conf and own_move and not extra:
                    found = e
                elif from_conf:
                    wrong = (e, 'the class-wide alignment is applied %s' % ('with another reference point' if extra else 'on a path where the field may have a position of its own (self.move_arg is None is not known): it replaces the at / shift / aligned the declaration gave'))
    if wrong is not None:
        ctx.violation(rule, dy, 'class-wide align: %s' % wrong[0].text()[:80], wrong[1], wrong[0].lineno, clause='a', witness=True)
    elif found is not None:
        ctx.holds(rule, dy, "self.move_arg is None and the class has 'align': self.aligned(to=<that option>)", 'class-wide align only for fields without their own move, absolute reference', dy.node.lineno, clause='a')
    else:
        ctx.undecided(rule, dy, 'class-wide align', "cannot see the application of the class-wide 'align' option (self.aligned(to=bisturi_conf['align']) for fields without a move of their own)", dy.node.lineno, clause='a')


def check_sequence_pads(ctx):
    repo = ctx.repo
    sq = repo.cls('Sequence')
    rule = 'R8-element-pad'
    up, pk, comp = sq.methods.get('unpack'), sq.methods.get('pack'), sq.methods.get('_compile')
    if up is None or pk is None or comp is None:
        raise Undecided('anchor Sequence.unpack / pack / _compile not found')
    ctx.unit('functions', 3)
    w = repo.walker(inline_depth=2, max_paths=ctx.max_paths)
    sites = 0
    A = 'self.aligned_to'
    for side, fi, cursor in (('unpack', up, 'offset'), ('pack', pk, 'fragments.current_offset')):
        for p in w.paths(fi.node, cls=sq):
            if p.raises():
                continue
            for e in p.effects:
                if e.kind != 'loop':
                    continue
                n = e.sub['phi']
                for bp in e.sub['body']:
                    calls = [c for c in bp.effects if c.kind == 'call' and canon(c.call.func) == 'self.prototype_field.%s' % side]
                    if not calls:
                        continue
                    c = calls[0]
                    if side == 'unpack':
                        arg = None
                        for k in c.call.keywords:
                            if k.arg == 'offset':
                                arg = k.value
                        if arg is None and len(c.call.args) >= 3:
                            arg = c.call.args[2]
                        cur0 = 'offset@phi%d' % n
                        if arg is None:
                            ctx.violation(rule, fi, c.text()[:120], 'the element is not parsed at the (padded) cursor', c.lineno, clause='d')
                            continue
                        norm = Opaque('offset').visit(copy.deepcopy(arg))
                        # rename the loop-carried cursor to 'offset'
                        txt_e = _rename(norm, cur0, 'offset')
                    else:
                        st = [s for s in bp.effects if s.kind == 'store_attr' and canon(s.obj) == 'fragments' and s.name == 'current_offset']
                        if not st or bp.effects.index(st[-1]) > bp.effects.index(c):
                            ctx.violation(rule, fi, 'pack loop body [%s]: %s' % ('; '.join(bp.guard_texts())[:60], c.text()[:60]), 'an element is packed in a loop body that does not pad the cursor first: unpack pads before every element, so the two sides place this element differently whenever the cursor is not already aligned', c.lineno, clause='d', witness=True)
                            continue
                        txt_e = Opaque('fragments.current_offset').visit(copy.deepcopy(st[-1].value))
                    key = (side, e.sub['kind'], canon(txt_e))
                    sites += 1
                    ok, why = check_pad(txt_e, 'offset', {}, A)
                    stt = 'Sequence.%s %s loop: element at %s' % (side, e.sub['kind'], canon(txt_e))
                    if ok:
                        ctx.holds(rule, fi, stt, why + ' (start = 0: absolute alignment)', c.lineno, clause='d')
                    else:
                        ctx.violation(rule, fi, stt, why, c.lineno, clause='d')
    # Sequence.pack never emits elements outside the padded per-element loop
    for p in w.paths(pk.node, cls=sq):
        if p.raises():
            continue
        direct = [e for e in p.effects if e.kind == 'call' and isinstance(e.call.func, ast.Attribute) and canon(e.call.func.value) == 'fragments' and e.call.func.attr in ('append', 'extend', 'insert')]
        for e in direct:
            ctx.violation(rule, pk, 'Sequence.pack path [%s]: %s' % ('; '.join(sorted(gtexts(p)))[:100], e.text()[:80]), 'elements are emitted in bulk, outside the loop that aligns each element: unpack pads between elements, pack does not', e.lineno, clause='d')
    # distinct (side, loop kind)
    kinds = {(o.statement.split(':')[0]) for o in ctx.obs if o.rule == rule}
    ctx.unit('pad_sites', len(kinds))
    ctx.floor('per-element pad sites (count loop, until loop, pack loop)', len(kinds), 3)
    # default of aligned_to
    okd = False
    other = None
    for p in repo.walker(inline_depth=1, max_paths=ctx.max_paths).paths(comp.node, cls=sq):
        if p.raises():
            continue
        for e in p.effects:
            if e.kind == 'store_attr' and canon(e.obj) == 'self' and e.name == 'aligned_to' and '(self.aligned_to is None)' in p.guard_texts():
                if canon(e.value) == "bisturi_conf.get('align', 1)":
                    okd = True
                else:
                    other = e
    if other is not None:
        ctx.violation(rule, comp, 'aligned_to default: %s' % other.text()[:80], "the default element alignment is not the class-wide 'align' option (else 1)", other.lineno, clause='d', witness=True)
    elif okd:
        ctx.holds(rule, comp, "aligned_to defaults to bisturi_conf.get('align', 1)", 'class-wide align applies to elements; 1 = no padding', comp.node.lineno, clause='d')
    else:
        ctx.undecided(rule, comp, 'aligned_to default', "cannot see: if self.aligned_to is None: self.aligned_to = bisturi_conf.get('align', 1)", comp.node.lineno, clause='d')


def _rename(e, old, new):
    class R(ast.NodeTransformer):
        def visit_Name(self, n):
            if n.id == old:
                return ast.Name(id=new, ctx=ast.Load())
            return n
    return R().visit(copy.deepcopy(e))


def check_loop_generators_uniform(ctx):
    """the loop-block generators of codegen.py emit the same block for every member of the run:
    no field kind (a Move, an Int of rare size...) is special-cased with inlined arithmetic"""
    repo = ctx.repo
    cg = repo.cls('CodeGenerator')
    gens = D.loop_generators(repo)
    if not gens:
        ctx.undecided('R2-move-runs-as-a-field', (cg.file, 'CodeGenerator'), 'per-field loop block generators', 'generator not found')
    own_names = {f_.node.name for f_, _ in gens}
    for fi, kinds_ in gens:
        mname = fi.node.name
        ts = [t for t in repo.templates() if t.func.id == fi.id]
        if len(kinds_) == 2 and len(ts) == 2:
            ts = ts[:1]         # one function serving both kinds: one block template per kind
        # the generator and the helpers of the code generator it calls for its holes
        members = [f for f in repo.reach(fi, depth=2) if f is fi or (f.cls is cg and f.qual.split('.')[-1].startswith('generate_code_for_') and f.qual.split('.')[-1] not in own_names)]
        branches = [n for f_ in members for n in ast.walk(f_.node) if isinstance(n, (ast.If, ast.IfExp)) and ('isinstance' in unparse(n.test) or 'type(' in unparse(n.test) or '.is_alignment' in unparse(n.test) or 'Move' in unparse(n.test))]
        if len(ts) == 1 and not branches:
            ctx.holds('R2-move-runs-as-a-field', fi, '%s: one block template for every member of the run' % mname, 'moves / alignments are executed by Move.%s, with the reference point' % '/'.join(kinds_), fi.node.lineno, clause='e')
        elif not branches and len(ts) == 0:
            # the block template lives elsewhere (a shared helper): nothing here special-cases a kind
            ctx.undecided('R2-move-runs-as-a-field', fi, '%s: no block template in this function' % mname, 'the per-field block is produced by another function; the rule cannot see that it is the same for every member of the run', fi.node.lineno, clause='e')
        else:
            ctx.violation('R2-move-runs-as-a-field', fi, '%s: %d block templates, %d kind tests (%s)' % (mname, len(ts), len(branches), unparse(branches[0].test)[:80] if branches else ''), 'the generated code special-cases some field kinds instead of calling their own pack / unpack: inlined positioning ignores the reference point on one side only', fi.node.lineno, clause='e')


def check_move_is_never_switched_off(ctx, rule='R8-position-arithmetic'):
    """Round 7.  every positioning pseudo-field runs Move.pack / Move.unpack: nothing at class
    creation (a _compile of Move, a table) installs another pack / unpack on it.  A Move that is
    switched off because it "cannot move anything" is right only if the cursor is provably at the
    target already, for every nesting of the packet and every reference point -- not followed"""
    repo = ctx.repo
    mv = repo.cls('Move')
    n = 0
    for s_ in repo.strategies(mv):
        for kind in ('pack', 'unpack'):
            f_ = s_.get(kind)
            if f_ is None:
                continue
            n += 1
            if f_.qual in ('Move.pack', 'Move.unpack'):
                continue
            gs_all = [g for gs in (s_.get('guard_sets') or []) for g in gs]
            import re as _re
            others = set(_re.findall(r'(fields\[[^\]]*\]\[1\])\.is_alignment', ' '.join(gs_all)))
            blind = [o for o in others if (o + '.reference') not in ' '.join(gs_all)]
            if blind:
                ctx.violation(rule, f_, 'Move runs %s as its %s because %s is an alignment to the same constant' % (f_.qual, kind, blind[0]),
                              'the alignment of the neighbour is taken as proof that the cursor is aligned, but the reference point of that alignment is never looked at: aligned relative to the innermost packet is not aligned relative to the start of the data when the packet is nested at an odd offset -- the field is then placed without its padding', f_.node.lineno, clause='a', witness=True)
                continue
            ctx.undecided(rule, f_, 'Move runs %s as its %s under [%s]' % (f_.qual, kind, '; '.join(sorted(set.intersection(*[set(g) for g in s_.get('guard_sets') or [[]]])))[:100]),
                          'a positioning pseudo-field is replaced by another pack / unpack at class creation: cannot see that the cursor is at the target whenever that happens', f_.node.lineno, clause='a')
    comp = mv.methods.get('_compile')
    if comp is None:
        ctx.holds(rule, (mv.file, 'Move'), 'Move has no _compile of its own', 'every Move runs Move.pack / Move.unpack', mv.node.lineno, clause='a')


def check(ctx):
    check_modifiers(ctx)
    check_move(ctx)
    check_move_is_never_switched_off(ctx)
    # Round 8: a field handed out by a selector is configured (class-wide align included) the same way
    # on both sides (C08-ref)
    from .c08 import check_ref
    try:
        check_ref(ctx, ctx.repo.cls('Ref'))
    except Undecided as e:
        ctx.undecided('C08-ref', ('bisturi/field.py', 'Ref'), 'Ref', str(e), 0)
    check_sequence_pads(ctx)
    layout = D.fields_tuple_layout(ctx.repo)
    for d in D.get_drivers(ctx.repo):
        ctx.unit('drivers')
        D.check_innermost(ctx, 'R2-innermost-pkt-pos', d)
        # positioning pseudo-fields are run through their own pack / unpack by every driver
        if d.origin == 'template':
            sh = D.template_loop_shape(ctx, 'R2-move-runs-as-a-field', ctx.repo, d.kind)
            if sh is not None:
                D.check_call_signature(ctx, 'R2-move-runs-as-a-field', d, sh, layout, sh['template'].func, '%s loop block' % d.kind)
        else:
            sh = D.generic_loop_shape(ctx, 'R2-move-runs-as-a-field', d)
            if sh is not None:
                D.check_call_signature(ctx, 'R2-move-runs-as-a-field', d, sh, layout, d.where, d.label)
    check_loop_generators_uniform(ctx)
    # Round 5: (k) 'begins' is the start of the data the caller passed: Packet.unpack hands the
    # drivers that data and that offset unchanged (C12 Packet.unpack language); (l) a positioning
    # pseudo-field runs its own pack / unpack -- it never joins a struct block with a pad code,
    # which would write zero bytes where the fill byte belongs (C03-d'')
    from .c12 import check_packet_unpack
    check_packet_unpack(ctx, 'R8-begins-is-the-data-start')
    from .c03 import check_struct_code_owners
    check_struct_code_owners(ctx, rule='R2-move-runs-as-a-field')
    # Round 6: (m) on output the cursor is moved by Move.pack (positioning) and by the per-element
    # pad of Sequence.pack only; any other pack method that sets fragments.current_offset undoes or
    # repeats a movement that parsing does not undo or repeat (C02-2, who-may-write)
    from .c02 import check_concatenation
    check_concatenation(ctx)
    # skipped bytes become holes only if every insert -- an empty chunk included -- is recorded
    # and moves the cursor (C11 clauses 1, 2); the fill of holes is C11 clause 5
    from .c11 import check as c11_check
    c11_check(ctx, parts=('cursor', 'store', 'tobytes', 'fill'))
    ctx.floor('drivers analysed', ctx.units.get('drivers', 0), 4)
    from ..model import check_conf_plumbing
    check_conf_plumbing(ctx, 'R8-conf-plumbing', 'align')
    ctx.trust(*ASSUMPTIONS)
