"""C04 -- unpack is strict: no value is decoded from bytes that are not there.

Rule R4 (strict decode): in every function that can sit behind ``.unpack`` of a
field class (method values assigned in ``_compile`` are followed) and in the
vectorised struct template, every slice ``raw[lo:hi]`` whose value flows into an
attribute stored on the packet is, on every non-raising path,

 (i)   decoded by a length-strict decoder (struct.Struct.unpack / struct.unpack),
 (ii)  or accompanied on that path by the guard  len(raw[lo:hi]) == hi - lo,
 (iii) or bounded by a search result whose "found" guard is on the path
       (find + ``>= 0``, index, regex match + truthiness) or by len(raw).

``int.from_bytes``, ``int(x, 16)`` and plain storage are lenient decoders and
need (ii)/(iii).
 (iv) the total input length never steers parsing outside the end-of-string shortcut
      (no clamping of counts / no 'nothing left, so absent' tolerance).

Round 4: values added to a container the packet holds (sequence.extend(...)) are flows too;
iter_unpack is a lenient decoder; templates assembled from literal pieces are read per variant.

Round 6: assert statements are read as python -O reads them and an unbound local is a failure
(defect F11 found this way); the file-backed raw returns what the file returned (no pre-sized
buffer).
Round 7: (v) a handler around a child parse that goes on without re-raising, for an exception class
some reader raises; a strategy installed only for the end-of-string marker may read len(raw).
Round 8: (the strict-decode rule per strategy is shared with C03 and C14).
Round 9 (supplement): the unpack drivers bind the reported name before they decode (C12's cursor
discipline): a cut input fails as a PacketError, not as a NameError of the handler.
"""
import ast

from .. import Undecided
from ..expr import canon, lin, lin_sub, _lin_nodes, call_name, unparse, const_num
from ..model import (unpack_strategies, raw_slices, has_eq_guard, has_nonneg_guard,
                     has_truthy_guard, class_attr_sources, stmt_text)

EXPLANATION = __doc__
LEVEL_RULE = ('one obligation per (unpack strategy, non-raising path, stored value, raw slice); '
              'distinct = distinct (rule, function, normalised construct)')
ASSUMPTIONS = [
    'struct.Struct.unpack / struct.unpack raise struct.error unless the buffer has exactly calcsize(fmt) bytes (stdlib table)',
    'int.from_bytes accepts any length, int(x, 16) any number of digits, iter_unpack any whole number of items: lenient (stdlib table)',
    'bytes.find returns the lowest index or -1; bytes.index raises; re search returns None when there is no match',
    'user-defined Field subclasses outside bisturi/ are not analysed',
]

STRICT, LENIENT, UNKNOWN = 'strict', 'lenient', 'unknown'


def parent_chain(root, target):
    """ancestors of ``target`` inside ``root`` (outermost first)"""
    chain = []

    def go(n, acc):
        if n is target:
            chain.extend(acc)
            return True
        for c in ast.iter_child_nodes(n):
            if go(c, acc + [n]):
                return True
        return False

    go(root, [])
    return chain


def decoder_kind(ctx, ci, value, sl):
    """how is the slice consumed on its way into the stored value?"""
    chain = parent_chain(value, sl)
    calls = [n for n in chain if isinstance(n, ast.Call)]
    # padding / concatenation between the slice and its decoder defeats strictness
    for n in chain:
        if isinstance(n, ast.BinOp) and isinstance(n.op, (ast.Add, ast.Mult)) and any(isinstance(c, ast.Call) for c in chain[:chain.index(n)]):
            return LENIENT, 'the slice is concatenated/padded before decoding'
        if isinstance(n, ast.Call) and isinstance(n.func, ast.Attribute) and n.func.attr in ('ljust', 'rjust', 'zfill', 'center', 'join'):
            return LENIENT, 'the slice is padded (.%s) before decoding' % n.func.attr
    if not calls:
        return LENIENT, 'stored as is'
    inner = calls[-1]
    nm = call_name(inner) or unparse(inner.func)
    f = inner.func
    if isinstance(f, ast.Attribute) and f.attr in ('unpack', 'unpack_from'):
        recv = f.value
        # struct module function
        if isinstance(recv, ast.Name) and recv.id == 'struct':
            return STRICT, 'struct.unpack'
        # self.<attr> assigned from struct.Struct(...)
        if isinstance(recv, ast.Attribute) and isinstance(recv.value, ast.Name) and recv.value.id == 'self':
            srcs = class_attr_sources(ctx.repo, ci, recv.attr)
            if srcs and all(call_name(v) in ('struct.Struct', 'Struct') for _, v in srcs):
                return STRICT, 'self.%s is a struct.Struct (%s)' % (recv.attr, srcs[0][0].qual)
            return UNKNOWN, 'receiver self.%s is not provably a struct.Struct' % recv.attr
        return UNKNOWN, 'unpack on unknown receiver %s' % canon(recv)
    if nm in ('int.from_bytes',):
        return LENIENT, 'int.from_bytes accepts any length'
    if isinstance(f, ast.Attribute) and f.attr == 'iter_unpack':
        return LENIENT, 'iter_unpack accepts any whole number of items and yields as many as there are'
    if isinstance(f, ast.Name) and f.id in ('int', 'bytes', 'bytearray', 'ord', 'str', 'memoryview', 'list', 'tuple'):
        return LENIENT, '%s() accepts any length' % f.id
    if isinstance(f, ast.Name) and f.id in ('StructUnpack',):
        return STRICT, 'struct.unpack'
    if isinstance(f, ast.Attribute) and f.attr in ('decode', 'encode', 'hex', 'lower', 'upper', 'strip'):
        return LENIENT, '.%s() accepts any length' % f.attr
    return UNKNOWN, 'decoder %s not in the table' % nm


def bounded_by_search(path, sl):
    """(iii): hi - lo is a search result inside a buffer that starts at lo"""
    lo, hi = sl.slice.lower, sl.slice.upper
    if hi is None:
        return True, 'open-ended slice: takes what is there'
    if lin(hi) == {'len(raw)': 1}:
        return True, 'read to end of input: hi == len(raw)'
    lo = lo if lo is not None else ast.Constant(value=0)
    diff = ast.BinOp(left=hi, op=ast.Sub(), right=lo)
    nodes = _lin_nodes(diff)
    # merge by canon
    merged = {}
    for n, c in nodes:
        k = 1 if n is None else canon(n)
        merged.setdefault(k, [n, 0])
        merged[k][1] += c
    items = [(k, n, c) for k, (n, c) in merged.items() if c != 0]
    pos, extras = [], []
    for k, n, c in items:
        if k == 1:
            return False, 'constant offset %s in the slice length' % c
        if isinstance(n, ast.Call) and isinstance(n.func, ast.Attribute) and n.func.attr in ('find', 'index', 'start', 'end') and c == 1:
            pos.append(n)
        elif isinstance(n, ast.Call) and isinstance(n.func, ast.Name) and n.func.id == 'len' and c == 1:
            extras.append(n)
        else:
            return False, 'length term %s*%s is not a search result' % (c, k)
    # read-to-end: len(raw) - lo
    if not pos and len(extras) == 1 and isinstance(extras[0].args[0], ast.Name) and extras[0].args[0].id == 'raw':
        return True, 'read to end of input: hi == len(raw)'
    if len(pos) != 1:
        return False, 'slice length is not a single search result'
    p = pos[0]
    meth = p.func.attr
    if meth in ('find', 'index'):
        buf = p.func.value
        marker = p.args[0] if p.args else None
        ok_buf = False
        if isinstance(buf, ast.Subscript) and isinstance(buf.slice, ast.Slice) and isinstance(buf.value, ast.Name) \
                and buf.value.id == 'raw' and buf.slice.lower is not None and canon(buf.slice.lower) == canon(lo):
            ok_buf = True
        if not ok_buf:
            return False, 'searched buffer %s does not start at the slice start %s' % (canon(buf), canon(lo))
        if meth == 'find' and not has_nonneg_guard(path, p):
            return False, 'find result used without a "found" guard (>= 0) on the path'
        for x in extras:
            if marker is None or canon(x.args[0]) != canon(marker):
                return False, 'extra length %s is not the length of the searched marker' % canon(x)
        if len(extras) > 1:
            return False, 'marker length added more than once'
        return True, '%s result inside raw[%s:...]%s' % (meth, canon(lo), ' + len(marker)' if extras else '')
    # regex: M.start() / M.end()
    m = p.func.value
    if extras:
        return False, 'unexpected len() term next to a regex position'
    if not (isinstance(m, ast.Call) and isinstance(m.func, ast.Attribute) and m.func.attr in ('search', 'match')):
        return False, '%s() of something that is not a search result' % meth
    buf = m.args[0] if m.args else None
    if not (isinstance(buf, ast.Subscript) and isinstance(buf.slice, ast.Slice) and isinstance(buf.value, ast.Name)
            and buf.value.id == 'raw' and buf.slice.lower is not None and canon(buf.slice.lower) == canon(lo)):
        return False, 'regex searched buffer does not start at the slice start'
    if len(m.args) > 1 and const_num(m.args[1]) != 0:
        return False, 'regex search does not start at position 0 of the cut buffer'
    if not has_truthy_guard(path, m):
        return False, 'regex position used without a "matched" guard on the path'
    return True, 'regex %s() inside raw[%s:...]' % (meth, canon(lo))


def check_flow(ctx, ci, fi, path, eff, rule='R4-strict-decode'):
    value = eff.value
    n = 0
    for sl in raw_slices(value):
        # a raw slice inside the bounds of another slice is an index computation
        # (the searched buffer), not a value flow
        if any(isinstance(a, ast.Slice) for a in parent_chain(value, sl)):
            continue
        n += 1
        kind, why = decoder_kind(ctx, ci, value, sl)
        construct = 'store %s <- %s' % (canon(eff.name) if not isinstance(eff.name, str) else eff.name, canon(value))
        lo, hi = sl.slice.lower, sl.slice.upper
        if kind == STRICT:
            ctx.holds(rule, fi, construct, 'length-strict decoder: %s' % why, eff.lineno, clause='i')
            continue
        ok_len = False
        if hi is not None:
            lo_e = lo if lo is not None else ast.Constant(value=0)
            n_e = ast.BinOp(left=hi, op=ast.Sub(), right=lo_e)
            len_e = ast.Call(func=ast.Name(id='len', ctx=ast.Load()), args=[sl], keywords=[])
            ok_len = has_eq_guard(path, len_e, n_e)
        if ok_len:
            ctx.holds(rule, fi, construct, 'guard len(%s) == %s on the path' % (canon(sl), canon(n_e)), eff.lineno, clause='ii')
            continue
        ok_s, why_s = bounded_by_search(path, sl)
        if ok_s:
            ctx.holds(rule, fi, construct, why_s, eff.lineno, clause='iii')
            continue
        if kind == UNKNOWN:
            ctx.undecided(rule, fi, construct, '%s; no length guard either' % why, eff.lineno)
            continue
        ctx.violation(rule, fi, construct,
                      'lenient decode (%s) of %s with no exact-length guard on the path [guards: %s]; %s'
                      % (why, canon(sl), '; '.join(path.guard_texts()) or 'none', why_s), eff.lineno)
    return n


MUTATORS = ('append', 'extend', 'insert', '__setitem__', '__iadd__')


def stored_containers(func):
    """local names whose object is put on the packet (setattr(pkt, name, xs) / pkt.a = xs), and the
    local aliases of their mutating methods (append = xs.append)"""
    names, aliases = set(), {}
    for n in ast.walk(func):
        if isinstance(n, ast.Call) and isinstance(n.func, ast.Name) and n.func.id == 'setattr' and len(n.args) == 3 \
                and isinstance(n.args[0], ast.Name) and n.args[0].id in ('pkt', 'packet') and isinstance(n.args[2], ast.Name):
            names.add(n.args[2].id)
        elif isinstance(n, ast.Assign) and isinstance(n.value, ast.Name) and any(
                isinstance(t, ast.Attribute) and isinstance(t.value, ast.Name) and t.value.id in ('pkt', 'packet') for t in n.targets):
            names.add(n.value.id)
    for n in ast.walk(func):
        if isinstance(n, ast.Assign) and len(n.targets) == 1 and isinstance(n.targets[0], ast.Name) and isinstance(n.value, ast.Attribute) \
                and isinstance(n.value.value, ast.Name) and n.value.value.id in names and n.value.attr in MUTATORS:
            aliases[n.targets[0].id] = n.value.value.id
    return names, aliases


class _Flow:
    """a value that reaches the packet by being added to a container the packet holds"""
    kind = 'container'

    def __init__(self, eff, name, value):
        self.name, self.value, self.lineno = name, value, eff.lineno


def packet_stores(path, func=None):
    out = []
    names, aliases = stored_containers(func) if func is not None else (set(), {})
    for e in path.all_effects():
        if e.kind == 'setattr' and isinstance(e.obj, ast.Name) and e.obj.id in ('pkt', 'packet'):
            out.append(e)
        elif e.kind == 'store_attr' and isinstance(e.obj, ast.Name) and e.obj.id in ('pkt', 'packet'):
            out.append(e)
        elif e.kind == 'call' and isinstance(getattr(e, 'node', None), ast.Call) and e.call.args:
            f = e.node.func
            recv = None
            if isinstance(f, ast.Attribute) and isinstance(f.value, ast.Name) and f.value.id in names and f.attr in MUTATORS:
                recv = f.value.id
            elif isinstance(f, ast.Name) and f.id in aliases:
                recv = aliases[f.id]
            if recv is not None:
                out.append(_Flow(e, '%s (held by the packet)' % recv, e.call.args[-1]))
    return out


def check_strategy_strict(ctx, ci, fi, s, parked, rule='R4-strict-decode'):
    """every value one unpack strategy stores is decoded length-strictly; returns the number of flows"""
    repo = ctx.repo
    gsets = [set(g) for g in s.get('guard_sets', [])]
    known = set.intersection(*gsets) if gsets else set()

    def fold_(t, _known=known):
        c_ = canon(t)
        if c_ in _known:
            return True
        if ('not ' + c_) in _known:
            return False
        return None
    w = repo.walker(inline_depth=ctx.depth, max_paths=ctx.max_paths, split_ifexp=True, fold=fold_)
    w.const_heap = dict(repo.ctor_consts(ci))      # attributes the constructor derives from the declared ones
    w.const_heap.update(parked)    # a resolver / locator chosen by _compile is followed
    from ..model import derived_strategy_consts
    w.const_heap.update(derived_strategy_consts(repo, ci, s))     # ... and what _compile derives from the declared options
    w.strip_asserts = True
    w.unbound_raises = True
    paths = w.paths(fi.node, cls=ci)
    ctx.unit('paths', len(paths))
    flows = 0
    for p in paths:
        if p.raises():
            continue
        for eff in packet_stores(p, fi.node):
            flows += check_flow(ctx, ci, fi, p, eff, rule=rule) or 0
    return flows


def check(ctx):
    repo = ctx.repo
    # Round 9 (supplement).  "raises PacketError": the handler of a generated unpack driver builds
    # the PacketError from the variable ``name`` -- a struct block that decodes before that variable
    # is bound turns the failure of a cut input into a NameError (C12's cursor discipline)
    from .. import drivers as D_
    try:
        for d_ in D_.get_drivers(repo):
            if d_.kind == 'unpack':
                D_.check_cursor_discipline(ctx, 'R4-failure-is-located', d_, repo)
    except Undecided as e:
        ctx.undecided('R4-failure-is-located', ('bisturi/codegen.py', 'CodeGenerator'), 'unpack drivers', str(e), 0)
    # Round 6: the file-backed stand-in for bytes returns what the file returned, so that a short
    # read stays visible as a short slice (C14-g)
    from .c14 import check_file_backed_raw
    check_file_backed_raw(ctx, rule='R4-file-backed-slice')
    strategies = unpack_strategies(repo)
    flows = 0
    funcs_with_flow = set()
    sites = 0
    seen_funcs = set()
    from ..model import strategy_variants
    for ci, fi, s, parked in strategy_variants(repo, 'unpack'):
        if fi.id not in seen_funcs:
            ctx.unit('unpack_strategies')
            sites += len(raw_slices(fi.node))
        seen_funcs.add(fi.id)
        k = check_strategy_strict(ctx, ci, fi, s, parked)
        if k:
            flows += k
            funcs_with_flow.add(fi.id)
        continue
        # what _compile knows whenever it installs this function holds on every path of it
        gsets = [set(g) for g in s.get('guard_sets', [])]
        known = set.intersection(*gsets) if gsets else set()

        def fold_(t, _known=known):
            c_ = canon(t)
            if c_ in _known:
                return True
            if ('not ' + c_) in _known:
                return False
            return None
        w = repo.walker(inline_depth=ctx.depth, max_paths=ctx.max_paths, split_ifexp=True, fold=fold_)
        w.const_heap = dict(repo.ctor_consts(ci))      # attributes the constructor derives from the declared ones
        w.const_heap.update(parked)    # a resolver / locator chosen by _compile is followed
        from ..model import derived_strategy_consts
        w.const_heap.update(derived_strategy_consts(repo, ci, s))     # ... and what _compile derives from the declared options
        # strictness holds under every interpreter configuration: a length test written as an
        # assert statement does not exist under python -O / PYTHONOPTIMIZE
        w.strip_asserts = True
        w.unbound_raises = True        # ... and a local that no statement bound on the path is an UnboundLocalError
        paths = w.paths(fi.node, cls=ci)
        ctx.unit('paths', len(paths))
        for p in paths:
            if p.raises():
                continue
            for eff in packet_stores(p, fi.node):
                k = check_flow(ctx, ci, fi, p, eff)
                if k:
                    flows += k
                    funcs_with_flow.add(fi.id)
    # the blocks of the generated code
    tflows, tsites = check_templates_decode(ctx)
    # ... are the blocks generated for *this* declaration: the reuse cookie covers the generated text
    # (struct formats and sizes).  Checked on a direct call only (C12 / C03 / C06 re-use this check).
    if ctx.prop == 'C04':
        from .c15 import check_hash_covers_generated_code
        check_hash_covers_generated_code(ctx, 'R4-generated-code-is-current')
    sites += tsites
    ctx.unit('raw_read_sites', sites)
    ctx.unit('stored_value_flows', flows + tflows)
    ctx.floor('unpack strategies analysed', len(seen_funcs), 14)
    # at least: the two Int decoders, a sized Data decoder and the two delimiter decoders
    ctx.floor('unpack strategies that store a raw-derived value', len(funcs_with_flow), 5)
    ctx.floor('struct-template decode sites', tflows, 1)
    ctx.trust(*ASSUMPTIONS[:3])

    # (iv) truncation is never tolerated: the total input length may not steer parsing
    check_no_length_tolerance(ctx, [fi for _, fi, _ in strategies])

    check_no_swallowed_child_failure(ctx, [fi for _, fi, _ in strategies])

    from .c12 import check_wrappers
    check_wrappers(ctx, only_unpack=True)


def check_templates_decode(ctx, rule='R4-strict-decode'):
    """every block template of the generated code that decodes input bytes does it with
    struct.unpack of the slice itself (strict) -- returns (flows, raw read sites)"""
    repo = ctx.repo
    tflows = sites = 0
    for t in repo.templates():
        if t.tree is None:
            ctx.undecided(rule, t.func, 'template at line %d' % t.lineno, 'template does not parse with holes: %s' % t.error, t.lineno)
            continue
        ctx.unit('templates')
        for n in ast.walk(t.tree):
            if isinstance(n, ast.Assign) and raw_slices(n.value):
                sites += len(raw_slices(n.value))
                tflows += 1
                construct = stmt_text(n)
                call = n.value
                direct = isinstance(call, ast.Call) and len(call.args) == 2 and call.args[1] in raw_slices(call)
                if direct and isinstance(call.func, ast.Name) and call.func.id == 'StructUnpack' \
                        and template_binds_struct_unpack(repo):
                    ctx.holds(rule, t.func, construct, 'generated block decodes with struct.unpack (strict)', t.lineno, clause='i')
                elif direct and call_name(call) in ('struct.unpack',):
                    ctx.holds(rule, t.func, construct, 'generated block decodes with struct.unpack (strict)', t.lineno, clause='i')
                else:
                    # a length guard in the same block?
                    guard = any(isinstance(x, ast.If) and 'len(' in unparse(x.test) and any(isinstance(y, ast.Raise) for y in ast.walk(x)) for x in ast.walk(t.tree))
                    if guard:
                        ctx.holds(rule, t.func, construct, 'generated block checks the slice length before storing', t.lineno, clause='ii')
                    else:
                        ctx.violation(rule, t.func, construct,
                                      'generated block decodes a raw slice with something other than struct.unpack and no length guard', t.lineno)
    return tflows, sites


def check_no_length_tolerance(ctx, funcs):
    """len(raw) (or a comparison of the cursor with it) in an unpack strategy, outside the
    end-of-string shortcut, makes a cut input parse to a shortened value / list / None"""
    rule = 'R4-no-length-tolerance'
    seen = set()
    n = 0
    for fi in funcs:
        if fi.id in seen:
            continue
        seen.add(fi.id)
        par = {}
        for p in ast.walk(fi.node):
            for c in ast.iter_child_nodes(p):
                par[id(c)] = p
        for x in ast.walk(fi.node):
            if isinstance(x, ast.Call) and isinstance(x.func, ast.Name) and x.func.id == 'len' and x.args and isinstance(x.args[0], ast.Name) and x.args[0].id == 'raw':
                n += 1
                tests = []
                cur = x
                while id(cur) in par:
                    pp = par[id(cur)]
                    if isinstance(pp, ast.If):
                        tests.append(canon(pp.test))
                    cur = pp
                st = '%s: %s' % (fi.qual, stmt_text(par.get(id(x), x))[:120])
                if _only_for_eos_marker(ctx.repo, fi):
                    ctx.holds(rule, fi, st, 'the strategy is installed only for the end-of-string marker (read-to-end field)', x.lineno, clause='iv')
                elif any("b'$'" in t and 'pattern' in t for t in expand_test_consts(ctx.repo, fi, tests)):
                    ctx.holds(rule, fi, st, 'len(raw) only under the end-of-string marker (read-to-end field)', x.lineno, clause='iv')
                elif _rejecting(par, x):
                    ctx.holds(rule, fi, st, 'bounds check: len(raw) only decides whether to raise', x.lineno, clause='iv')
                else:
                    ctx.violation(rule, fi, st, 'the length of the input steers parsing: an input cut inside this field parses to a shortened / absent value instead of failing', x.lineno, clause='iv')
    ctx.unit('len_raw_sites', n)


def expand_test_consts(repo, fi, tests):
    """the texts of ``tests`` plus, for a test that reads an attribute _compile derived from the
    declared options (self.flag = <comparison>), the text with that definition in place"""
    out = list(tests)
    try:
        from ..model import derived_strategy_consts
        from ..expr import subst
        ci = repo.cls(fi.qual.split('.')[0])
        cands = [s_ for s_ in repo.strategies(ci) if s_['unpack'] is fi or s_.get('pack') is fi]
        heaps = [derived_strategy_consts(repo, ci, s_) for s_ in cands]
    except Exception:
        return out
    if not heaps or any(h != heaps[0] and {k: canon(v) for k, v in h.items()} != {k: canon(v) for k, v in heaps[0].items()} for h in heaps):
        return out
    for t in tests:
        for k, v in heaps[0].items():
            if k in t:
                out.append(t.replace(k, '(%s)' % canon(v)))
    return out


def check_no_swallowed_child_failure(ctx, funcs):
    """(v) an unpack strategy that parses a child (an element, a sub-packet) inside a try whose
    handler goes on instead of re-raising turns the child's "input too short" failure into a
    successful parse of fewer elements"""
    repo = ctx.repo
    rule = 'R4-child-failure-propagates'
    raised = {}
    for fn in repo.functions.values():
        for n in ast.walk(fn.node):
            if isinstance(n, ast.Raise) and n.exc is not None:
                nm = call_name(n.exc) if isinstance(n.exc, ast.Call) else canon(n.exc)
                if nm:
                    raised.setdefault(nm.split('.')[-1], fn)
    seen = set()
    n_try = 0
    for fi in funcs:
        if fi.id in seen:
            continue
        seen.add(fi.id)
        for t in ast.walk(fi.node):
            if not isinstance(t, ast.Try):
                continue
            calls = [c for b in t.body for c in ast.walk(b) if isinstance(c, ast.Call) and (
                (isinstance(c.func, ast.Attribute) and 'unpack' in c.func.attr) or (isinstance(c.func, ast.Name) and 'unpack' in c.func.id))]
            if not calls:
                continue
            n_try += 1
            for h in t.handlers:
                if any(isinstance(x, ast.Raise) for x in ast.walk(h)):
                    continue
                types = ['BaseException'] if h.type is None else [canon(x) for x in (h.type.elts if isinstance(h.type, ast.Tuple) else [h.type])]
                st = '%s: try: ... %s ... except %s: %s' % (fi.qual, canon(calls[0])[:60], ', '.join(types), stmt_text(h.body[0])[:40])
                hit = None
                for ty in types:
                    base = ty.split('.')[-1]
                    if base in ('Exception', 'BaseException'):
                        hit = 'it catches %s, the class of every parse failure' % base
                    elif base in raised:
                        hit = 'it catches %s, which %s raises' % (base, raised[base].qual)
                    elif base == 'error' and 'struct' in ty:
                        hit = 'it catches struct.error, which struct.unpack raises on a short slice'
                    if hit:
                        break
                if hit:
                    ctx.violation(rule, fi, st, 'the failure of a child parse is swallowed and parsing goes on (%s): an input cut inside the child parses to a shortened value instead of failing' % hit, h.lineno, clause='iv', witness=True)
                else:
                    ctx.undecided(rule, fi, st, 'a handler around a child parse goes on without re-raising: cannot see that no parse failure has one of the caught classes', h.lineno, clause='iv')
    ctx.unit('try_around_child_parse', n_try)
    if not n_try:
        ctx.holds(rule, (funcs[0].cls.file if funcs and funcs[0].cls is not None else 'bisturi/field.py', '<unpack strategies>'), 'no unpack strategy parses a child inside a try', 'child failures propagate', 0, clause='iv')


def _only_for_eos_marker(repo, fi):
    """every configuration under which _compile installs ``fi`` as the unpack strategy tests that
    the marker is the end-of-string pattern"""
    try:
        ci = repo.cls(fi.qual.split('.')[0])
        cands = [s_ for s_ in repo.strategies(ci) if s_['unpack'] is fi]
    except Exception:
        return False
    if not cands:
        return False
    for s_ in cands:
        gs_all = s_.get('guard_sets') or []
        if not gs_all:
            return False
        for gs in gs_all:
            if not any('pattern' in g and "b'$'" in g and '==' in g and not g.startswith('not ') for g in gs):
                return False
    return True


def _rejecting(par, node):
    cur = node
    while id(cur) in par:
        p = par[id(cur)]
        if isinstance(p, ast.Assert) and cur is p.test:
            return True
        if isinstance(p, ast.If) and cur is p.test:
            return all(isinstance(s, ast.Raise) for s in p.body) and not p.orelse
        if isinstance(p, ast.stmt):
            return False
        cur = p
    return False


def template_binds_struct_unpack(repo):
    """the generated module's import block binds StructUnpack to struct.unpack"""
    src = repo.modules['codegen']['src']
    tree = repo.modules['codegen']['tree']
    for n in ast.walk(tree):
        if isinstance(n, ast.Constant) and isinstance(n.value, str) and 'StructUnpack' in n.value and 'import' in n.value:
            try:
                t = ast.parse(__import__('textwrap').dedent(n.value.split('def ')[0]))
            except SyntaxError:
                continue
            for s in t.body:
                if isinstance(s, ast.ImportFrom) and s.module == 'struct':
                    for a in s.names:
                        if a.asname == 'StructUnpack' and a.name == 'unpack':
                            return True
    return False
