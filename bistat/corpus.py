"""Self-test corpus: seeded violations and benign variants (see selftest.py).
Each entry is a textual patch against the current /repo/bisturi."""

CORPUS = []


def S(id, prop, file, old, new, rule=None, edits=None):
    CORPUS.append(dict(id=id, property=prop, kind='seeded', file=file, old=old, new=new, rule=rule, edits=edits))


def B(id, prop, file, old, new, edits=None):
    CORPUS.append(dict(id=id, property=prop, kind='benign', file=file, old=old, new=new, rule=None, edits=edits))


F, SF, PK, CG, FR = 'bisturi/field.py', 'bisturi/structural_fields.py', 'bisturi/packet.py', 'bisturi/codegen.py', 'bisturi/fragments.py'
DF, PB, DS, PM = 'bisturi/deferred.py', 'bisturi/packet_builder.py', 'bisturi/descriptor.py', 'bisturi/pattern_matching.py'

# =========================================================================== C04
S('c04-int-guard-removed', 'C04', F,
  '''        if len(raw_data) != self.byte_count:
            raise Exception(
                "Unpacked %i bytes but expected %i" %
                (len(raw_data), self.byte_count)
            )
''', '', 'R4-strict-decode')
S('c04-data-fixed-guard-weakened', 'C04', F,
  '''        chunk = raw[offset:next_offset]
        if len(chunk) != byte_count:
            raise Exception(
                "Unpacked %i bytes but expected %i" % (len(chunk), byte_count)
            )

        setattr(pkt, self.field_name, chunk)
        return next_offset

    def _unpack_variable_size_field''',
  '''        chunk = raw[offset:next_offset]
        if len(chunk) > byte_count:
            raise Exception(
                "Unpacked %i bytes but expected %i" % (len(chunk), byte_count)
            )

        setattr(pkt, self.field_name, chunk)
        return next_offset

    def _unpack_variable_size_field''', 'R4-strict-decode')
S('c04-data-callable-guard-only-when-nonempty', 'C04', F,
  '''        byte_count = self.byte_count(pkt=pkt, raw=raw, offset=offset, **k)
        next_offset = offset + byte_count

        chunk = raw[offset:next_offset]
        if len(chunk) != byte_count:''',
  '''        byte_count = self.byte_count(pkt=pkt, raw=raw, offset=offset, **k)
        next_offset = offset + byte_count

        chunk = raw[offset:next_offset]
        if chunk and len(chunk) != byte_count:''', 'R4-strict-decode')
S('c04-struct-replaced-by-from-bytes', 'C04', F,
  '''        integer = self.struct_obj.unpack(raw[offset:next_offset])[0]''',
  '''        integer = int.from_bytes(raw[offset:next_offset], 'big' if self.is_bigendian else 'little', signed=self.is_signed)''',
  'R4-strict-decode')
S('c04-find-assert-dropped', 'C04', F,
  '''        count = search_buffer.find(until_marker)
        if count < 0:
            raise Exception("The delimiter %r was not found" % (until_marker, ))
''', '''        count = search_buffer.find(until_marker)
''', 'R4-strict-decode')
S('c04-find-check-as-assert', 'C04', F,
  '''        count = search_buffer.find(until_marker)
        if count < 0:
            raise Exception("The delimiter %r was not found" % (until_marker, ))
''', '''        count = search_buffer.find(until_marker)
        assert count >= 0
''', 'R4-strict-decode')
S('c04-find-assert-weakened', 'C04', F,
  '''        count = search_buffer.find(until_marker)
        if count < 0:
''', '''        count = search_buffer.find(until_marker)
        if count < -1:
''', 'R4-strict-decode')
S('c04-regex-nomatch-takes-rest', 'C04', F,
  '''            else:
                raise Exception(
                    "The delimiter %r was not found" % (until_marker.pattern, )
                )

        next_offset = offset + count''',
  '''            else:
                count = len(search_buffer)

        next_offset = offset + count''', 'R4-strict-decode')
S('c04-template-from-bytes', 'C04', CG,
  '''%(lookup_fields)s = StructUnpack("%(fmt)s", raw[offset:next_offset])''',
  '''%(lookup_fields)s = StructUnpack("%(fmt)s", raw[offset:next_offset].ljust(%(advance)s, b"\\\\0"))''',
  'R4-strict-decode')
S('c04-silent-only-packeterror', 'C04', PK,
  '''        except:
            if silent:
                return None
            else:
                raise''',
  '''        except:
            raise''', 'R7-packet-unpack')
B('c04-benign-rename-locals', 'C04', F,
  '''        byte_count = self.byte_count
        next_offset = offset + byte_count

        chunk = raw[offset:next_offset]
        if len(chunk) != byte_count:
            raise Exception(
                "Unpacked %i bytes but expected %i" % (len(chunk), byte_count)
            )

        setattr(pkt, self.field_name, chunk)
        return next_offset''',
  '''        n = self.byte_count
        end = n + offset

        piece = raw[offset:end]
        if n != len(piece):
            raise ValueError(f"Unpacked {len(piece)} bytes but expected {n}")

        setattr(pkt, self.field_name, piece)
        return end''')
B('c04-benign-assert-as-if-raise', 'C04', F,
  '''        count = search_buffer.find(until_marker)
        if count < 0:
            raise Exception("The delimiter %r was not found" % (until_marker, ))
''', '''        count = search_buffer.find(until_marker)
        if not count >= 0:
            raise Exception("The delimiter %r was not found" % (until_marker, ))
''')
B('c04-benign-helper-extracted', 'C04', F,
  '''    def _unpack_variable_size_field(self, pkt, raw, offset=0, **k):
        byte_count = getattr(pkt, self.byte_count.field_name)
        next_offset = offset + byte_count

        chunk = raw[offset:next_offset]
        if len(chunk) != byte_count:
            raise Exception(
                "Unpacked %i bytes but expected %i" % (len(chunk), byte_count)
            )

        setattr(pkt, self.field_name, chunk)
        return next_offset''',
  '''    def _read_exact(self, raw, offset, byte_count):
        chunk = raw[offset:offset + byte_count]
        if len(chunk) != byte_count:
            raise Exception(
                "Unpacked %i bytes but expected %i" % (len(chunk), byte_count)
            )
        return chunk

    def _unpack_variable_size_field(self, pkt, raw, offset=0, **k):
        byte_count = getattr(pkt, self.byte_count.field_name)
        chunk = self._read_exact(raw, offset, byte_count)
        setattr(pkt, self.field_name, chunk)
        return offset + byte_count''')
B('c04-benign-py2-fallback-deleted', 'C04', F,
  '''        try:
            num = int.from_bytes(
                raw_data,
                byteorder='big' if self.is_bigendian else 'little',
                signed=self.is_signed
            )

        except AttributeError:
            if not self.is_bigendian:
                raw_data = raw_data[::-1]

            hexbytes = raw_data.encode('hex')
            num = int(hexbytes, 16)

            if self.is_signed and ord(raw_data[0]) > 127:
                num = -(self.base - num)

        setattr(pkt, self.field_name, num)''',
  '''        num = int.from_bytes(
            raw_data,
            byteorder='big' if self.is_bigendian else 'little',
            signed=self.is_signed
        )
        setattr(pkt, self.field_name, num)''')

# =========================================================================== C11
S('c11-pred-le', 'C11', FR, 'if b1 <= position < e1:', 'if b1 <= position <= e1:', 'R8-collision-guards')
S('c11-pred-strict-lower', 'C11', FR, 'if b1 <= position < e1:', 'if b1 < position < e1:', 'R8-collision-guards')
S('c11-succ-le', 'C11', FR, 'if b2 < position + L:', 'if b2 <= position + L:', 'R8-collision-guards')
S('c11-succ-dropped', 'C11', FR, 'if i + 1 < len(self.begin_of_fragments):', 'if False and i + 1 < len(self.begin_of_fragments):')
S('c11-cursor-at-position', 'C11', FR, 'self.current_offset = position + L', 'self.current_offset = max(self.current_offset, position + L)', 'R8-cursor')
S('c11-index-off', 'C11', FR, 'self.begin_of_fragments.insert(i + 1, position)', 'self.begin_of_fragments.insert(i, position)', 'R8-sorted-index')
S('c11-bisect-left', 'C11', FR, 'i = bisect_right(self.begin_of_fragments, position) - 1', 'i = bisect_left(self.begin_of_fragments, position) - 1')
S('c11-fill-dropped', 'C11', FR, 'result.append(self.fill * (offset - begin))', 'result.append(self.fill * max(offset - begin - 1, 0))', 'R8-tobytes')
S('c11-unsorted-walk', 'C11', FR, 'for offset, s in sorted(self.fragments.items()):', 'for offset, s in self.fragments.items():', 'R8-tobytes')
S('c11-skip-empty-early-return', 'C11', FR,
  '''        i = bisect_right(self.begin_of_fragments, position) - 1
        L = len(string)''',
  '''        i = bisect_right(self.begin_of_fragments, position) - 1
        L = len(string)
        if position in self.fragments and not self.fragments[position]:
            self.fragments[position] = string
            self.current_offset = position + L
            return''')
S('c11-extend-at-zero', 'C11', FR,
  '''        for string in iterable:
            self.insert(self.current_offset, string)

    def insert(self, position, string):
        #if not string:''',
  '''        for n, string in enumerate(iterable):
            self.insert(self.current_offset if n else 0, string)

    def insert(self, position, string):
        #if not string:''', 'R8-append-at-cursor')
S('c11-fill-default-changed', 'C11', FR, "def __init__(self, fill=b'.'):", "def __init__(self, fill=b'\\x00'):", 'R8-fill-default')
B('c11-benign-rename', 'C11', FR,
  '''            if b1 <= position < e1:''', '''            if position >= b1 and e1 > position:''')
B('c11-benign-cursor-expr', 'C11', FR, 'self.current_offset = position + L', 'self.current_offset = len(string) + position')
B('c11-benign-tobytes-rename', 'C11', FR,
  '''        for offset, s in sorted(self.fragments.items()):
            result.append(self.fill * (offset - begin))
            result.append(s)
            begin = offset + len(s)''',
  '''        for pos, chunk in sorted(self.fragments.items()):
            gap = pos - begin
            result.append(gap * self.fill)
            result.append(chunk)
            begin = len(chunk) + pos''')

# =========================================================================== C12
S('c12-template-phase-swapped', 'C12', CG,
  '''      raise PacketError(True, name, pkt.__class__.__name__, offset, str(e))''',
  '''      raise PacketError(False, name, pkt.__class__.__name__, offset, str(e))''', 'R7-handlers')
S('c12-generic-pack-phase', 'C12', PK,
  '''            raise PacketError(
                False, name, self.__class__.__name__, fragments.current_offset,
                str(e)
            ) from None''',
  '''            raise PacketError(
                True, name, self.__class__.__name__, fragments.current_offset,
                str(e)
            ) from None''', 'R7-handlers')
S('c12-raise-dropped-after-add-parent', 'C12', CG,
  '''      e.add_parent_field_and_packet(offset, name, pkt.__class__.__name__)
      raise e''',
  '''      e.add_parent_field_and_packet(offset, name, pkt.__class__.__name__)
      raise PacketError(True, name, pkt.__class__.__name__, offset, str(e))''', 'R7-handlers')
S('c12-silent-one-handler', 'C12', PK,
  '''        except PacketError as e:
            e.packet = pkt
            if silent:
                return None
            else:
                raise e from None''',
  '''        except PacketError as e:
            e.packet = pkt
            raise e from None''', 'R7-packet-unpack')
S('c12-offset-advanced-before-decode', 'C12', CG,
  '''next_offset = offset + %(advance)s
%(lookup_fields)s = StructUnpack("%(fmt)s", raw[offset:next_offset])
offset = next_offset''',
  '''start_offset = offset
offset = offset + %(advance)s
%(lookup_fields)s = StructUnpack("%(fmt)s", raw[start_offset:offset])''', 'R7-cursor-at-failure')
S('c12-str-format-mismatch', 'C12', PK,
  '''            offset_and_pkt_class = "    %s %s" % (
                _offset_as_text(offset), packet_class_name
            )''',
  '''            offset_and_pkt_class = "    %s %s" % (
                _offset_as_text(offset),
            )''', 'R7-str-total')
S('c12-offset-hex-unprotected', 'C12', PK,
  '''    try:
        return "%08x" % offset
    except TypeError:
        return "%8r" % (offset, )''',
  '''    return "%08x" % offset''', 'R7-str-total')
S('c12-offset-hex-in-fstring', 'C12', PK,
  '''            offset_and_pkt_class = "    %s %s" % (
                _offset_as_text(offset), packet_class_name
            )''',
  '''            offset_and_pkt_class = f"    {offset:08x} {packet_class_name}"''', 'R7-str-total')
S('c12-parent-inserted-front', 'C12', PK,
  '''        self.fields_stack.append((offset, field_name, packet_class_name))''',
  '''        self.fields_stack.insert(0, (offset, field_name, packet_class_name))''', 'R7-stack-shape')
S('c12-wrong-cursor-in-handler', 'C12', PK,
  '''            e.add_parent_field_and_packet(
                offset, name, self.__class__.__name__
            )''',
  '''            e.add_parent_field_and_packet(
                k['innermost-pkt-pos'], name, self.__class__.__name__
            )''', 'R7-handlers')
S('c12-type-check-after-alloc', 'C12', PK,
  '''        if not isinstance(raw, bytes):
            raise ValueError(
                "The raw parameter must be 'bytes', not '%s'." % type(raw)
            )

        pkt = cls(_initialize_fields=False)''',
  '''        pkt = cls(_initialize_fields=False)
        if not isinstance(raw, (bytes, bytearray)):
            raise ValueError(
                "The raw parameter must be 'bytes', not '%s'." % type(raw)
            )
''', 'R7-packet-unpack')
S('c12-exception-handler-first', 'C12', CG,
  '''   except PacketError as e:
      e.add_parent_field_and_packet(fragments.current_offset, name, pkt.__class__.__name__)
      raise e
   except Exception as e:
      raise PacketError(False, name, pkt.__class__.__name__, fragments.current_offset, str(e))
''',
  '''   except Exception as e:
      raise PacketError(False, name, pkt.__class__.__name__, fragments.current_offset, str(e))
   except PacketError as e:
      e.add_parent_field_and_packet(fragments.current_offset, name, pkt.__class__.__name__)
      raise e
''', 'R7-handlers')
B('c12-benign-raise-e', 'C12', PK,
  '''            e.add_parent_field_and_packet(
                offset, name, self.__class__.__name__
            )
            raise''',
  '''            e.add_parent_field_and_packet(
                offset, name, type(self).__name__
            )
            raise e''')
B('c12-benign-fstring-message', 'C12', PK,
  '''            offset_and_pkt_class = "    %s %s" % (
                _offset_as_text(offset), packet_class_name
            )''',
  '''            offset_and_pkt_class = f"    {_offset_as_text(offset)} {packet_class_name}"''')

# =========================================================================== C20
S('c20-default-removed-eq', 'C20', PK,
  '''            if getattr(self, name, None) != getattr(other, name, None):''',
  '''            if getattr(self, name) != getattr(other, name, None):''', 'R11-total-reads')
S('c20-default-removed-repr', 'C20', PK,
  '''            msg.append(f'  {name}: {getattr(self, name, None)}')''',
  '''            msg.append(f'  {name}: {getattr(self, name)}')''', 'R11-total-reads')
S('c20-isinstance-dropped', 'C20', PK,
  '''        if not isinstance(other, self.__class__):
            return False

        for name, f, pack, _ in self.get_fields():
            # pseudo''',
  '''        for name, f, pack, _ in self.get_fields():
            # pseudo''', 'R11-eq-shape')
S('c20-isinstance-reversed', 'C20', PK,
  '''        if not isinstance(other, self.__class__):
            return False
''',
  '''        if not isinstance(self, other.__class__):
            return False
''', 'R11-eq-shape')
S('c20-skip-private-names', 'C20', PK,
  '''            if getattr(self, name, None) != getattr(other, name, None):
                return False''',
  '''            if name.startswith('_'):
                continue
            if getattr(self, name, None) != getattr(other, name, None):
                return False''', 'R11-eq-shape')
S('c20-first-fields-only', 'C20', PK,
  '''        for name, f, pack, _ in self.get_fields():
            # pseudo''',
  '''        for name, f, pack, _ in self.get_fields()[:8]:
            # pseudo''', 'R11-eq-shape')
S('c20-same-side', 'C20', PK,
  '''            if getattr(self, name, None) != getattr(other, name, None):''',
  '''            if getattr(self, name, None) != getattr(self, name, None):''', 'R11-eq-shape')
S('c20-early-true', 'C20', PK,
  '''            if getattr(self, name, None) != getattr(other, name, None):
                return False

        return True''',
  '''            if getattr(self, name, None) != getattr(other, name, None):
                return False
            if f.is_fixed:
                return True

        return True''', 'R11-eq-shape')
S('c20-ne-override', 'C20', PK,
  '''    def iterative_unpack(self, raw, offset=0, stack=None):''',
  '''    def __ne__(self, other):
        return self is not other

    def iterative_unpack(self, raw, offset=0, stack=None):''', 'R11-no-contradicting-override')
S('c20-different-defaults', 'C20', PK,
  '''            if getattr(self, name, None) != getattr(other, name, None):''',
  '''            if getattr(self, name, None) != getattr(other, name, b''):''', 'R11-eq-shape')
B('c20-benign-type-self', 'C20', PK,
  '''        if not isinstance(other, self.__class__):
            return False
''',
  '''        if not isinstance(other, type(self)):
            return False
''')
B('c20-benign-rename-and-not-eq', 'C20', PK,
  '''        for name, f, pack, _ in self.get_fields():
            # pseudo-fields (moves, Em, breakpoints, embedded references)
            # never receive a value: read them with a default
            if getattr(self, name, None) != getattr(other, name, None):
                return False''',
  '''        for attr, _f, _p, _u in self.get_fields():
            mine = getattr(self, attr, None)
            theirs = getattr(other, attr, None)
            if not (theirs == mine):
                return False''')

# =========================================================================== C13
S('c13-int-cache-on-field', 'C13', F,
  '''        integer = self.struct_obj.unpack(raw[offset:next_offset])[0]
        setattr(pkt, self.field_name, integer)''',
  '''        integer = self.struct_obj.unpack(raw[offset:next_offset])[0]
        self.last_value = integer
        setattr(pkt, self.field_name, integer)''', 'R5-runtime-stateless')
S('c13-deepcopy-dropped', 'C13', F,
  '''        except KeyError:
            obj = copy.deepcopy(self.default)''',
  '''        except KeyError:
            obj = self.default''', 'R6-fresh-values')
S('c13-sequence-init-shares-default', 'C13', SF,
  '''    def init(self, packet, defaults):
        Field.init(self, packet, defaults)
        self.prototype_field.init(packet, {})

    def unpack(self, pkt, raw, offset=0, **k):
        sequence = []''',
  '''    def init(self, packet, defaults):
        setattr(packet, self.field_name, defaults.get(self.field_name, self.default))
        self.prototype_field.init(packet, {})

    def unpack(self, pkt, raw, offset=0, **k):
        sequence = []''', 'R6-fresh-values')
S('c13-sequence-unpack-reuses-default-list', 'C13', SF,
  '''        sequence = []
        setattr(
            pkt, self.field_name, sequence
        )''',
  '''        sequence = self.default
        del sequence[:]
        setattr(
            pkt, self.field_name, sequence
        )''')
S('c13-module-memo', 'C13', F,
  '''    def _unpack_variable_size_field(self, pkt, raw, offset=0, **k):
        byte_count = getattr(pkt, self.byte_count.field_name)''',
  '''    def _unpack_variable_size_field(self, pkt, raw, offset=0, **k):
        byte_count = getattr(pkt, self.byte_count.field_name)
        _SIZE_HINTS[self.field_name] = byte_count''',
  edits=[(F, '''# end of string
EOS = re.compile(b"$")''', '''# end of string
EOS = re.compile(b"$")
_SIZE_HINTS = {}'''),
         (F, '''    def _unpack_variable_size_field(self, pkt, raw, offset=0, **k):
        byte_count = getattr(pkt, self.byte_count.field_name)''',
          '''    def _unpack_variable_size_field(self, pkt, raw, offset=0, **k):
        byte_count = getattr(pkt, self.byte_count.field_name)
        _SIZE_HINTS[self.field_name] = byte_count''')], rule='R5-runtime-stateless')
S('c13-clone-returns-template', 'C13', PK,
  '''    def _clone_from_live_obj(self):
        return copy.deepcopy(self.template)''',
  '''    def _clone_from_live_obj(self):
        return self.template''', 'R6-fresh-values')
S('c13-ref-init-no-clone', 'C13', F,
  '''            if self.field_name not in defaults:
                defaults[self.field_name] = prototype.clone()''',
  '''            if self.field_name not in defaults:
                defaults[self.field_name] = prototype.template''', 'R6-fresh-values')
S('c13-f3a-reverted', 'C13', F,
  '''        referenced = referenced.__class__(_initialize_fields=False)
        setattr(pkt, self.field_name, referenced)''',
  '''        setattr(pkt, self.field_name, referenced)''', 'R6-fresh-values')
S('c13-optional-pack-clears-field', 'C13', SF,
  '''        if obj is not None:
            setattr(pkt, opt_elem_field_name, obj)
            return self.prototype_field.pack(pkt, fragments, **k)''',
  '''        if obj is not None:
            setattr(pkt, opt_elem_field_name, obj)
            setattr(pkt, self.field_name, None)
            return self.prototype_field.pack(pkt, fragments, **k)''', 'R5-pack-purity')
S('c13-exec-expr-shared-stack', 'C13', DF,
  '''    args = list(args)

    for arg_count, op in ops:''',
  '''    for arg_count, op in ops:''', 'R5-runtime-stateless')
S('c13-auto-get-memo', 'C13', DS,
  '''        if iam_enabled:
            return self.func(instance)''',
  '''        if iam_enabled:
            self.last = self.func(instance)
            return self.last''', 'R5-runtime-stateless')
S('c13-bits-pack-scratch-on-field', 'C13', F,
  '''        I = getattr(pkt, self.I.field_name)
        setattr(
            pkt, self.I.field_name,
            ((getattr(pkt, self.field_name) << self.shift) & self.mask) |
            (I & (~self.mask))
        )

        if self.iam_last:
            return self.I.pack(pkt, fragments=fragments, **k)''',
  '''        I = getattr(pkt, self.I.field_name)
        self.I.acc = ((getattr(pkt, self.field_name) << self.shift) & self.mask) | (I & (~self.mask))
        setattr(pkt, self.I.field_name, self.I.acc)

        if self.iam_last:
            return self.I.pack(pkt, fragments=fragments, **k)''', 'R5-runtime-stateless')
S('c13-packet-class-counter', 'C13', PK,
  '''        pkt = cls(_initialize_fields=False)
        try:''',
  '''        pkt = cls(_initialize_fields=False)
        cls.__bisturi__['last_raw'] = raw
        try:''', 'R5-runtime-stateless')
B('c13-benign-field-init-rewritten', 'C13', F,
  '''        try:
            obj = defaults[self.field_name]
        except KeyError:
            obj = copy.deepcopy(self.default)

        setattr(packet, self.field_name, obj)''',
  '''        name = self.field_name
        if name in defaults:
            value = defaults[name]
        else:
            value = copy.deepcopy(self.default)
        setattr(packet, name, value)''')
B('c13-benign-local-accumulators', 'C13', SF,
  '''        sequence = []
        setattr(
            pkt, self.field_name, sequence
        )''',
  '''        items = list()
        setattr(pkt, self.field_name, items)
        sequence = items''')

# =========================================================================== C16
S('c16-in-place-write', 'C16', CG,
  '''            with open(tmp_pathname, 'w') as module_file:
                module_file.write(source)
            os.replace(tmp_pathname, module_pathname)''',
  '''            with open(module_pathname, 'w') as module_file:
                module_file.write(source)''', 'R10-atomic-publish')
S('c16-handler-narrowed', 'C16', CG,
  '''            except Exception:
                module = None

        # If no previously''',
  '''            except (ImportError, OSError):
                module = None

        # If no previously''', 'R10-tolerant-load')
S('c16-reload-from-disk', 'C16', CG,
  '''            module = types.ModuleType(module_name)
            module.__file__ = module_pathname
            exec(compile(source, module_pathname, 'exec'), module.__dict__)''',
  '''            module = SourceFileLoader(module_name,
                                      module_pathname).load_module()''', 'R10-validate-before-install')
S('c16-makedirs-racy', 'C16', CG,
  '''            os.makedirs(folder, exist_ok=True)''',
  '''            if not os.path.isdir(folder):
                os.makedirs(folder)''', 'R10-race-tolerant-fs')
S('c16-remove-racy', 'C16', CG,
  '''            try:
                os.remove(cache_from_source(module_pathname))
            except OSError:
                pass''',
  '''            if os.path.exists(cache_from_source(module_pathname)):
                os.remove(cache_from_source(module_pathname))''', 'R10-race-tolerant-fs')
S('c16-never-verified', 'C16', CG,
  '''        if not module or getattr(
            module, 'BISTURI_PACKET_COOKIE', None
        ) != cookie:''',
  '''        if not module:''', 'R10-validate-before-install')
S('c16-tmp-not-replaced', 'C16', CG,
  '''            os.replace(tmp_pathname, module_pathname)''',
  '''            with open(module_pathname, 'w') as final_file:
                with open(tmp_pathname) as tmp_file:
                    final_file.write(tmp_file.read())
            os.remove(tmp_pathname)''', 'R10-atomic-publish')
B('c16-benign-rename', 'C16', CG,
  '''            tmp_pathname = "%s.%i-%i.tmp" % (
                module_pathname, os.getpid(), threading.get_ident()
            )
            with open(tmp_pathname, 'w') as module_file:
                module_file.write(source)
            os.replace(tmp_pathname, module_pathname)''',
  '''            scratch = f"{module_pathname}.{os.getpid()}-{threading.get_ident()}.tmp"
            with open(scratch, mode='w') as out:
                out.write(source)
            os.rename(scratch, module_pathname)''')
B('c16-benign-bare-except', 'C16', CG,
  '''            except Exception:
                module = None

        # If no previously''',
  '''            except BaseException:
                pass

        # If no previously''')

# =========================================================================== C15
S('c15-hash-only-pack', 'C15', CG,
  '''        cookie_hash.update(pack_code.encode('utf-8'))
        cookie_hash.update(unpack_code.encode('utf-8'))''',
  '''        cookie_hash.update(pack_code.encode('utf-8'))''', 'R10-hash-covers-text')
S('c15-unhashed-line', 'C15', CG,
  '''            source = import_code + cookie_code + pack_code + unpack_code''',
  '''            source = import_code + cookie_code + pack_code + unpack_code + (
                "\\nGENERATED_FOR = %r\\n" % self.pkt_class.__name__
            )''', 'R10-hash-covers-text')
S('c15-cookie-name-mismatch', 'C15', CG,
  '''        cookie_code = f"BISTURI_PACKET_COOKIE = '{cookie}'\\n"''',
  '''        cookie_code = f"BISTURI_COOKIE = '{cookie}'\\n"''', 'R10-cookie-line')
S('c15-compare-size-not-cookie', 'C15', CG,
  '''        if not module or getattr(
            module, 'BISTURI_PACKET_COOKIE', None
        ) != cookie:''',
  '''        if not module or getattr(
            module, 'BISTURI_PACKET_COOKIE', None
        ) is None:''', 'R10-validate-before-install')
S('c15-reload-unverified', 'C15', CG,
  '''            module = types.ModuleType(module_name)
            module.__file__ = module_pathname
            exec(compile(source, module_pathname, 'exec'), module.__dict__)''',
  '''            module = SourceFileLoader(module_name,
                                      module_pathname).load_module()''', 'R10-validate-before-install')
S('c15-bogus-pyc-path', 'C15', CG,
  '''                os.remove(cache_from_source(module_pathname))''',
  '''                os.remove(module_name + ".pyc")''', 'R10-bytecode-path')
S('c15-template-uses-global', 'C15', CG,
  '''name, _, pack, _ = fields[%(field_index)i]
pack(pkt=pkt, fragments=fragments, **k)''',
  '''name, _, pack, _ = fields[%(field_index)i]
pack(pkt=pkt, fragments=fragments, **dict(k, **PACK_OPTIONS))''', 'R10-generated-code-closed')
S('c15-exec-stale-text', 'C15', CG,
  '''            exec(compile(source, module_pathname, 'exec'), module.__dict__)''',
  '''            exec(compile(open(module_pathname).read(), module_pathname, 'exec'), module.__dict__)''', 'R10-validate-before-install')
B('c15-benign-join', 'C15', CG,
  '''            source = import_code + cookie_code + pack_code + unpack_code''',
  '''            source = "".join([import_code, cookie_code, pack_code, unpack_code])''')
B('c15-benign-hash-one-update', 'C15', CG,
  '''        cookie_hash = hashlib.sha1()
        cookie_hash.update(pack_code.encode('utf-8'))
        cookie_hash.update(unpack_code.encode('utf-8'))
        cookie = cookie_hash.hexdigest()''',
  '''        digest = hashlib.sha256()
        for text in (pack_code, unpack_code):
            pass
        digest.update(pack_code.encode())
        digest.update(unpack_code.encode())
        cookie = digest.hexdigest()''')

# =========================================================================== C18
S('c18-f7-reverted', 'C18', F,
  '''                    if isinstance(byte_count, Any):
                        # the length is a don't-care too: unknown size
                        byte_count = None
''', '', 'R12-maybe-any')
S('c18-f13-reverted', 'C18', F,
  '''                    _regexp_as_a_group(self.until_marker)''',
  '''                    self.until_marker.pattern''', 'R12-delimiter-group')
S('c18-delimiter-group-without-flags', 'C18', F,
  '''    return b"(?" + flags.encode('ascii') + b":" + regexp.pattern + b")"''',
  '''    return b"(?:" + regexp.pattern + b")"''', 'R12-delimiter-group')
S('c18-delimiter-group-not-closed-around', 'C18', F,
  '''    return b"(?" + flags.encode('ascii') + b":" + regexp.pattern + b")"''',
  '''    return b"(?" + flags.encode('ascii') + b":)" + regexp.pattern''', 'R12-delimiter-group')
B('c18-benign-delimiter-group-inline', 'C18', F,
  '''                    _regexp_as_a_group(self.until_marker)''',
  '''                    _regexp_as_a_group(self.until_marker) + b""''')
S('c18-marker-escape-dropped', 'C18', F,
  '''                    re.escape(self.until_marker)
                    if isinstance(self.until_marker, bytes) else''',
  '''                    self.until_marker
                    if isinstance(self.until_marker, bytes) else''', 'R12-escape-discipline')
S('c18-literal-escape-dropped', 'C18', FR,
  '''        if is_literal:
            regexp = re.escape(string)
''',
  '''        if is_literal:
            regexp = string
''', 'R12-literal-escape')
S('c18-dotall-dropped', 'C18', PK, '''            b"(?s)" + fragments.assemble_regexp(), re.DEBUG if debug else 0''',
  '''            fragments.assemble_regexp(), re.DEBUG if debug else 0''', 'R12-dotall-prefix')
S('c18-fullmatch', 'C18', PM,
  '''        pattern.search if scan_through_string_for_a_match else pattern.match,''',
  '''        pattern.search if scan_through_string_for_a_match else pattern.fullmatch,''', 'R12-prefix-match')
S('c18-int-width-wrong-attr', 'C18', F,
  '''                (".{%i}" % self.byte_count).encode('ascii'), is_literal=False
            )

        return fragments


def _regexp_as_a_group(regexp):''',
  '''                (".{%i}" % len(self.struct_code or 'x')).encode('ascii'), is_literal=False
            )

        return fragments


def _regexp_as_a_group(regexp):''', 'R12-width-agreement')
S('c18-bits-class-bound-unescaped', 'C18', F,
  '''                        lower_literal = re.escape(lower_char)''',
  '''                        lower_literal = lower_char''', 'R12-escape-discipline')
S('c18-bits-literal-as-pattern', 'C18', F,
  '''                        fragments.append(char, is_literal=True)''',
  '''                        fragments.append(char, is_literal=False)''', 'R12-escape-discipline')
S('c18-bits-is-literal-guard-removed', 'C18', F,
  '''                if is_literal:
                    b = bin(getattr(pkt, name))[2:]''',
  '''                if is_literal or bit_count == 8:
                    b = bin(getattr(pkt, name))[2:]''', 'R12-maybe-any')
S('c18-hole-nonstrict', 'C18', FR,
  '''                result.append(("(?:.{%i})" % hole_length).encode('ascii'))''',
  '''                result.append(("(?:.{0,%i})" % hole_length).encode('ascii'))''', 'R12-holes')
S('c18-mixed-mask-wrong', 'C18', F,
  '''                            byte.replace("1", "0").replace("x", "1"), 2''',
  '''                            byte.replace("x", "1"), 2''', 'R12-bits-classes')
S('c18-data-any-sized-star', 'C18', F,
  '''                        (".{%i}" % byte_count).encode('ascii'),
                        is_literal=False''',
  '''                        (".{%i}" % (byte_count - 1)).encode('ascii'),
                        is_literal=False''', 'R12-width-agreement')
B('c18-benign-fstring-width', 'C18', F,
  '''            fragments.append(
                (".{%i}" % self.byte_count).encode('ascii'), is_literal=False
            )

        return fragments


def _regexp_as_a_group(regexp):''',
  '''            width = ".{%d}" % self.byte_count
            fragments.append(width.encode('ascii'), is_literal=False)

        return fragments


def _regexp_as_a_group(regexp):''')

# =========================================================================== C06
S('c06-rfind', 'C06', F, '''        count = search_buffer.find(until_marker)
        if count < 0:''', '''        count = search_buffer.rfind(until_marker)
        if count < 0:''', 'C06-marker-search')
S('c06-window-from-zero', 'C06', F,
  '''            max_next_offset_allowed = offset + self._search_buffer_length
            search_buffer = raw[offset:max_next_offset_allowed]
        else:
            search_buffer = raw[offset:]

        count = search_buffer.find(until_marker)''',
  '''            max_next_offset_allowed = offset + self._search_buffer_length
            search_buffer = raw[:max_next_offset_allowed]
        else:
            search_buffer = raw[offset:]

        count = search_buffer.find(until_marker)''', 'C06-marker-search')
S('c06-window-off-by-one', 'C06', F,
  '''            max_next_offset_allowed = offset + self._search_buffer_length
            search_buffer = raw[offset:max_next_offset_allowed]
        else:
            search_buffer = raw[offset:]

        extra_count = 0''',
  '''            max_next_offset_allowed = offset + self._search_buffer_length - 1
            search_buffer = raw[offset:max_next_offset_allowed]
        else:
            search_buffer = raw[offset:]

        extra_count = 0''', 'C06-marker-search')
S('c06-include-wrong-branch', 'C06', F,
  '''        if self.include_delimiter:
            count += len(until_marker)
        else:
            self.delimiter_to_be_included = until_marker
            if self.consume_delimiter:
                extra_count = len(until_marker)''',
  '''        if self.include_delimiter:
            extra_count = len(until_marker)
        else:
            self.delimiter_to_be_included = until_marker
            if self.consume_delimiter:
                extra_count = len(until_marker)''', 'C06-include-consume')
S('c06-consume-ignored', 'C06', F,
  '''            self.delimiter_to_be_included = until_marker
            if self.consume_delimiter:
                extra_count = len(until_marker)''',
  '''            self.delimiter_to_be_included = until_marker
            extra_count = len(until_marker)''', 'C06-include-consume')
S('c06-regex-include-uses-start', 'C06', F,
  '''                if self.include_delimiter:
                    count = match.end()''',
  '''                if self.include_delimiter:
                    count = match.start() + 1''', 'C06-include-consume')
S('c06-regex-search-raw-offset', 'C06', F,
  '''            match = until_marker.search(
                search_buffer, 0
            )''',
  '''            match = until_marker.search(
                raw, offset
            )''', 'C06-marker-search')
S('c06-regex-match-anchored', 'C06', F,
  '''            match = until_marker.search(
                search_buffer, 0
            )''',
  '''            match = until_marker.match(
                search_buffer, 0
            )''', 'C06-marker-search')
S('c06-pack-drops-delimiter', 'C06', F,
  '''        r = getattr(pkt, self.field_name) + self.delimiter_to_be_included''',
  '''        r = getattr(pkt, self.field_name)''', 'C06-pack-reemits')
S('c06-pack-delimiter-first', 'C06', F,
  '''        r = getattr(pkt, self.field_name) + self.delimiter_to_be_included''',
  '''        r = self.delimiter_to_be_included + getattr(pkt, self.field_name)''', 'C06-pack-reemits')
S('c06-ctor-delimiter-always', 'C06', F,
  '''            self.until_marker if isinstance(self.until_marker, bytes)
            and not include_delimiter else b\'\'''',
  '''            self.until_marker if isinstance(self.until_marker, bytes)
            else b\'\'''', 'C06-pack-reemits')
S('c06-field-size-plus-one', 'C06', F,
  '''        byte_count = getattr(pkt, self.byte_count.field_name)
        next_offset = offset + byte_count''',
  '''        byte_count = getattr(pkt, self.byte_count.field_name) & 0xffff
        next_offset = offset + byte_count''', 'C06-sized-read')
S('c06-sized-return-short', 'C06', F,
  '''        setattr(pkt, self.field_name, chunk)
        return next_offset

    def _unpack_variable_size_callable''',
  '''        setattr(pkt, self.field_name, chunk)
        return max(next_offset - 1, offset)

    def _unpack_variable_size_callable''', 'C06-sized-read')
S('c06-callable-kind-to-field-strategy', 'C06', F,
  '''            elif callable(self.byte_count):
                self.unpack = self._unpack_variable_size_callable

            elif isinstance(''',
  '''            elif callable(self.byte_count):
                self.unpack = self._unpack_fixed_size

            elif isinstance(''', 'C06-sized-read')
S('c06-assert-false-dropped', 'C06', F,
  '''                self.unpack = self._unpack_with_regexp_marker

            else:
                assert False''',
  '''                self.unpack = self._unpack_with_regexp_marker

            else:
                self.unpack = self._unpack_with_string_marker''', 'C06-strategy-selection')
B('c06-benign-index', 'C06', F, '''        count = search_buffer.find(until_marker)
        if count < 0:
            raise Exception("The delimiter %r was not found" % (until_marker, ))
''', '''        count = search_buffer.index(until_marker)
''')
B('c06-benign-arith-rewrite', 'C06', F,
  '''        next_offset = offset + count
        setattr(pkt, self.field_name, raw[offset:next_offset])

        return next_offset + extra_count

    def _unpack_with_regexp_marker''',
  '''        value_end = count + offset
        setattr(pkt, self.field_name, raw[offset:value_end])
        cursor = value_end
        cursor += extra_count
        return cursor

    def _unpack_with_regexp_marker''')

# =========================================================================== C03
S('c03-endianness-regroup-dropped', 'C03', CG,
  '''                    codes.extend(
                        [
                            self.
                            generate_code_for_fixed_fields_with_struct_code(
                                g, k
                            ) for k, g in grouped_by_endianness
                        ]
                    )''',
  '''                    codes.append(
                        self.generate_code_for_fixed_fields_with_struct_code(
                            group, group[0][2].is_bigendian
                        )
                    )''', 'R2-struct-block')
S('c03-regroup-keyed-on-code', 'C03', CG,
  '''                        groupby(group, lambda i_n_f: i_n_f[2].is_bigendian)''',
  '''                        groupby(group, lambda i_n_f: i_n_f[2].is_fixed)''', 'R2-struct-block')
S('c03-template-sync-dropped', 'C03', CG,
  '''def pack_impl(pkt, fragments, **k):
%(sync_descriptors_code)s
   k['innermost-pkt-pos'] = fragments.current_offset''',
  '''def pack_impl(pkt, fragments, **k):
   k['innermost-pkt-pos'] = fragments.current_offset''', 'R2-skeleton')
S('c03-block-index-off-by-one', 'C03', CG,
  '''                } for field_index, name in zip(
                    range(group[0][0], group[-1][0] +
                          1), [g[1] for g in group]
                )
            ]
        )

    def generate_code_for_loop_unpack''',
  '''                } for field_index, name in zip(
                    range(group[0][0], group[-1][0]), [g[1] for g in group]
                )
            ]
        )

    def generate_code_for_loop_unpack''', 'R2-partition')
S('c03-options-swapped', 'C03', PB,
  '''            self.cls,
            generate_for_pack,
            generate_for_unpack,''',
  '''            self.cls,
            generate_for_unpack,
            generate_for_pack,''', 'R2-option-plumbing')
S('c03-template-handler-cursor', 'C03', CG,
  '''      raise PacketError(True, name, pkt.__class__.__name__, offset, str(e))''',
  '''      raise PacketError(True, name, pkt.__class__.__name__, k['innermost-pkt-pos'], str(e))''', 'R2-skeleton')
S('c03-advance-len-group', 'C03', CG,
  '''             'advance': struct.calcsize(fmt),''',
  '''             'advance': sum(f.byte_count for _, _, f in group) if all(hasattr(f, 'byte_count') for _, _, f in group) else struct.calcsize(fmt),''', 'R2-struct-block')
S('c03-targets-reversed', 'C03', CG,
  '''            }) for _, name, _ in group]
        )''',
  '''            }) for _, name, _ in sorted(group, key=lambda t: t[1])]
        )''', 'R2-struct-block')
S('c03-unpack-block-drops-cursor', 'C03', CG,
  '''name, _, _, unpack = fields[%(field_index)i]
offset = unpack(pkt=pkt, raw=raw, offset=offset, **k)''',
  '''name, _, _, unpack = fields[%(field_index)i]
unpack(pkt=pkt, raw=raw, offset=offset, **k)''', 'R2-field-call')
S('c03-pack-driver-takes-unpack-blocks', 'C03', CG,
  '''                indent("\\n".join([c[0] for c in codes]), level=2),''',
  '''                indent("\\n".join([c[1] for c in codes]), level=2),''', 'R2-partition')
S('c03-variable-groups-filtered', 'C03', CG,
  '''            (k, list(g)) for k, g in
            itertools.groupby(self.fields, lambda i_n_f: i_n_f[2].is_fixed)
        ]''',
  '''            (k, list(g)) for k, g in
            itertools.groupby(self.fields, lambda i_n_f: i_n_f[2].is_fixed)
            if k or len(self.fields) < 64
        ]''', 'R2-partition')
S('c03-install-without-flag', 'C03', CG,
  '''        if self.generate_for_unpack and (
            self.pkt_class.unpack_impl == Packet.unpack_impl
        ):''',
  '''        if (self.generate_for_unpack or self.generate_for_pack) and (
            self.pkt_class.unpack_impl == Packet.unpack_impl
        ):''', 'R2-option-plumbing')
S('c03-template-innermost-missing', 'C03', CG,
  '''def unpack_impl(pkt, raw, offset, **k):
   k['innermost-pkt-pos'] = offset
   fields = pkt.get_fields()''',
  '''def unpack_impl(pkt, raw, offset, **k):
   fields = pkt.get_fields()''', 'R2-skeleton')
S('c03-comments-inline', 'C03', CG,
  """%(comments)s
name, _, pack, _ = fields[%(field_index)i]""",
  """name, _, pack, _ = fields[%(field_index)i] %(comments)s""", 'R2-annotate-comment-only')
S('c03-annotation-not-commented', 'C03', PB,
  '''        tmp = textwrap.dedent(''.join(tmp))
        tmp = textwrap.indent(tmp, '# ')
        self.sourcecode_by_field_name[last_field_name] = tmp''',
  '''        tmp = textwrap.dedent(''.join(tmp))
        self.sourcecode_by_field_name[last_field_name] = tmp''', 'R2-annotate-comment-only')
S('c03-fields-enumerate-from-one', 'C03', PB,
  '''                for i, name_f in enumerate(self.fields)''',
  '''                for i, name_f in enumerate(self.fields, 1)''', 'R2-option-plumbing')
S('c03-template-return-missing-sync-after', 'C03', CG,
  '''      raise PacketError(True, name, pkt.__class__.__name__, offset, str(e))

%(sync_descriptors_code)s
   return offset''',
  '''      raise PacketError(True, name, pkt.__class__.__name__, offset, str(e))

   return offset''', 'R2-skeleton')
B('c03-benign-lambda-rename', 'C03', CG,
  '''            itertools.groupby(self.fields, lambda i_n_f: i_n_f[2].is_fixed)''',
  '''            itertools.groupby(self.fields, key=lambda entry: entry[2].is_fixed)''')
B('c03-benign-template-raise', 'C03', CG,
  '''      e.add_parent_field_and_packet(offset, name, pkt.__class__.__name__)
      raise e''',
  '''      e.add_parent_field_and_packet(offset, name, pkt.__class__.__name__)
      raise''')

# =========================================================================== C05
S('c05-generic-range-one-bit-short', 'C05', F,
  '''        integer = getattr(pkt, self.field_name)
        raw = self.struct_obj.pack(integer)''',
  '''        integer = getattr(pkt, self.field_name)
        if abs(integer) > (1 << (self.byte_count * 8 - 1)) - 1:
            raise ValueError("The value does not fit")
        raw = self.struct_obj.pack(integer)''', 'R9-generic-range')
S('c03-generic-range-one-bit-short', 'C03', F,
  '''        integer = getattr(pkt, self.field_name)
        raw = self.struct_obj.pack(integer)''',
  '''        integer = getattr(pkt, self.field_name)
        if abs(integer) > (1 << (self.byte_count * 8 - 1)) - 1:
            raise ValueError("The value does not fit")
        raw = self.struct_obj.pack(integer)''', 'R2-generic-sibling-strict')
B('c05-benign-generic-range-beyond-the-code', 'C05', F,
  '''        integer = getattr(pkt, self.field_name)
        raw = self.struct_obj.pack(integer)''',
  '''        integer = getattr(pkt, self.field_name)
        if abs(integer) > (1 << (self.byte_count * 8)):
            raise ValueError("The value does not fit")
        raw = self.struct_obj.pack(integer)''')
S('c12-parent-entry-only-if-new', 'C12', PK,
  '''        self.fields_stack.append((offset, field_name, packet_class_name))''',
  '''        if self.fields_stack[-1] != (offset, field_name, packet_class_name):
            self.fields_stack.append((offset, field_name, packet_class_name))''', 'R7-stack-shape')
S('c05-table-lowercase', 'C05', F, "code = {1: 'B', 2: 'H', 4: 'I', 8: 'Q'}[self.byte_count]", "code = {1: 'B', 2: 'H', 4: 'i', 8: 'Q'}[self.byte_count]", 'R9-struct-codes')
S('c05-table-wrong-size', 'C05', F, "code = {1: 'B', 2: 'H', 4: 'I', 8: 'Q'}[self.byte_count]", "code = {1: 'B', 2: 'H', 4: 'I', 8: 'L'}[self.byte_count]", 'R9-struct-codes')
S('c05-signed-dropped-unpack', 'C05', F,
  '''                byteorder='big' if self.is_bigendian else 'little',
                signed=self.is_signed
            )

        except AttributeError:
            if not self.is_bigendian:''',
  '''                byteorder='big' if self.is_bigendian else 'little'
            )

        except AttributeError:
            if not self.is_bigendian:''', 'R1-int-codec')
S('c05-byteorder-flipped-pack', 'C05', F,
  '''                self.byte_count,
                byteorder='big' if self.is_bigendian else 'little',''',
  '''                self.byte_count,
                byteorder='little' if self.is_bigendian else 'big',''', 'R1-int-codec')
S('c05-local-is-big', 'C05', F,
  '''                            (self.endianness == 'local' and sys.byteorder == 'big')''',
  '''                            (self.endianness == 'local')''', 'R9-endianness-fold')
S('c05-network-dropped', 'C05', F,
  '''        self.is_bigendian = (self.endianness in ('big', 'network')) or \\''',
  '''        self.is_bigendian = (self.endianness in ('big', )) or \\''', 'R9-endianness-fold')
S('c05-class-default-little', 'C05', F, "self.endianness = bisturi_conf.get('endianness', 'big')", "self.endianness = bisturi_conf.get('endianness', 'little')", 'R9-endianness-fold')
S('c05-class-default-ignored', 'C05', F, "self.endianness = bisturi_conf.get('endianness', 'big')", "self.endianness = 'big'", 'R9-endianness-fold')
S('c05-mask-before-pack', 'C05', F, '''        raw = self.struct_obj.pack(integer)''', '''        raw = self.struct_obj.pack(integer & ((1 << (8 * self.byte_count)) - 1))''', 'R1-int-codec')
S('c05-wrap-arbitrary', 'C05', F,
  '''        integer = getattr(pkt, self.field_name)

        try:
            data = integer.to_bytes(''',
  '''        integer = getattr(pkt, self.field_name) % self.base

        try:
            data = integer.to_bytes(''', 'R1-int-codec')
S('c05-native-prefix', 'C05', F, '''            fmt = (">" if self.is_bigendian else "<") + code''', '''            fmt = (">" if self.is_bigendian else "@") + code''', 'R9-struct-codes')
S('c05-lower-inverted', 'C05', F,
  '''            if self.is_signed:
                code = code.lower()''',
  '''            if not self.is_signed:
                code = code.lower()''', 'R9-struct-codes')
S('c05-ctor-signed-default', 'C05', F, 'def __init__(self, byte_count=4, signed=False, endianness=None, default=0):', 'def __init__(self, byte_count=4, signed=True, endianness=None, default=0):', 'R9-int-ctor')
S('c05-codegen-prefix-inverted', 'C05', CG, '''        fmt = ">" if is_bigendian else "<"''', '''        fmt = "<" if is_bigendian else ">"''', 'R2-struct-block')
S('c05-unpack-slice-tail', 'C05', F,
  '''        integer = self.struct_obj.unpack(raw[offset:next_offset])[0]''',
  '''        integer = self.struct_obj.unpack(raw[offset:next_offset])[-1] & 0x7fffffffffffffff''', 'R1-int-codec')
B('c05-benign-bang-prefix', 'C05', F, '''            fmt = (">" if self.is_bigendian else "<") + code''', '''            fmt = ("!" if self.is_bigendian else "<") + code''')
B('c05-benign-positional-byteorder', 'C05', F,
  '''            data = integer.to_bytes(
                self.byte_count,
                byteorder='big' if self.is_bigendian else 'little',
                signed=self.is_signed
            )''',
  '''            order = 'big' if self.is_bigendian else 'little'
            data = integer.to_bytes(self.byte_count, order, signed=self.is_signed)''')

# =========================================================================== C07
S('c07-mask-dropped-in-pack', 'C07', F,
  '''            ((getattr(pkt, self.field_name) << self.shift) & self.mask) |
            (I & (~self.mask))''',
  '''            (getattr(pkt, self.field_name) << self.shift) |
            (I & (~self.mask))''', 'R8-confinement')
S('c07-invert-lost', 'C07', F,
  '''            (I & (~self.mask))''', '''            (I & (self.mask))''', 'R8-confinement')
S('c07-shift-after-increment', 'C07', F,
  '''                f.shift = cumshift
                f.mask = ((2**f.bit_count) - 1) << f.shift
                f.I = I

                self.members.append((n, f.bit_count))

                cumshift += f.bit_count''',
  '''                cumshift += f.bit_count
                f.shift = cumshift
                f.mask = ((2**f.bit_count) - 1) << f.shift
                f.I = I

                self.members.append((n, f.bit_count))
''', 'R8-shift-mask')
S('c07-boundary-check-weakened', 'C07', F, '''            if not (cumshift % 8 == 0):''', '''            if not (cumshift % 4 == 0):''', 'R8-byte-boundary')
S('c07-boundary-check-removed', 'C07', F,
  '''            if not (cumshift % 8 == 0):
                raise Bits.ByteBoundaryError(
                    "Wrong sequence of bits: %s with total sum of %i (not a multiple of 8)."
                    % (str(list(bit_sequence)), cumshift)
                )
''', '', 'R8-byte-boundary')
S('c07-shared-int-class-conf', 'C07', F,
  '''            I._compile(position=-1, fields=[], bisturi_conf={})''',
  '''            I._compile(position=-1, fields=[], bisturi_conf=bisturi_conf)''', 'R8-shared-int')
S('c07-width-rounded-up', 'C07', F, '''            I.byte_count = cumshift // 8''', '''            I.byte_count = (cumshift + 7) // 8''', 'R8-byte-boundary')
S('c07-unpack-no-mask', 'C07', F,
  '''        setattr(pkt, self.field_name, (I & self.mask) >> self.shift)''',
  '''        setattr(pkt, self.field_name, I >> self.shift)''', 'R8-extract')
S('c07-mask-width-off', 'C07', F,
  '''                f.mask = ((2**f.bit_count) - 1) << f.shift''', '''                f.mask = ((2**f.bit_count)) << f.shift''', 'R8-shift-mask')
S('c07-forward-walk', 'C07', F,
  '''            for n, f in reversed(fields[:position + 1]):''', '''            for n, f in fields[:position + 1]:''', 'R8-bits-run')
S('c07-every-member-packs', 'C07', F,
  '''        if self.iam_last:
            return self.I.pack(pkt, fragments=fragments, **k)
        else:
            return fragments''',
  '''        if self.iam_last or self.iam_first:
            return self.I.pack(pkt, fragments=fragments, **k)
        else:
            return fragments''')
S('c07-init-not-zeroed', 'C07', F,
  '''        if self.iam_first:
            setattr(packet, self.I.field_name, 0)

        setattr(
            packet, self.field_name,''',
  '''        setattr(
            packet, self.field_name,''', 'R8-init-zero')
S('c07-first-test-two-back', 'C07', F,
  '''        if position == 0 or not isinstance(fields[position - 1][1], Bits):
            self.iam_first = True''',
  '''        if position == 0 or not isinstance(fields[position - 2][1], Bits):
            self.iam_first = True''', 'R8-bits-run')
S('c07-no-break', 'C07', F,
  '''                if not isinstance(f, Bits):
                    break

                f.shift = cumshift''',
  '''                if not isinstance(f, Bits):
                    continue

                f.shift = cumshift''', 'R8-bits-run')
B('c07-benign-shift-notation', 'C07', F,
  '''                f.mask = ((2**f.bit_count) - 1) << f.shift''', '''                f.mask = ((1 << f.bit_count) - 1) << f.shift''')
B('c07-benign-pack-order', 'C07', F,
  '''            ((getattr(pkt, self.field_name) << self.shift) & self.mask) |
            (I & (~self.mask))''',
  '''            (I & ~self.mask) | (self.mask & (getattr(pkt, self.field_name) << self.shift))''')

# =========================================================================== C10
S('c10-outer-mod-dropped-unpack', 'C10', SF,
  '''            return offset + (
                (move_value - ((offset - start) % move_value)) % move_value
            )''',
  '''            return offset + (
                (move_value - ((offset - start) % move_value))
            )''', 'R8-move-formula')
S('c10-residue-sign', 'C10', SF,
  '''            offset += (
                (move_value - ((offset - start) % move_value)) % move_value
            )''',
  '''            offset += (
                (move_value + ((offset - start) % move_value)) % move_value
            )''', 'R8-move-formula')
S('c10-begins-start-one-side', 'C10', SF,
  '''        offset = fragments.current_offset
        if self.is_alignment:
            if self.reference == 'begins':
                start = 0''',
  '''        offset = fragments.current_offset
        if self.is_alignment:
            if self.reference == 'begins':
                start = k['innermost-pkt-pos']''', 'R8-move-siblings')
S('c10-innermost-after-first-field', 'C10', PK,
  '''        k['innermost-pkt-pos'] = offset
        try:
            for name, f, _, unpack in self.get_fields():
                offset = unpack(pkt=self, raw=raw, offset=offset, **k)''',
  '''        try:
            for name, f, _, unpack in self.get_fields():
                offset = unpack(pkt=self, raw=raw, offset=offset, **k)
                k.setdefault('innermost-pkt-pos', offset)''', 'R2-innermost-pkt-pos')
S('c10-pad-missing-until-loop', 'C10', SF,
  '''        while should_continue:
            offset += (aligned_to - (offset % aligned_to)) % aligned_to
            offset = unpack(pkt=pkt, raw=raw, offset=offset, **k)''',
  '''        while should_continue:
            offset = unpack(pkt=pkt, raw=raw, offset=offset, **k)''', 'R8-element-pad')
S('c10-pack-pad-after-element', 'C10', SF,
  '''            fragments.current_offset += (
                aligned_to - (fragments.current_offset % aligned_to)
            ) % aligned_to
            pack(pkt, fragments, **k)''',
  '''            pack(pkt, fragments, **k)
            fragments.current_offset += (
                aligned_to - (fragments.current_offset % aligned_to)
            ) % aligned_to''', 'R8-element-pad')
S('c10-at-default-reference', 'C10', F,
  '''    def at(self, position, reference='innermost-pkt'):''', '''    def at(self, position, reference='begins'):''', 'R8-modifiers')
S('c10-shift-absolute', 'C10', F,
  '''        self.move_arg = position
        self.reference = 'current-offset'
        self.is_alignment = False''',
  '''        self.move_arg = position
        self.reference = 'innermost-pkt'
        self.is_alignment = False''', 'R8-modifiers')
S('c10-move-after-field', 'C10', F,
  '''            return [(m.field_name, m), (field_name, self)]''', '''            return [(field_name, self), (m.field_name, m)]''', 'R8-modifiers')
S('c10-class-align-overrides', 'C10', F,
  '''        if self.move_arg is None and 'align' in bisturi_conf:''', '''        if 'align' in bisturi_conf:''', 'R8-modifiers')
S('c10-move-pack-emits', 'C10', SF,
  '''        fragments.current_offset = offset
        return fragments''',
  '''        fragments.append(fragments.fill * max(offset - fragments.current_offset, 0))
        fragments.current_offset = offset
        return fragments''', 'R8-move-only-moves')
S('c10-current-offset-pack-absolute', 'C10', SF,
  '''            elif self.reference == 'current-offset':
                offset += move_value
            elif self.reference == 'innermost-pkt':
                offset = k['innermost-pkt-pos'] + move_value''',
  '''            elif self.reference == 'current-offset':
                offset = move_value
            elif self.reference == 'innermost-pkt':
                offset = k['innermost-pkt-pos'] + move_value''', 'R8-move-siblings')
S('c10-seq-default-align-ignored', 'C10', SF,
  '''            self.aligned_to = bisturi_conf.get('align', 1)''', '''            self.aligned_to = 1''', 'R8-element-pad')
S('c10-ctor-args-swapped', 'C10', F,
  '''            m = Move(self.move_arg, self.reference, self.is_alignment)''', '''            m = Move(self.move_arg, self.is_alignment, self.reference)''', 'R8-modifiers')
B('c10-benign-pad-rewrite', 'C10', SF,
  '''            offset += (aligned_to - (offset % aligned_to)) % aligned_to
            offset = unpack(pkt=pkt, raw=raw, offset=offset, **k)

            # because''',
  '''            pad = -offset % aligned_to
            offset = offset + pad
            offset = unpack(pkt=pkt, raw=raw, offset=offset, **k)

            # because''')
B('c10-benign-elif-reorder', 'C10', SF,
  '''            if self.reference == 'begins':
                return move_value
            elif self.reference == 'current-offset':
                return offset + move_value
            elif self.reference == 'innermost-pkt':
                return k['innermost-pkt-pos'] + move_value
            else:
                raise Exception()''',
  '''            if self.reference == 'current-offset':
                return move_value + offset
            elif self.reference == 'begins':
                return move_value
            elif self.reference == 'innermost-pkt':
                return move_value + k['innermost-pkt-pos']
            else:
                raise Exception()''')

# =========================================================================== C14
S('c14-search-raw-offset', 'C14', F,
  '''            match = until_marker.search(
                search_buffer, 0
            )''',
  '''            match = until_marker.search(
                raw, offset
            )''')
S('c14-window-from-start', 'C14', F,
  '''            max_next_offset_allowed = offset + self._search_buffer_length
            search_buffer = raw[offset:max_next_offset_allowed]
        else:
            search_buffer = raw[offset:]

        count = search_buffer.find(until_marker)''',
  '''            max_next_offset_allowed = offset + self._search_buffer_length
            search_buffer = raw[:max_next_offset_allowed]
        else:
            search_buffer = raw[offset:]

        count = search_buffer.find(until_marker)''', 'R14-raw-relative-to-cursor')
S('c14-len-raw-outside-shortcut', 'C14', F,
  '''        next_offset = offset + count
        setattr(pkt, self.field_name, raw[offset:next_offset])

        return next_offset + extra_count

    def pack_regexp''',
  '''        next_offset = min(offset + count, len(raw) - 1)
        setattr(pkt, self.field_name, raw[offset:next_offset])

        return next_offset + extra_count

    def pack_regexp''', 'R14-raw-relative-to-cursor')
S('c14-child-at-zero', 'C14', SF,
  '''            offset = self.prototype_field.unpack(
                pkt=pkt, raw=raw, offset=offset, **k
            )''',
  '''            offset = self.prototype_field.unpack(
                pkt=pkt, raw=raw[offset:], offset=0, **k
            ) + offset''')
S('c14-raw-find-absolute', 'C14', F,
  '''        count = search_buffer.find(until_marker)
        if count < 0:''',
  '''        count = raw.find(until_marker) - offset
        if count < 0:''', 'R14-raw-relative-to-cursor')
S('c14-driver-innermost-zero', 'C14', PK,
  '''        k['innermost-pkt-pos'] = offset
        try:
            for name, f, _, unpack in self.get_fields():''',
  '''        k['innermost-pkt-pos'] = 0
        try:
            for name, f, _, unpack in self.get_fields():''', 'R14-entry-offset')
S('c14-bits-reads-at-fixed-pos', 'C14', F,
  '''            offset = self.I.unpack(pkt, raw, offset, **k)''', '''            offset = self.I.unpack(pkt, raw, k['innermost-pkt-pos'], **k)''', 'R14-child-gets-cursor')
S('c14-peek-previous-byte', 'C14', F,
  '''        chunk = raw[offset:next_offset]
        if len(chunk) != byte_count:
            raise Exception(
                "Unpacked %i bytes but expected %i" % (len(chunk), byte_count)
            )

        setattr(pkt, self.field_name, chunk)
        return next_offset

    def _unpack_variable_size_field''',
  '''        chunk = raw[offset:next_offset]
        if len(chunk) != byte_count or (offset and raw[offset - 1:offset] == b'\\\\'):
            raise Exception(
                "Unpacked %i bytes but expected %i" % (len(chunk), byte_count)
            )

        setattr(pkt, self.field_name, chunk)
        return next_offset

    def _unpack_variable_size_field''', 'R14-raw-relative-to-cursor')
B('c14-benign-inline-bound', 'C14', F,
  '''        next_offset = offset + self.byte_count
        integer = self.struct_obj.unpack(raw[offset:next_offset])[0]''',
  '''        next_offset = offset + self.byte_count
        integer = self.struct_obj.unpack(raw[offset:offset + self.byte_count])[0]''')

# =========================================================================== C08
S('c08-count-loop-from-one', 'C08', SF, '''        for _ in range(count_elements):''', '''        for _ in range(1, count_elements):''', 'C08-sequence-unpack')
S('c08-until-before-first', 'C08', SF,
  '''        for _ in range(count_elements):
            offset += (aligned_to - (offset % aligned_to)) % aligned_to
            offset = unpack(pkt=pkt, raw=raw, offset=offset, **k)

            # because''',
  '''        for _ in range(count_elements if self.until_condition is None else 0):
            offset += (aligned_to - (offset % aligned_to)) % aligned_to
            offset = unpack(pkt=pkt, raw=raw, offset=offset, **k)

            # because''', 'C08-sequence-unpack')
S('c08-when-false-advances', 'C08', SF,
  '''            or not when(pkt=pkt, raw=raw, offset=offset, **k)
        ):
            return offset''',
  '''            or not when(pkt=pkt, raw=raw, offset=offset, **k)
        ):
            return offset + (aligned_to - (offset % aligned_to)) % aligned_to''')
S('c08-append-other-list', 'C08', SF,
  '''        append = sequence.append''', '''        append = list(sequence).append''', 'C08-sequence-unpack')
S('c08-list-stored-late', 'C08', SF,
  '''        sequence = []
        setattr(
            pkt, self.field_name, sequence
        )  # clean up the previous sequence (if any),
        # so it can be used by the 'when' or 'until' callbacks

        count_elements = 1 if not self.get_how_many_elements else \\
                           self.get_how_many_elements(pkt=pkt, raw=raw, offset=offset, **k)
''',
  '''        sequence = []

        count_elements = 1 if not self.get_how_many_elements else \\
                           self.get_how_many_elements(pkt=pkt, raw=raw, offset=offset, **k)
        setattr(
            pkt, self.field_name, sequence
        )
''', 'C08-sequence-unpack')
S('c08-until-not-negated-in-loop', 'C08', SF,
  '''            append(getattr(pkt, seq_elem_field_name))
            should_continue = not until(pkt=pkt, raw=raw, offset=offset, **k)''',
  '''            append(getattr(pkt, seq_elem_field_name))
            should_continue = should_continue and not until(pkt=pkt, raw=raw, offset=offset, **k) or len(sequence) < 2''', 'C08-sequence-unpack')
S('c08-until-before-append', 'C08', SF,
  '''            append(getattr(pkt, seq_elem_field_name))
            should_continue = not until(pkt=pkt, raw=raw, offset=offset, **k)''',
  '''            should_continue = not until(pkt=pkt, raw=raw, offset=offset, **k)
            append(getattr(pkt, seq_elem_field_name))''', 'C08-sequence-unpack')
S('c08-optional-stores-stale', 'C08', SF,
  '''        opt_elem_field_name = self.opt_elem_field_name
        obj = None
        if proceed:''',
  '''        opt_elem_field_name = self.opt_elem_field_name
        obj = getattr(pkt, opt_elem_field_name, None)
        if proceed:''', 'C08-optional')
S('c08-optional-pack-emits-for-none', 'C08', SF,
  '''        if obj is not None:
            setattr(pkt, opt_elem_field_name, obj)
            return self.prototype_field.pack(pkt, fragments, **k)

        else:
            return fragments''',
  '''        if obj is None:
            obj = self.prototype_field.default
        setattr(pkt, opt_elem_field_name, obj)
        return self.prototype_field.pack(pkt, fragments, **k)''', 'C08-optional')
S('c08-sequence-pack-reversed', 'C08', SF, '''        for val in sequence:
            setattr(pkt, seq_elem_field_name, val)''', '''        for val in sequence[::-1]:
            setattr(pkt, seq_elem_field_name, val)''', 'C08-sequence-pack')
S('c08-ref-returns-own-offset', 'C08', F,
  '''        p = self.proto_class(_initialize_fields=False)
        setattr(pkt, self.field_name, p)
        return p.unpack_impl(**k)''',
  '''        p = self.proto_class(_initialize_fields=False)
        setattr(pkt, self.field_name, p)
        p.unpack_impl(**k)
        return k['offset']''', 'C08-ref')
S('c08-ref-pack-without-packing-flag', 'C08', F,
  '''            pkt=pkt, fragments=fragments, packing=True, **k
        )''', '''            pkt=pkt, fragments=fragments, **k
        )''', 'C08-ref')
S('c08-count-field-name-late', 'C08', SF,
  '''        count_raw_condition = lambda pkt, **k: getattr(pkt, field_name)''',
  '''        count_raw_condition = lambda pkt, **k: getattr(pkt, field_name, 0) or 1''', 'C08-normalisers')
S('c08-tmp-order', 'C08', SF, '''        self.tmp = (count, until, when)''', '''        self.tmp = (count, when, until)''', 'C08-normalisers')
S('c08-late-binding-closure', 'C08', DF,
  '''            for value in arglist:
                compile_expr(value, ops, level=next_level)
''',
  '''            for value in arglist:
                compile_expr(value, ops, level=next_level)
                ops.append(0, lambda pkt, *vargs, **kargs: value, level, 'peek')
                ops.ops.pop()
''', 'C08-no-late-binding')
B('c08-benign-while-true', 'C08', SF,
  '''        for val in sequence:
            setattr(pkt, seq_elem_field_name, val)''',
  '''        for element in sequence:
            val = element
            setattr(pkt, seq_elem_field_name, val)''')

# =========================================================================== C17
S('c17-delete-not-resetting', 'C17', DS,
  '''    def __delete__(self, instance):
        setattr(instance, self.iam_enabled_attr_name, True)''',
  '''    def __delete__(self, instance):
        setattr(instance, self.real_field_name, self.func(instance))''', 'R13-typestate')
S('c17-get-default-false', 'C17', DS,
  '''        iam_enabled = getattr(instance, self.iam_enabled_attr_name, True)''',
  '''        iam_enabled = getattr(instance, self.iam_enabled_attr_name, False)''', 'R13-typestate')
S('c17-set-keeps-enabled', 'C17', DS,
  '''        setattr(instance, self.iam_enabled_attr_name, False)
        setattr(instance, self.real_field_name, val)''',
  '''        setattr(instance, self.real_field_name, val)''', 'R13-typestate')
S('c17-sync-writes-computed-always', 'C17', DS,
  '''        val = self.__get__(instance, type(instance))''', '''        val = self.func(instance)''', 'R13-typestate')
S('c17-template-hooks-after-fields', 'C17', CG,
  '''def pack_impl(pkt, fragments, **k):
%(sync_descriptors_code)s
   k['innermost-pkt-pos'] = fragments.current_offset''',
  '''def pack_impl(pkt, fragments, **k):
   k['innermost-pkt-pos'] = fragments.current_offset''',
  edits=[(CG, '''def pack_impl(pkt, fragments, **k):
%(sync_descriptors_code)s
   k['innermost-pkt-pos'] = fragments.current_offset''', '''def pack_impl(pkt, fragments, **k):
   k['innermost-pkt-pos'] = fragments.current_offset'''),
         (CG, '''      raise PacketError(False, name, pkt.__class__.__name__, fragments.current_offset, str(e))

   return fragments''', '''      raise PacketError(False, name, pkt.__class__.__name__, fragments.current_offset, str(e))

%(sync_descriptors_code)s
   return fragments''')], rule='R13-hooks')
S('c17-generic-hooks-dropped', 'C17', PK,
  '''        [sync(self) for sync in self.get_sync_before_pack_methods()]
        k['innermost-pkt-pos'] = fragments.current_offset''',
  '''        k['innermost-pkt-pos'] = fragments.current_offset''', 'R13-hooks')
S('c17-flag-slot-not-declared', 'C17', DS,
  '''        return [self.iam_enabled_attr_name]''', '''        return []''', 'R13-slot-flow')
S('c17-ctor-writes-hidden-slot', 'C17', PK,
  '''                    setattr(self, descriptor_name, default_value)''',
  '''                    setattr(self, field.field_name, default_value)''', 'R13-constructor')
S('c17-autolength-cached-len', 'C17', DS,
  '''        return len(getattr(instance, self.length_of))''',
  '''        return len(getattr(instance, self.length_of) or b'')''', 'R13-typestate')
S('c17-getters-swapped', 'C17', PB,
  '''        def get_sync_before_pack_methods(cls):
            return self.sync_before_pack_methods''',
  '''        def get_sync_before_pack_methods(cls):
            return self.sync_after_unpack_methods''', 'R13-hooks')
S('c17-generated-sync-skips-first', 'C17', CG,
  '''                                            for i in range(len(sync_methods)))''',
  '''                                            for i in range(1, len(sync_methods)))''', 'R13-hooks')
S('c17-descriptor-stays-in-slots', 'C17', PB,
  '''                self.attrs[field.descriptor_name] = field.descriptor
                self.slots.remove(field.descriptor_name)''',
  '''                self.attrs[field.descriptor_name] = field.descriptor''', 'R13-slot-flow')
S('c17-template-wrong-phase-sync', 'C17', CG,
  '''                self.generate_unrolled_code_for_descriptor_sync(
                    sync_for_pack=True
                ),''',
  '''                self.generate_unrolled_code_for_descriptor_sync(
                    sync_for_pack=False
                ),''', 'R13-hooks')
B('c17-benign-get-rename', 'C17', DS,
  '''        iam_enabled = getattr(instance, self.iam_enabled_attr_name, True)
        if iam_enabled:
            return self.func(instance)
        else:
            real_value = getattr(instance, self.real_field_name)
            return real_value''',
  '''        if getattr(instance, self.iam_enabled_attr_name, True):
            return self.func(instance)
        return getattr(instance, self.real_field_name)''')

# =========================================================================== C19
S('c19-nul-rule-dropped', 'C19', F,
  '''        self.default = default
        if not default and isinstance(byte_count, int):
            self.default = b"\\x00" * byte_count
''', '''        self.default = default
''', 'C19-ctor-defaults')
S('c19-nul-rule-space', 'C19', F, '''            self.default = b"\\x00" * byte_count''', '''            self.default = b" " * byte_count''', 'C19-ctor-defaults')
S('c19-seq-default-or', 'C19', SF,
  '''        self.default = default if default is not None else []''', '''        self.default = default or SHARED_EMPTY''',
  edits=[(SF, '''        self.default = default if default is not None else []''', '''        self.default = default or SHARED_EMPTY'''),
         (SF, '''def normalize_raw_condition_into_a_callable(raw_condition):''', '''SHARED_EMPTY = []


def normalize_raw_condition_into_a_callable(raw_condition):''')], rule='C19-ctor-defaults')
S('c19-ref-clone-replaced', 'C19', F,
  '''            if self.field_name not in defaults:
                defaults[self.field_name] = prototype.clone()''',
  '''            if self.field_name not in defaults:
                defaults[self.field_name] = self.default''')
S('c19-bits-default-ignored', 'C19', F,
  '''        setattr(
            packet, self.field_name,
            defaults.get(self.field_name, self.default)
        )

    def unpack(self, pkt, raw, offset=0, **k):
        if self.iam_first:''',
  '''        setattr(
            packet, self.field_name,
            defaults.get(self.field_name, 0)
        )

    def unpack(self, pkt, raw, offset=0, **k):
        if self.iam_first:''', 'C19-init-stores')
S('c19-int-default-one', 'C19', F, 'def __init__(self, byte_count=4, signed=False, endianness=None, default=0):', 'def __init__(self, byte_count=4, signed=False, endianness=None, default=None):', 'C19-ctor-defaults')
S('c19-keyword-ignored-when-falsy', 'C19', F,
  '''            defaults.get(self.field_name, self.default)
        )

    def unpack(self, pkt, raw, offset=0, **k):
        raise NotImplementedError(
            "This method should be implemented during the 'compilation' phase."
        )

    def pack(self, pkt, fragments, **k):
        raise NotImplementedError(
            "This method should be implemented during the 'compilation' phase."
        )

    def _unpack_fixed_and_primitive_size''',
  '''            defaults.get(self.field_name) or self.default
        )

    def unpack(self, pkt, raw, offset=0, **k):
        raise NotImplementedError(
            "This method should be implemented during the 'compilation' phase."
        )

    def pack(self, pkt, fragments, **k):
        raise NotImplementedError(
            "This method should be implemented during the 'compilation' phase."
        )

    def _unpack_fixed_and_primitive_size''', 'C19-init-stores')
S('c19-ref-callable-default-optional', 'C19', F,
  '''            if default is None:
                raise ValueError(
                    "If your are using an expression of fields or a callable as the prototype of Ref I need a default object."
                )

            self.default = default''',
  '''            self.default = default''', 'C19-ctor-defaults')
S('c19-ref-prototype-not-copied', 'C19', F, '''            self.default = copy.deepcopy(prototype)''', '''            self.default = prototype''', 'C19-ctor-defaults')
S('c19-init-skips-private', 'C19', PK,
  '''            for field_name, field, _, _ in self.__class__.get_fields():
                field.init(self, defaults)''',
  '''            for field_name, field, _, _ in self.__class__.get_fields():
                if field_name.startswith('__'):
                    continue
                field.init(self, defaults)''', 'C19-packet-init')
S('c19-init-fresh-dict', 'C19', PK,
  '''                field.init(self, defaults)
                try:''',
  '''                field.init(self, dict(defaults) if field.is_fixed else defaults)
                try:''', 'C19-packet-init')
S('c19-optional-child-not-initialised', 'C19', SF,
  '''    def init(self, packet, defaults):
        Field.init(self, packet, defaults)
        self.prototype_field.init(packet, {})

    def unpack(self, pkt, raw, offset=0, **k):
        proceed''',
  '''    def init(self, packet, defaults):
        Field.init(self, packet, defaults)

    def unpack(self, pkt, raw, offset=0, **k):
        proceed''', 'C19-init-stores')
B('c19-benign-data-default-rewrite', 'C19', F,
  '''        self.default = default
        if not default and isinstance(byte_count, int):
            self.default = b"\\x00" * byte_count
''', '''        if not default and isinstance(byte_count, int):
            self.default = byte_count * b"\\x00"
        else:
            self.default = default
''')

# =========================================================================== C09
S('c09-reflected-not-swapped', 'C09', DF,
  '''            binary_op,
            is_binary=True,
            swap_binary_arguments=True
        )''',
  '''            binary_op,
            is_binary=True
        )''', 'R9-reflected-swap')
S('c09-swap-branch-same-order', 'C09', DF,
  '''            setattr(target, methodname, lambda A, B: BinaryExpr(B, A, op))''',
  '''            setattr(target, methodname, lambda A, B: BinaryExpr(A, B, op))''', 'R9-reflected-swap')
S('c09-reversed-dropped', 'C09', DF,
  '''            result = op(*reversed(args[:arg_count]))''', '''            result = op(*args[:arg_count])''', 'R9-stack-discipline')
S('c09-push-back-only', 'C09', DF, '''        args.insert(0, result)''', '''        args.append(result)''', 'R9-stack-discipline')
S('c09-delete-one-too-few', 'C09', DF, '''            del args[:arg_count]''', '''            del args[:arg_count - 1]''', 'R9-stack-discipline')
S('c09-collector-sorted', 'C09', DF, '''            cb = lambda *vargs: vargs''', '''            cb = lambda *vargs: tuple(sorted(vargs))''', 'R9-postfix')
S('c09-mapping-keys-sorted', 'C09', DF,
  '''            keys, values = zip(*argmapping.items())''', '''            keys, values = sorted(argmapping), list(argmapping.values())''', 'R9-postfix')
S('c09-right-before-left', 'C09', DF,
  '''        compile_expr(l, ops, level=next_level)
        compile_expr(r, ops, level=next_level)
        ops.append(2, op, level)''',
  '''        compile_expr(r, ops, level=next_level)
        compile_expr(l, ops, level=next_level)
        ops.append(2, op, level)''', 'R9-postfix')
S('c09-rsub-in-forward-table-name', 'C09', DF,
  '''        methodname = "__r%s__" % op_name
        _defer_method(''',
  '''        methodname = "__%sr__" % op_name
        _defer_method(''', 'R9-operator-dunders')
S('c09-inv-name', 'C09', DF, '''            op_name = "invert"''', '''            op_name = "inv"''', 'R9-operator-dunders')
S('c09-table-wrong-op', 'C09', DF,
  '''        # arith ------------------------------------
        operator.add,
        operator.sub,
        operator.mul,
        operator.truediv,
        operator.floordiv,
        operator.mod,
        operator.pow,

        # logical ----------------------------------
        operator.and_,''',
  '''        # arith ------------------------------------
        operator.add,
        operator.sub,
        operator.mul,
        operator.truediv,
        operator.mod,
        operator.pow,

        # logical ----------------------------------
        operator.and_,''')
S('c09-unary-as-binary', 'C09', DF, '''        _defer_method(cls, methodname, unary_op, is_binary=False)''', '''        _defer_method(cls, methodname, operator.neg, is_binary=False)''', 'R9-operator-dunders')
S('c09-if-true-inverted', 'C09', DF,
  '''    return value_if_true if bool(condition) else value_if_false''', '''    return value_if_false if bool(condition) else value_if_true''', 'R9-selectors')
S('c09-chooses-get', 'C09', DF, '''    return options[index]''', '''    return options[index] if index in options else options[0]''', 'R9-selectors')
S('c09-exec-swallows', 'C09', DF,
  '''        else:
            result = op(*reversed(args[:arg_count]))
            del args[:arg_count]''',
  '''        else:
            try:
                result = op(*reversed(args[:arg_count]))
            except ZeroDivisionError:
                result = 0
            del args[:arg_count]''', 'R9-stack-discipline')
S('c09-field-leaf-late-name', 'C09', DF,
  '''            cb = lambda pkt, *vargs, **kargs: getattr(pkt, field_name)''',
  '''            cb = lambda pkt, *vargs, **kargs: getattr(pkt, field_name, 0)''', 'R9-postfix')
S('c09-shared-stack', 'C09', DF, '''    args = list(args)

    for arg_count, op in ops:''', '''    for arg_count, op in ops:''', 'R9-stack-discipline')
B('c09-benign-push-back-consistent', 'C09', DF,
  '''        if arg_count == 0:
            result = op(pkt, *vargs, **kargs)
        else:
            result = op(*reversed(args[:arg_count]))
            del args[:arg_count]

        args.insert(0, result)''',
  '''        if arg_count == 0:
            result = op(pkt, *vargs, **kargs)
        else:
            result = op(*args[-arg_count:])
            del args[-arg_count:]

        args.append(result)''')

# =========================================================================== C01
S('c01-byteorder-flipped-pack-only', 'C01', F,
  '''                self.byte_count,
                byteorder='big' if self.is_bigendian else 'little',''',
  '''                self.byte_count,
                byteorder='little' if self.is_bigendian else 'big',''', 'R1-int-codec')
S('c01-data-pack-forgets-delimiter', 'C01', F,
  '''        r = getattr(pkt, self.field_name) + self.delimiter_to_be_included''', '''        r = getattr(pkt, self.field_name)''', 'C06-pack-reemits')
S('c01-include-arith-off', 'C01', F,
  '''        if self.include_delimiter:
            count += len(until_marker)
        else:''',
  '''        if self.include_delimiter:
            count += len(until_marker) - 1
        else:''', 'C06-include-consume')
S('c01-optional-pack-emits-for-none', 'C01', SF,
  '''        if obj is not None:
            setattr(pkt, opt_elem_field_name, obj)
            return self.prototype_field.pack(pkt, fragments, **k)

        else:
            return fragments''',
  '''        if obj is None:
            obj = self.prototype_field.default
        setattr(pkt, opt_elem_field_name, obj)
        return self.prototype_field.pack(pkt, fragments, **k)''', 'C08-optional')
S('c01-seq-pack-pad-changed', 'C01', SF,
  '''            fragments.current_offset += (
                aligned_to - (fragments.current_offset % aligned_to)
            ) % aligned_to''',
  '''            fragments.current_offset += (
                aligned_to - (fragments.current_offset % aligned_to)
            )''', 'R8-element-pad')
S('c01-fill-default-changed', 'C01', FR, "def __init__(self, fill=b'.'):", "def __init__(self, fill=b' '):", 'R8-fill-flow')
S('c01-pack-custom-fill', 'C01', PK, '''        fragments = Fragments()
        try:''', '''        fragments = Fragments(fill=b'\\x00')
        try:''', 'R8-fill-flow')
S('c01-swallow-collision', 'C01', F,
  '''        r = getattr(pkt, self.field_name) + self.delimiter_to_be_included
        fragments.append(r)
        return fragments''',
  '''        r = getattr(pkt, self.field_name) + self.delimiter_to_be_included
        try:
            fragments.append(r)
        except Exception:
            pass
        return fragments''', 'R7-overlap-surfaces')
S('c01-em-consumes', 'C01', F,
  '''    def unpack(self, pkt, raw, offset=0, **k):
        return offset

    def pack(self, pkt, fragments, **k):
        fragments.append(b"")
        return fragments''',
  '''    def unpack(self, pkt, raw, offset=0, **k):
        return offset + (1 if raw[offset:offset + 1] == b'\\x00' else 0)

    def pack(self, pkt, fragments, **k):
        fragments.append(b"")
        return fragments''', 'R1-empty-pair')
S('c01-generic-loop-skips-last', 'C01', PK,
  '''            for name, f, pack, _ in self.get_fields():
                pack(pkt=self, fragments=fragments, **k)''',
  '''            for name, f, pack, _ in self.get_fields()[:64]:
                pack(pkt=self, fragments=fragments, **k)''', 'R2-driver-symmetry')
S('c01-bits-first-member-packs', 'C01', F,
  '''        if self.iam_last:
            return self.I.pack(pkt, fragments=fragments, **k)
        else:
            return fragments''',
  '''        if self.iam_first:
            return self.I.pack(pkt, fragments=fragments, **k)
        else:
            return fragments''', 'R8-confinement')
S('c01-ref-embed-pack-not-noop', 'C01', F,
  '''            self.pack = self.pack_noop
            self.unpack = self.unpack_noop''',
  '''            self.unpack = self.unpack_noop''', 'R1-pair-installed')
S('c01-tobytes-no-fill', 'C01', FR, '''            result.append(self.fill * (offset - begin))''', '''            result.append(b'' * (offset - begin))''', 'R8-tobytes')
B('c01-benign-pack-rename', 'C01', F,
  '''        r = getattr(pkt, self.field_name) + self.delimiter_to_be_included
        fragments.append(r)
        return fragments''',
  '''        value = getattr(pkt, self.field_name)
        fragments.append(value + self.delimiter_to_be_included)
        return fragments''')

# =========================================================================== C02
S('c02-init-ignores-keyword', 'C02', F,
  '''        setattr(
            packet, self.field_name,
            defaults.get(self.field_name, self.default)
        )

    def unpack(self, pkt, raw, offset=0, **k):
        raise NotImplementedError(
            "This method should be implemented during the 'compilation' phase."
        )

    def pack(self, pkt, fragments, **k):
        r = getattr''',
  '''        setattr(
            packet, self.field_name,
            self.default
        )

    def unpack(self, pkt, raw, offset=0, **k):
        raise NotImplementedError(
            "This method should be implemented during the 'compilation' phase."
        )

    def pack(self, pkt, fragments, **k):
        r = getattr''', 'C19-init-stores')
S('c02-pack-inserts-at-zero', 'C02', F,
  '''        raw = self.struct_obj.pack(integer)
        fragments.append(raw)''',
  '''        raw = self.struct_obj.pack(integer)
        fragments.insert(fragments.current_offset, raw)''', 'C02-in-order-concatenation')
S('c02-assert-consistency-true-in-handler', 'C02', PK,
  '''        except:
            if dont_raise:
                return False
            raise''',
  '''        except:
            if dont_raise:
                return True
            raise''', 'C02-assert-consistency')
S('c02-assert-consistency-silent', 'C02', PK,
  '''            self.__class__.unpack(self.pack())
            return True''',
  '''            self.__class__.unpack(self.pack(), silent=True)
            return True''', 'C02-assert-consistency')
S('c02-pack-rewinds-cursor', 'C02', F,
  '''    def pack(self, pkt, fragments, **k):
        fragments.append(b"")
        return fragments''',
  '''    def pack(self, pkt, fragments, **k):
        fragments.append(b"")
        fragments.current_offset = max(fragments.current_offset - 1, 0)
        return fragments''', 'C02-in-order-concatenation')
S('c02-packet-pack-other-buffer', 'C02', PK,
  '''            fragments = self.pack_impl(fragments, root=self)
            return fragments.tobytes()''',
  '''            self.pack_impl(Fragments(), root=self)
            return fragments.tobytes()''', 'R8-fill-flow')
S('c02-append-not-at-cursor', 'C02', FR,
  '''    def append(self, string):
        self.insert(self.current_offset, string)''',
  '''    def append(self, string):
        self.insert(len(self.tobytes()), string)''', 'R8-append-at-cursor')
B('c02-benign-assert-consistency-shape', 'C02', PK,
  '''        try:
            self.__class__.unpack(self.pack())
            return True
        except:
            if dont_raise:
                return False
            raise''',
  '''        try:
            type(self).unpack(self.pack())
        except Exception:
            if dont_raise:
                return False
            raise
        return True''')

# =========================================================================== configuration plumbing
S('c05-element-conf-dropped', 'C05', SF,
  '''        self.prototype_field.field_name = self.seq_elem_field_name
        self.prototype_field._compile(
            position=-1, fields=[], bisturi_conf=bisturi_conf
        )''',
  '''        self.prototype_field.field_name = self.seq_elem_field_name
        self.prototype_field._compile(
            position=-1, fields=[], bisturi_conf={}
        )''', 'R9-conf-plumbing')
S('c06-window-option-renamed', 'C06', F,
  '''            self._search_buffer_length = bisturi_conf.get(
                'search_buffer_length'
            )''',
  '''            self._search_buffer_length = bisturi_conf.get(
                'search_buffer_len'
            )''', 'C06-strategy-selection')
S('c07-position-from-original-list', 'C07', PB,
  '''            map(compile_field, *zip(*enumerate(self.fields))), additional_slots''',
  '''            map(compile_field, *zip(*enumerate(self.fields_in_class))), additional_slots''', 'R8-conf-plumbing')
S('c10-describe-without-conf', 'C10', PB,
  '''        self.fields = sum([field._describe_yourself(name, self.bisturi_conf) \\''',
  '''        self.fields = sum([field._describe_yourself(name, {}) \\''', 'R8-conf-plumbing')

# =========================================================================== C08 / C18 additions
S('c08-repeated-until-when-swapped', 'C08', F,
  '''            count=count,
            until=until,
            when=when,''',
  '''            count=count,
            until=when,
            when=until,''', 'C08-modifier-plumbing')
S('c08-count-and-until-accepted', 'C08', SF,
  '''        if (count is None
            and until is None) or (count is not None and until is not None):''',
  '''        if (count is None
            and until is None):''', 'C08-modifier-plumbing')
S('c18-any-ne-true', 'C18', PM,
  '''    def ne_for_any(self, other):
        return False''',
  '''    def ne_for_any(self, other):
        return other is None''', 'R12-any-equality')
S('c18-anything-like-skips-private', 'C18', PM,
  '''    for field_name, field, _, _ in pkt_class.get_fields():
        setattr(pkt, field_name, Any())''',
  '''    for field_name, field, _, _ in pkt_class.get_fields():
        if field.is_fixed:
            setattr(pkt, field_name, Any())''', 'R12-any-equality')

# =========================================================================== C09 n-ary forms
S('c09-nary-dict-as-list', 'C09', DF,
  '''                    if isinstance(B[0], dict):  # nary({k1: v1, k2: v2})
                        C = B[0]
                        B = []''',
  '''                    if isinstance(B[0], dict):  # nary({k1: v1, k2: v2})
                        C = dict(B[0])
                        C.pop(None, None)
                        B = []''', 'R9-nary-forms')
S('c09-nary-tuple-not-unwrapped', 'C09', DF,
  '''                    elif isinstance(B[0], (list, tuple)):  # nary([v1, v2])
                        B = B[0]
                        C = {}''',
  '''                    elif isinstance(B[0], list):  # nary([v1, v2])
                        B = B[0]
                        C = {}''', 'R9-nary-forms')
