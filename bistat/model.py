"""Facts about bisturi derived from the repository and shared by several rules."""
import ast

from . import Undecided
from .expr import canon, unparse, call_name, lin, lin_sub, cmp_form, negate, conj


def is_placeholder(fi):
    """body is (docstring +) ``raise NotImplementedError(...)``"""
    body = [s for s in fi.node.body if not (isinstance(s, ast.Expr) and isinstance(s.value, ast.Constant))]
    if len(body) != 1 or not isinstance(body[0], ast.Raise) or body[0].exc is None:
        return False
    e = body[0].exc
    name = e.func if isinstance(e, ast.Call) else e
    return isinstance(name, ast.Name) and name.id == 'NotImplementedError'


def strategy_table(repo):
    """{class name: [strategy dict]} for every Field subclass (Field itself excluded)"""
    out = {}
    for ci in repo.field_classes():
        if ci.name == 'Field':
            continue
        out[ci.name] = (ci, repo.strategies(ci))
    return out


def strategy_variants(repo, side='unpack'):
    """(ClassInfo, FuncInfo, strategy, parked) for every function that can sit behind .unpack / .pack,
    once per combination of method values that _compile parks in other attributes for it
    (``parked``: canon('self.attr') -> the method value, ready to be a Walker.const_heap)"""
    seen, out = set(), []
    for name, (ci, strats) in strategy_table(repo).items():
        for s in strats:
            fi = s[side]
            if fi is None or is_placeholder(fi):
                continue
            parked = {'self.%s' % a: v for a, v in s.get('defs', {}).items()
                      if isinstance(v, ast.Attribute) and isinstance(v.value, ast.Name) and v.value.id == 'self' and repo.method(ci, v.attr) is not None}
            key = (ci.name, fi.id, tuple(sorted((k, v.attr) for k, v in parked.items())))
            if key in seen:
                continue
            seen.add(key)
            out.append((ci, fi, s, parked))
    return out


def unpack_strategies(repo, include_noop=True):
    """unique (ClassInfo, FuncInfo) of every function that can sit behind .unpack"""
    seen, out = set(), []
    for name, (ci, strats) in strategy_table(repo).items():
        for s in strats:
            fi = s['unpack']
            if fi is None:
                raise Undecided('%s has no unpack implementation' % name)
            if is_placeholder(fi):
                raise Undecided('%s: placeholder %s survives a _compile path (guards %s)' % (name, fi.qual, s['guards']))
            if (ci.name, fi.id) in seen:
                continue
            seen.add((ci.name, fi.id))
            out.append((ci, fi, s))
    return out


def pack_strategies(repo):
    seen, out = set(), []
    for name, (ci, strats) in strategy_table(repo).items():
        for s in strats:
            fi = s['pack']
            if fi is None:
                raise Undecided('%s has no pack implementation' % name)
            if is_placeholder(fi):
                raise Undecided('%s: placeholder %s survives a _compile path' % (name, fi.qual))
            if (ci.name, fi.id) in seen:
                continue
            seen.add((ci.name, fi.id))
            out.append((ci, fi, s))
    return out


def strategy_pairs(repo):
    """co-installed (unpack, pack) pairs: [(ClassInfo, unpack FuncInfo, pack FuncInfo, strategy)]"""
    seen, out = set(), []
    for name, (ci, strats) in strategy_table(repo).items():
        for s in strats:
            key = (ci.name, s['unpack'].id if s['unpack'] else None, s['pack'].id if s['pack'] else None)
            if key in seen:
                continue
            seen.add(key)
            out.append((ci, s['unpack'], s['pack'], s))
    return out


def raw_slices(e, base='raw'):
    """all ``raw[lo:hi]`` sub-expressions (outermost slices of the input buffer)"""
    out = []
    for n in ast.walk(e):
        if isinstance(n, ast.Subscript) and isinstance(n.slice, ast.Slice) \
                and isinstance(n.value, ast.Name) and n.value.id == base:
            out.append(n)
    return out


def raw_uses(e, base='raw'):
    """every occurrence of the Name ``raw`` with its parent node"""
    out = []
    for parent in ast.walk(e):
        for child in ast.iter_child_nodes(parent):
            if isinstance(child, ast.Name) and child.id == base:
                out.append((parent, child))
    return out


def path_literals(path):
    """guards of a path as (linear form, op) for arithmetic literals and canonical
    text for all: returns (list[(form, op)], set[text])"""
    forms, texts = [], set()
    for g, pol in path.guards:
        e = g if pol else negate(g)
        for c in conj(e):
            texts.add(canon(c))
            cf = cmp_form(c)
            if cf is not None:
                forms.append(cf)
    return forms, texts


def has_eq_guard(path, a, b):
    """does the path carry the guard  a == b  (as linear forms)?"""
    want = lin_sub(lin(a), lin(b))
    neg = {k: -v for k, v in want.items()}
    forms, _ = path_literals(path)
    for form, op in forms:
        if op == '==' and (form == want or form == neg):
            return True
    return False


def has_nonneg_guard(path, a):
    """does the path carry  a >= 0  (or a > -1, or a != -1 for find results)?"""
    forms, _ = path_literals(path)
    la = lin(a)
    for form, op in forms:
        # -a <= 0
        if op == '<=' and form == {k: -v for k, v in la.items()}:
            return True
        # -a - 1 < 0   i.e.  a > -1
        m = {k: -v for k, v in la.items()}
        m[1] = m.get(1, 0) - 1
        if op == '<' and form == m:
            return True
        # a != -1
        p = dict(la); p[1] = p.get(1, 0) + 1
        if op == '!=' and (form == p or form == {k: -v for k, v in p.items()}):
            return True
    return False


def has_truthy_guard(path, e):
    t = canon(e)
    _, texts = path_literals(path)
    return t in texts or ('(%s is not None)' % t) in texts


def class_attr_sources(repo, ci, attr):
    """expressions assigned to ``self.<attr>`` anywhere in the class (and bases):
    list of (FuncInfo, value expr)"""
    out = []
    for c in repo.mro(ci):
        for fi in c.methods.values():
            for n in ast.walk(fi.node):
                if isinstance(n, ast.Assign):
                    for t in n.targets:
                        tt = t.elts if isinstance(t, (ast.Tuple, ast.List)) else [t]
                        vv = n.value.elts if isinstance(t, (ast.Tuple, ast.List)) and isinstance(n.value, (ast.Tuple, ast.List)) and len(n.value.elts) == len(tt) else [n.value] * len(tt)
                        for x, v in zip(tt, vv):
                            if isinstance(x, ast.Attribute) and x.attr == attr and isinstance(x.value, ast.Name) and x.value.id == 'self':
                                out.append((fi, v))
    return out


def stmt_text(node):
    """normalised statement text: unparsed from the AST (layout / comments dropped)"""
    try:
        s = ast.unparse(node)
    except Exception:
        s = ast.dump(node)
    s = ' '.join(s.split())
    return s if len(s) <= 300 else s[:297] + '...'


def handlers_of(func_node):
    """the (first) top-level try statement of a driver"""
    for s in func_node.body:
        if isinstance(s, ast.Try):
            return s
    return None


# ---------------------------------------------------------------------------
# definite assignment of the field's own attribute (R11)
# ---------------------------------------------------------------------------

def packet_param(fi, kind):
    """name of the packet parameter of an init / unpack / pack implementation"""
    args = [a.arg for a in fi.node.args.args]
    if len(args) >= 2:
        return args[1]
    return 'pkt'


def stores_own_name(repo, ci, fi, depth=3, max_paths=4096):
    """for every non-raising path of ``fi`` (helpers inlined): does it store the
    attribute named ``self.field_name`` on the packet?  returns list of
    (path, how) with how in {'direct', 'delegated', None}"""
    w = repo.walker(inline_depth=depth, max_paths=max_paths)
    pk = packet_param(fi, None)
    out = []
    for p in w.paths(fi.node, cls=ci):
        if p.raises():
            continue
        how = None
        renamed = set()
        for e in p.all_effects():
            if e.kind == 'setattr' and canon(e.obj) == pk and canon(e.name) == 'self.field_name' and not e.cond:
                how = how or 'direct'
            elif e.kind == 'store_attr' and e.name == 'field_name' and canon(e.value) == 'self.field_name':
                renamed.add(canon(e.obj))
            elif e.kind == 'call' and isinstance(e.call.func, ast.Attribute) and e.call.func.attr in ('init', 'unpack', 'unpack_impl') \
                    and canon(e.call.func.value) in renamed and not e.cond:
                how = how or 'delegated'
        # a loop body store does not count as definite (the loop may run zero times)
        if how == 'direct':
            direct_top = any(e.kind == 'setattr' and canon(e.obj) == pk and canon(e.name) == 'self.field_name' and not e.cond for e in p.effects)
            deleg_top = any(e.kind == 'call' and isinstance(e.call.func, ast.Attribute) and e.call.func.attr in ('init', 'unpack') and canon(e.call.func.value) in renamed for e in p.effects)
            if not direct_top and not deleg_top:
                how = None
        out.append((p, how))
    return out


# ---------------------------------------------------------------------------
# class-level configuration plumbing (shared by C05, C06, C07, C10)
# ---------------------------------------------------------------------------

def _strip_copy(e):
    """E of an order-preserving full copy ``tuple(E)`` / ``list(E)`` / ``E[:]`` (the positions of
    the copy are the positions of E)"""
    while True:
        if isinstance(e, ast.Call) and isinstance(e.func, ast.Name) and e.func.id in ('tuple', 'list') and len(e.args) == 1 and not e.keywords \
                and not isinstance(e.args[0], ast.Starred):
            e = e.args[0]
        elif isinstance(e, ast.Subscript) and isinstance(e.slice, ast.Slice) and e.slice.lower is None and e.slice.upper is None and e.slice.step is None:
            e = e.value
        else:
            return e


def _position_source(func, call):
    """canonical text of E when the first argument of ``call`` enumerates E (the index of
    ``enumerate(E)``): through a loop / comprehension target, or as the first parameter of a
    local function mapped over ``*zip(*enumerate(E))`` / ``enumerate(E)`` unpacked"""
    pos = call.args[0]
    if not isinstance(pos, ast.Name):
        return None
    for n in ast.walk(func):
        gens = []
        if isinstance(n, ast.For):
            gens.append((n.target, n.iter, n))
        elif isinstance(n, (ast.ListComp, ast.GeneratorExp, ast.SetComp)):
            gens.extend((g.target, g.iter, n) for g in n.generators)
        for target, it, owner in gens:
            if isinstance(it, ast.Call) and isinstance(it.func, ast.Name) and it.func.id == 'enumerate' and len(it.args) == 1 and not it.keywords \
                    and isinstance(target, ast.Tuple) and target.elts and isinstance(target.elts[0], ast.Name) and target.elts[0].id == pos.id \
                    and any(x is call for x in ast.walk(owner)):
                return canon(_strip_copy(it.args[0]))
    for f in ast.walk(func):
        if isinstance(f, ast.FunctionDef) and f is not func and any(x is call for x in ast.walk(f)):
            params = [x.arg for x in f.args.args]
            if not params or params[0] != pos.id:
                return None
            for m_ in ast.walk(func):
                if isinstance(m_, ast.Call) and isinstance(m_.func, ast.Name) and m_.func.id == 'map' and len(m_.args) == 2 and isinstance(m_.args[0], ast.Name) and m_.args[0].id == f.name \
                        and isinstance(m_.args[1], ast.Starred):
                    z = m_.args[1].value
                    if isinstance(z, ast.Call) and isinstance(z.func, ast.Name) and z.func.id == 'zip' and len(z.args) == 1 and isinstance(z.args[0], ast.Starred):
                        e = z.args[0].value
                        if isinstance(e, ast.Call) and isinstance(e.func, ast.Name) and e.func.id == 'enumerate' and len(e.args) == 1:
                            return canon(_strip_copy(e.args[0]))
                if isinstance(m_, ast.Call) and isinstance(m_.func, ast.Name) and m_.func.id == f.name and len(m_.args) == 1 and isinstance(m_.args[0], ast.Starred):
                    # f(*pair) for pair in enumerate(E)
                    pass
            return None
    return None


def check_conf_plumbing(ctx, rule='conf-plumbing', option=None):
    """the class-level ``__bisturi__`` dict reaches every field: builder -> _describe_yourself
    / _compile (with the field's position in the full field list) -> element fields of
    Sequence / Optional"""
    repo = ctx.repo
    pb = repo.cls('PacketClassBuilder')
    m = pb.methods
    need = ('make_configuration', 'ask_to_each_field_to_describe_itself', 'compile_fields_and_create_slots')
    for n in need:
        if n not in m:
            raise Undecided('anchor PacketClassBuilder.%s not found' % n)
    tag = ' (option %s)' % option if option else ''
    # (i)
    fi = m['make_configuration']
    ok = False
    for n in ast.walk(fi.node):
        if isinstance(n, ast.Assign) and canon(n.targets[0]) == 'self.bisturi_conf':
            v = n.value
            ok = isinstance(v, ast.Call) and canon(v.func) == 'self.attrs.get' and v.args and isinstance(v.args[0], ast.Constant) and v.args[0].value == '__bisturi__'
            st = stmt_text(n)
    if ok:
        ctx.holds(rule, fi, st, 'the configuration is the class\'s own __bisturi__ dict' + tag, fi.node.lineno)
    else:
        ctx.violation(rule, fi, 'make_configuration', 'the class-level options are not read from the class\'s __bisturi__ attribute' + tag, fi.node.lineno)
    # (ii)
    fi = m['ask_to_each_field_to_describe_itself']
    calls = [n for n in ast.walk(fi.node) if isinstance(n, ast.Call) and isinstance(n.func, ast.Attribute) and n.func.attr == '_describe_yourself']
    comps = [n for n in ast.walk(fi.node) if isinstance(n, (ast.ListComp, ast.GeneratorExp))]
    ok = len(calls) == 1 and len(calls[0].args) == 2 and canon(calls[0].args[1]) == 'self.bisturi_conf' and comps and not comps[0].generators[0].ifs \
        and canon(comps[0].generators[0].iter) == 'self.fields_in_class'
    if ok:
        tgt = comps[0].generators[0].target
        ok = isinstance(tgt, ast.Tuple) and len(tgt.elts) == 2 and canon(calls[0].func.value) == canon(tgt.elts[1]) and canon(calls[0].args[0]) == canon(tgt.elts[0])
    if ok:
        ctx.holds(rule, fi, 'field._describe_yourself(name, self.bisturi_conf) for every declared field, in order', 'every field sees the class options' + tag, fi.node.lineno)
    else:
        ctx.violation(rule, fi, 'ask_to_each_field_to_describe_itself', 'not every declared field is described with (its name, the class configuration)' + tag, fi.node.lineno)
    # (iii)
    fi = m['compile_fields_and_create_slots']
    calls = [n for n in ast.walk(fi.node) if isinstance(n, ast.Call) and isinstance(n.func, ast.Attribute) and n.func.attr == '_compile']
    st_ok = 'field._compile(position, self.fields, self.bisturi_conf) over enumerate(self.fields)'
    if len(calls) != 1 or len(calls[0].args) != 3 or calls[0].keywords:
        ctx.violation(rule, fi, 'compile_fields_and_create_slots', 'fields are not compiled with (their position in self.fields, self.fields, the class configuration)' + tag, fi.node.lineno)
    else:
        a = calls[0].args
        if canon(a[1]) != 'self.fields' or canon(a[2]) != 'self.bisturi_conf':
            ctx.violation(rule, fi, 'compile_fields_and_create_slots: %s' % canon(calls[0]), 'fields are not compiled with (their position in self.fields, self.fields, the class configuration)' + tag, calls[0].lineno, witness=True)
        else:
            src = _position_source(fi.node, calls[0])
            if src is None:
                ctx.undecided(rule, fi, 'compile_fields_and_create_slots: %s' % canon(calls[0]), 'cannot see where the position argument comes from' + tag, calls[0].lineno)
            elif src == 'self.fields':
                ctx.holds(rule, fi, st_ok, 'every field is compiled with its own position in the full field list and the class options' + tag, fi.node.lineno)
            else:
                ctx.violation(rule, fi, 'compile_fields_and_create_slots: positions enumerate %s' % src, 'fields are not compiled with (their position in self.fields, self.fields, the class configuration)' + tag, calls[0].lineno, witness=True)
    # (iv)
    for cname in ('Sequence', 'Optional'):
        ci = repo.cls(cname)
        fi = ci.methods.get('_compile')
        calls = [n for n in ast.walk(fi.node) if isinstance(n, ast.Call) and canon(n.func) == 'self.prototype_field._compile']
        ok = len(calls) == 1
        if ok:
            kw = {k.arg: k.value for k in calls[0].keywords}
            for nm, a in zip(('position', 'fields', 'bisturi_conf'), calls[0].args):
                kw.setdefault(nm, a)
            ok = 'bisturi_conf' in kw and canon(kw['bisturi_conf']) == 'bisturi_conf'
        if ok:
            ctx.holds(rule, fi, '%s: element field compiled with the class configuration' % cname, 'repeated / optional elements see the class options' + tag, fi.node.lineno)
        else:
            ctx.violation(rule, fi, '%s._compile' % cname, 'the element field is not compiled with the class configuration: class-level options are ignored inside repeated / optional fields' + tag, fi.node.lineno)


def ref_strategies(repo):
    """the four Ref strategy functions by role (from the strategy table, not by name):
    dict(unpack_packet, pack_packet, unpack_callable, pack_callable)"""
    ci = repo.cls('Ref')
    out, every = {}, {}
    for st in repo.strategies(ci):
        gs = set()
        for g in st['guard_sets']:
            gs |= set(g)
        up, pk = st['unpack'], st['pack']
        if up is None or pk is None or up.node.name.endswith('noop'):
            continue
        if 'isinstance(self.prototype, Packet)' in gs and 'not isinstance(self.prototype, Packet)' not in gs:
            out['unpack_packet'], out['pack_packet'] = up, pk
            for role, f in (('unpack_packet', up), ('pack_packet', pk)):
                if f not in every.setdefault(role, []):
                    every[role].append(f)
        elif 'not isinstance(self.prototype, Packet)' in gs:
            out['unpack_callable'], out['pack_callable'] = up, pk
            for role, f in (('unpack_callable', up), ('pack_callable', pk)):
                if f not in every.setdefault(role, []):
                    every[role].append(f)
    if len(out) != 4:
        raise Undecided('cannot identify the packet / callable strategy pairs of Ref from its _compile (found %s)' % sorted(out))
    # every function _compile can install in a role (one per role on the pristine tree)
    out['all'] = every
    return out


def struct_object_attrs(repo):
    """names of the attributes that hold a ``struct.Struct`` object (assigned from a
    ``struct.Struct(...)`` call somewhere in the package): their ``.unpack`` / ``.pack`` are the
    standard codec, not a field's"""
    key = ('struct_attrs',)
    if key in repo._mro_cache:
        return repo._mro_cache[key]
    out = set()
    for fi in repo.functions.values():
        for n in ast.walk(fi.node):
            if isinstance(n, ast.Assign) and isinstance(n.value, ast.Call) and call_name(n.value) in ('struct.Struct', 'Struct'):
                for t in n.targets:
                    if isinstance(t, ast.Attribute):
                        out.add(t.attr)
    repo._mro_cache[key] = out
    return out


def ctor_stores(repo, ci, max_paths=512):
    """attr -> set of canonical values ``__init__`` leaves in ``self.attr`` over its non-raising paths
    (base-class constructors called as ``Base.__init__(self, ...)`` / ``super().__init__(...)`` are
    followed), in terms of the constructor's parameters"""
    init = repo.method(ci, '__init__')
    out = {}
    if init is None:
        return out
    w = repo.walker(inline_depth=3, max_paths=max_paths)
    for p in w.paths(init.node, cls=ci):
        if p.raises():
            continue
        last = {}
        for e in p.all_effects():
            if e.kind == 'store_attr' and isinstance(e.obj, ast.Name) and e.obj.id == 'self':
                last[e.name] = e.value
        for k, v in last.items():
            out.setdefault(k, set()).add(canon(v))
    return out


def path_facts(p):
    """the literals known to hold on a path: the conjuncts of its guards plus what unit
    propagation derives from disjunctions (``not (a and b)`` with ``a`` known gives ``not b``)"""
    formulas = [g if pol else negate(g) for g, pol in p.guards]
    facts = set()

    def refuted(v):
        if canon(negate(v)) in facts:
            return True
        if isinstance(v, ast.BoolOp) and isinstance(v.op, ast.Or):
            return all(refuted(x) for x in v.values)
        if isinstance(v, ast.BoolOp) and isinstance(v.op, ast.And):
            return any(refuted(x) for x in v.values)
        return canon(negate(v)) in facts

    def unit(f):
        if isinstance(f, ast.UnaryOp) and isinstance(f.op, ast.Not):
            n = negate(f.operand)
            if not (isinstance(n, ast.UnaryOp) and isinstance(n.op, ast.Not)):
                return unit(n)
        if isinstance(f, ast.BoolOp) and isinstance(f.op, ast.And):
            out = []
            for v in f.values:
                out.extend(unit(v))
            return out
        if isinstance(f, ast.BoolOp) and isinstance(f.op, ast.Or):
            vals = []
            for v in f.values:          # (a or (b or c)) is (a or b or c)
                vals.extend(v.values if isinstance(v, ast.BoolOp) and isinstance(v.op, ast.Or) else [v])
            rest = [v for v in vals if not refuted(v)]
            if len(rest) == 1:
                return unit(rest[0])
            return [canon(f)]
        if isinstance(f, ast.Compare) and len(f.ops) > 1:
            out = []
            for c in conj(f):
                out.extend(unit(c))
            return out
        return [canon(f)]

    changed = True
    while changed:
        changed = False
        for f in formulas:
            for lit in unit(f):
                if lit not in facts:
                    facts.add(lit)
                    changed = True
    return facts


def check_stale_derived(ctx, rule, clsname, clause=''):
    """attributes the constructor of ``clsname`` derives from one of its parameters go stale when
    another class writes the attribute that holds that parameter after construction (Bits._compile
    builds its shared Int with Int() and then sets .byte_count): a run-time method that reads the
    derived attribute works with the value of the constructor's argument, not of the object"""
    repo = ctx.repo
    ci = repo.cls(clsname)
    init = repo.method(ci, '__init__')
    if init is None:
        return
    params = [a.arg for a in init.node.args.args][1:]
    stores = ctor_stores(repo, ci)
    holder = {}          # attribute that holds a parameter as it is -> the parameter
    for a, vals in stores.items():
        for v in vals:
            if v in params:
                holder[a] = v
    # who writes those attributes on an object that is not self, outside the class?
    foreign = {}
    for fi in repo.functions.values():
        if fi.cls is ci or (fi.cls is not None and ci in repo.mro(fi.cls)):
            continue
        for n in ast.walk(fi.node):
            if isinstance(n, ast.Assign):
                for t in n.targets:
                    if isinstance(t, ast.Attribute) and t.attr in holder and not (isinstance(t.value, ast.Name) and t.value.id == 'self'):
                        # the object must be (possibly) an instance of the class: a local built by K(...)
                        made = any(isinstance(a2, ast.Assign) and isinstance(a2.value, ast.Call) and call_name(a2.value) == clsname
                                   and any(canon(tt) == canon(t.value) for tt in a2.targets) for a2 in ast.walk(fi.node))
                        if made:
                            foreign.setdefault(t.attr, []).append((fi, n))
    n_ob = 0
    for a, sites in sorted(foreign.items()):
        P = holder[a]
        derived = sorted(d for d, vals in stores.items() if d != a and any(P in {x.id for x in ast.walk(ast.parse(v, mode='eval')) if isinstance(x, ast.Name)} for v in vals))
        fi0, n0 = sites[0]
        st = '%s.%s is written by %s (%s); the constructor derives %s from it' % (clsname, a, fi0.qual, stmt_text(n0)[:50], derived or 'nothing')
        n_ob += 1
        if not derived:
            ctx.holds(rule, fi0, st, 'no constructor-derived attribute can go stale', n0.lineno, clause=clause)
            continue
        readers = []
        for m in ci.methods.values():
            if m.node.name in ('__init__',):
                continue
            for x in ast.walk(m.node):
                if isinstance(x, ast.Attribute) and x.attr in derived and isinstance(x.ctx, ast.Load) and isinstance(x.value, ast.Name) and x.value.id == 'self':
                    readers.append((m, x))
        if readers:
            m, x = readers[0]
            ctx.violation(rule, m, st + '; read by %s' % m.qual, 'self.%s was computed in the constructor from the argument %s, but %s changes .%s afterwards (the object is built with the default argument and then resized): the method works with the stale value' % (x.attr, P, fi0.qual, a), x.lineno, clause=clause, witness=True)
        else:
            ctx.holds(rule, fi0, st, 'derived attributes are not read by the methods of the class', n0.lineno, clause=clause)
    return n_ob



def derived_strategy_consts(repo, ci, strat):
    """``self.<attr>`` -> defining expression for the attributes that _compile computes (as a
    conditional, a comparison or a boolean combination of declared options) on the path that
    installs the strategy, and that nothing assigns at run time: compile-time constants that
    stand for their definition wherever the strategy reads them"""
    out = {}
    defs = strat.get('defs', {}) or {}
    if not defs:
        return out
    written = set()
    for c in set(repo.mro(ci)) | set(repo.subclasses(ci.name)):
        for name, fi in c.methods.items():
            if name in ('_compile', '__init__'):
                continue
            for n in ast.walk(fi.node):
                if isinstance(n, ast.Attribute) and isinstance(n.ctx, (ast.Store, ast.Del)) and isinstance(n.value, ast.Name) and n.value.id == 'self':
                    written.add(n.attr)
                elif isinstance(n, ast.Call) and isinstance(n.func, ast.Name) and n.func.id in ('setattr', 'delattr') and n.args and isinstance(n.args[0], ast.Name) and n.args[0].id == 'self':
                    return {}
    for a, v in defs.items():
        if a in written:
            continue
        if any(isinstance(x, (ast.IfExp, ast.Compare, ast.BoolOp)) for x in ast.walk(v)) and not any(isinstance(x, (ast.Lambda, ast.Call)) and not (isinstance(x, ast.Call) and isinstance(x.func, ast.Name) and x.func.id in ('len', 'int', 'bool', 'isinstance')) for x in ast.walk(v)):
            out['self.%s' % a] = v
    return out



def loop_overwrites(func):
    """``v = []`` (or another empty display) before a loop, ``v = <call>`` -- a plain assignment
    whose value does not mention v -- in the loop body, v read after the loop: what every iteration
    but the last produced is thrown away.  -> [(name, loop, assignment)]"""
    out = []

    def scan(stmts):
        for i, st in enumerate(stmts):
            if isinstance(st, (ast.For, ast.While)):
                inits = {}
                for prev in stmts[:i]:
                    if isinstance(prev, ast.Assign) and len(prev.targets) == 1 and isinstance(prev.targets[0], ast.Name) \
                            and ((isinstance(prev.value, (ast.List, ast.Tuple, ast.Dict, ast.Set)) and not getattr(prev.value, 'elts', getattr(prev.value, 'keys', None))) or
                                 (isinstance(prev.value, ast.Call) and isinstance(prev.value.func, ast.Name) and prev.value.func.id in ('list', 'dict', 'set', 'tuple') and not prev.value.args)):
                        inits[prev.targets[0].id] = prev
                for a in ast.walk(st):
                    if isinstance(a, ast.Assign) and len(a.targets) == 1 and isinstance(a.targets[0], ast.Name) and a.targets[0].id in inits and isinstance(a.value, ast.Call) \
                            and not any(isinstance(x, ast.Name) and x.id == a.targets[0].id for x in ast.walk(a.value)):
                        v = a.targets[0].id
                        accum = any((isinstance(x, ast.AugAssign) and isinstance(x.target, ast.Name) and x.target.id == v) or
                                    (isinstance(x, ast.Call) and isinstance(x.func, ast.Attribute) and isinstance(x.func.value, ast.Name) and x.func.value.id == v and x.func.attr in ('append', 'extend', 'update', 'add'))
                                    for x in ast.walk(st))
                        used_after = any(isinstance(x, ast.Name) and x.id == v and isinstance(x.ctx, ast.Load) for nxt in stmts[i + 1:] for x in ast.walk(nxt))
                        used_in_loop_after = False
                        if not accum and used_after and not used_in_loop_after:
                            out.append((v, st, a))
            for fld in ('body', 'orelse', 'finalbody'):
                sub = getattr(st, fld, None)
                if isinstance(sub, list) and sub and isinstance(sub[0], ast.stmt):
                    scan(sub)
    scan(func.body)
    return out



def check_strategies_read_the_name_at_call_time(ctx, rule, clause=''):
    """Round 8.  A Field object can be renamed after it was compiled: Ref._unpack_using_callable /
    _pack_with_callable set ``referenced.field_name`` each time a selector hands the field out, and
    _compile runs once per object (exec_once).  A pack / unpack strategy built as a closure at
    compile time that captured the *value* of self.field_name keeps the first name for ever: the
    second Ref served by the same Field object then writes (reads) the first one's attribute"""
    repo = ctx.repo
    from .effects import COMPILE_PHASE_NAMES, called_only_from_constructors
    n = 0
    found = False
    for ci in repo.field_classes():
        for mname, fi in ci.methods.items():
            if not isinstance(fi.node, ast.FunctionDef):
                continue
            if not (mname in COMPILE_PHASE_NAMES or called_only_from_constructors(repo, ci, mname)):
                continue
            caps = {}
            for st in fi.node.body:
                if isinstance(st, ast.Assign) and len(st.targets) == 1 and isinstance(st.targets[0], ast.Name) and canon(st.value) == 'self.field_name':
                    caps[st.targets[0].id] = st
            if not caps:
                continue
            for inner in ast.walk(fi.node):
                if inner is fi.node or not isinstance(inner, (ast.FunctionDef, ast.Lambda)):
                    continue
                params = {a.arg for a in inner.args.args + inner.args.kwonlyargs}
                bound = {x.id for x in ast.walk(inner) if isinstance(x, ast.Name) and isinstance(x.ctx, ast.Store)}
                if 'pkt' not in params and 'packet' not in params:
                    continue
                n += 1
                uses = [x for x in ast.walk(inner) if isinstance(x, ast.Name) and isinstance(x.ctx, ast.Load) and x.id in caps and x.id not in params and x.id not in bound]
                if uses:
                    found = True
                    nm = getattr(inner, 'name', '<lambda>')
                    ctx.violation(rule, fi, '%s: %s = self.field_name captured by %s' % (fi.qual, uses[0].id, nm),
                                  'the strategy built at compile time keeps the name the field had then; a Field handed out by a Ref selector is renamed on every use (field_name = <the Ref\'s name>) and compiled once, so the second Ref it serves parses into / packs from the first one\'s attribute', uses[0].lineno, clause=clause, witness=True)
    ctx.unit('compile_time_closures_over_packets', n)
    if not found:
        ctx.holds(rule, ('bisturi/field.py', '<field strategies>'), 'no strategy closure captures the value of self.field_name at compile time', 'the attribute written is the name the field has when it is called', 0, clause=clause)



def check_init_writes_own_keyword_only(ctx, rule, clause=''):
    """Round 8.  field.init(packet, defaults) may complete the keyword dict for its own field
    (defaults[self.field_name] = a fresh clone of the prototype) and for nothing else: an entry
    under another name is, for Packet.__init__ and for the fields initialised later, a keyword
    the user passed -- a described field is then forced to that value (its flag is set), a plain
    field starts with a value that belongs to another object"""
    repo = ctx.repo
    n = 0
    bad = False
    for ci in repo.field_classes():
        for mname, fi in ci.methods.items():
            if not isinstance(fi.node, ast.FunctionDef):
                continue
            args = [a.arg for a in fi.node.args.args]
            if 'defaults' not in args:
                continue
            for x in ast.walk(fi.node):
                key = None
                if isinstance(x, ast.Assign):
                    for t in x.targets:
                        if isinstance(t, ast.Subscript) and canon(t.value) == 'defaults':
                            key = t.slice
                elif isinstance(x, ast.Call) and isinstance(x.func, ast.Attribute) and canon(x.func.value) == 'defaults' and x.func.attr in ('setdefault', '__setitem__') and x.args:
                    key = x.args[0]
                elif isinstance(x, ast.Call) and isinstance(x.func, ast.Attribute) and canon(x.func.value) == 'defaults' and x.func.attr == 'update':
                    key = ast.Name(id='<update>', ctx=ast.Load())
                if key is None:
                    continue
                n += 1
                st = '%s: %s' % (fi.qual, stmt_text(x)[:90])
                if canon(key) == 'self.field_name':
                    ctx.holds(rule, fi, st, 'completes the keyword dict for its own field', x.lineno, clause=clause)
                else:
                    bad = True
                    ctx.violation(rule, fi, st, 'an entry is added to the constructor\'s keyword dict under %s, which is not this field\'s own name: the constructor and the fields initialised afterwards take it for a keyword the user passed (a described field is forced to it and no longer follows what it tracks)' % canon(key)[:40], x.lineno, clause=clause, witness=True)
    ctx.unit('keyword_dict_writes_in_init', n)



def check_no_class_level_accumulator(ctx, rule, cls_names, clause=''):
    """Round 8.  a list / dict / set created in the class body and filled by the methods of the
    class is one object for every instance and every packet class ever declared in the process:
    what the compilation of one declaration leaves in it (a declaration rejected half way does not
    clean up) is found by the next one"""
    repo = ctx.repo
    n = 0
    for cname in cls_names:
        ci = repo.classes.get(cname)
        if ci is None:
            continue
        for st in ci.node.body:
            if isinstance(st, ast.Assign) and len(st.targets) == 1 and isinstance(st.targets[0], ast.Name) and (
                    isinstance(st.value, (ast.List, ast.Dict, ast.Set)) or (isinstance(st.value, ast.Call) and isinstance(st.value.func, ast.Name) and st.value.func.id in ('list', 'dict', 'set', 'deque', 'defaultdict'))):
                attr = st.targets[0].id
                if attr.startswith('__'):
                    continue
                muts = []
                for fi in repo.functions.values():
                    aliases = {attr_holder for attr_holder in ()}
                    names = set()
                    for x in ast.walk(fi.node):
                        if isinstance(x, ast.Assign) and len(x.targets) == 1 and isinstance(x.targets[0], ast.Name) and isinstance(x.value, ast.Attribute) and x.value.attr == attr \
                                and canon(x.value.value) in ('self', 'cls', cname, 'type(self)', 'self.__class__'):
                            names.add(x.targets[0].id)
                    for x in ast.walk(fi.node):
                        if isinstance(x, ast.Call) and isinstance(x.func, ast.Attribute) and x.func.attr in ('append', 'extend', 'insert', 'add', 'update', 'setdefault', 'pop', 'clear', 'remove'):
                            r = x.func.value
                            if (isinstance(r, ast.Attribute) and r.attr == attr and canon(r.value) in ('self', 'cls', cname, 'type(self)', 'self.__class__')) or (isinstance(r, ast.Name) and r.id in names):
                                muts.append((fi, x))
                        if isinstance(x, ast.Subscript) and isinstance(x.ctx, (ast.Store, ast.Del)):
                            r = x.value
                            if (isinstance(r, ast.Attribute) and r.attr == attr and canon(r.value) in ('self', 'cls', cname, 'type(self)', 'self.__class__')) or (isinstance(r, ast.Name) and r.id in names):
                                muts.append((fi, x))
                # an attribute rebound per instance in __init__ is the instance's own
                own = any(isinstance(x, ast.Attribute) and x.attr == attr and isinstance(x.ctx, ast.Store) and canon(x.value) == 'self' for m_ in ci.methods.values() for x in ast.walk(m_.node))
                if muts and not own:
                    n += 1
                    fi, x = muts[0]
                    ctx.violation(rule, fi, '%s.%s = %s; %s' % (cname, attr, canon(st.value)[:20], stmt_text(x)[:70]), 'a container created in the class body is filled by the methods of the class: it is shared by every instance and every packet class declared in the process, so what one declaration leaves in it (for instance when it is rejected half way) is seen by the next', getattr(x, 'lineno', st.lineno), clause=clause, witness=True)
    if not n:
        ctx.holds(rule, ('bisturi/field.py', ', '.join(cls_names)), 'no class-level container is filled by the methods of %s' % ', '.join(cls_names), 'nothing is carried from one declaration to the next', 0, clause=clause)


def check_conf_dict_holds_no_per_class_tables(ctx, rule, clause=None):
    """Round 9.  ``cls.__bisturi__`` is the dictionary object the user wrote in the class body
    (``make_configuration`` keeps ``attrs.get('__bisturi__', ...)`` as it is), and one object may
    be given to several classes (``__bisturi__ = OPTIONS``).  Nothing that is computed per class
    and read back later (the field table, a memo of the constructor) may be kept in it: the class
    that writes last decides for all of them.  The one entry the library has always written,
    ``original_fields_in_class``, is read by the specialization builder only"""
    repo = ctx.repo
    pb = repo.cls('PacketClassBuilder')
    mk = pb.methods.get('make_configuration')
    if mk is None:
        raise Undecided('anchor PacketClassBuilder.make_configuration not found')
    own_copy = None
    for n in ast.walk(mk.node):
        if isinstance(n, ast.Assign) and canon(n.targets[0]) == 'self.bisturi_conf':
            v = n.value
            own_copy = not (isinstance(v, ast.Call) and canon(v.func) == 'self.attrs.get')
    kw = dict(clause=clause) if clause else {}
    if own_copy is None:
        ctx.undecided(rule, mk, 'make_configuration', 'cannot see where the class configuration comes from', mk.node.lineno, **kw)
        return

    def is_conf(e):
        t = canon(e)
        return t == 'self.bisturi_conf' or t.endswith('.__bisturi__') or t == 'bisturi_conf'
    writes, reads = {}, {}
    for fi in repo.functions.values():
        for n in ast.walk(fi.node):
            if isinstance(n, ast.Subscript) and is_conf(n.value) and isinstance(n.slice, ast.Constant) and isinstance(n.slice.value, str):
                (reads if isinstance(n.ctx, ast.Load) else writes).setdefault(n.slice.value, []).append((fi, n))
            elif isinstance(n, ast.Call) and isinstance(n.func, ast.Attribute) and is_conf(n.func.value) and n.args and isinstance(n.args[0], ast.Constant) and isinstance(n.args[0].value, str):
                if n.func.attr == 'setdefault':
                    writes.setdefault(n.args[0].value, []).append((fi, n))
                    reads.setdefault(n.args[0].value, []).append((fi, n))
                elif n.func.attr in ('get', 'pop'):
                    reads.setdefault(n.args[0].value, []).append((fi, n))
    n_ = 0
    for key, ws in sorted(writes.items()):
        rs = [(f, x) for f, x in reads.get(key, []) if not (f.cls is not None and f.cls.name == 'PacketSpecializationClassBuilder')]
        fi, node = ws[0]
        st = 'configuration entry %r written in %s' % (key, fi.qual)
        n_ += 1
        if own_copy:
            ctx.holds(rule, fi, st, 'the configuration is a copy made for this class', node.lineno, **kw)
        elif rs:
            ctx.violation(rule, fi, st + ', read in %s' % rs[0][0].qual, 'the configuration dictionary is the object the user wrote in the class body and may be given to several classes (__bisturi__ = OPTIONS): what one class keeps there is read back for another -- the class declared (or used) last decides the fields, bit positions and defaults of all of them', node.lineno, witness=True, **kw)
        else:
            ctx.holds(rule, fi, st, 'written for introspection only: nothing at run time reads it back', node.lineno, **kw)
    if not n_:
        ctx.holds(rule, mk, 'no per-class entry is written into the class configuration', 'nothing to share', mk.node.lineno, **kw)
