"""Per-function symbolic path summaries (DESIGN.md A.2).  No solver, nothing runs.

``Walker(resolver).paths(funcdef)`` enumerates the loop-free paths of a function
and returns one ``Path`` per path:

* ``guards``   [(expr, polarity)] -- conditions taken, expressed over the
               function's parameters, ``self.*`` attributes and opaque calls
               (local definitions are forward-substituted);
* ``effects``  ordered list of ``Eff`` (calls, setattr, attribute / subscript
               stores, deletes, loops);
* ``end``      ('return', expr|None) | ('raise', expr|None) | ('fall', None)
               | ('break',None) | ('continue',None)

Loops become one ``loop`` effect that holds the path summaries of the body,
walked with loop-carried names replaced by phi-symbols (``name@phiN``).
"""
import ast
import copy
import itertools

from . import Undecided
from .expr import canon, negate, subst, unparse, call_name, names_in

PURE_BUILTINS = {
    'isinstance', 'issubclass', 'len', 'getattr', 'hasattr', 'callable', 'int', 'str', 'type',
    'repr', 'bool', 'min', 'max', 'range', 'reversed', 'zip', 'sorted', 'list', 'tuple', 'dict',
    'bytes', 'bin', 'ord', 'chr', 'set', 'enumerate', 'abs', 'sum', 'any', 'all', 'id', 'map',
    'filter', 'divmod', 'hex', 'slice', 'frozenset', 'float', 'bytearray', 'iter',
}
PURE_METHODS = {
    'get', 'items', 'keys', 'values', 'find', 'rfind', 'index', 'rindex', 'search', 'match',
    'fullmatch', 'start', 'end', 'group', 'encode', 'decode', 'startswith', 'endswith', 'join',
    'split', 'strip', 'rstrip', 'lstrip', 'lower', 'upper', 'replace', 'format', 'count',
    'hexdigest', 'calcsize', 'from_bytes', 'to_bytes', 'escape', 'copy',
    'islower', 'isidentifier', 'indices', 'translate', 'abspath', 'dirname', 'basename',
    'splitext', 'exists', 'getfile',
}


class Eff:
    __slots__ = ('kind', 'node', 'obj', 'name', 'value', 'call', 'sub', 'cond', 'lineno', 'depth', 'raw')

    def __init__(self, kind, node=None, obj=None, name=None, value=None, call=None, sub=None,
                 cond=False, depth=0):
        self.kind = kind          # call | setattr | store_attr | store_sub | del | loop | yield
        self.node = node          # original AST node (for line numbers / reports)
        self.obj = obj            # target object expr (substituted)
        self.name = name          # attribute name (str) or name expr (setattr) / index expr
        self.value = value        # stored value expr (substituted)
        self.call = call          # substituted ast.Call for kind == 'call' / 'setattr'
        self.sub = sub            # for loops: dict(kind, target, iter, test, body=[Path], orelse)
        self.cond = cond          # evaluated only conditionally inside its expression
        self.lineno = getattr(node, 'lineno', 0)
        self.depth = depth        # inlining depth at which the effect happened
        self.raw = None           # store_attr: the value with attribute reads left symbolic

    def text(self):
        if self.kind == 'call':
            return canon(self.call)
        if self.kind == 'setattr':
            return 'setattr(%s, %s, %s)' % (canon(self.obj), canon(self.name), canon(self.value))
        if self.kind == 'store_attr':
            return '%s.%s = %s' % (canon(self.obj), self.name, canon(self.value))
        if self.kind == 'store_sub':
            return '%s[%s] = %s' % (canon(self.obj), canon(self.name), canon(self.value))
        if self.kind == 'del':
            return 'del %s' % canon(self.obj)
        if self.kind == 'loop':
            return 'loop<%s>' % self.sub['kind']
        return self.kind

    def __repr__(self):
        return '<%s %s>' % (self.kind, self.text())


OPERATOR_FUNCS = {'add': ast.Add, 'iadd': ast.Add, 'sub': ast.Sub, 'isub': ast.Sub, 'mul': ast.Mult, 'imul': ast.Mult, 'mod': ast.Mod, 'imod': ast.Mod,
                  'floordiv': ast.FloorDiv, 'ifloordiv': ast.FloorDiv, 'and_': ast.BitAnd, 'iand': ast.BitAnd, 'or_': ast.BitOr, 'ior': ast.BitOr,
                  'xor': ast.BitXor, 'ixor': ast.BitXor, 'lshift': ast.LShift, 'ilshift': ast.LShift, 'rshift': ast.RShift, 'irshift': ast.RShift}


class Path:
    def __init__(self):
        self.guards = []
        self.effects = []
        self.end = None
        self.env = {}
        self.heap = {}
        self.loopdepth = 0

    def clone(self):
        p = Path()
        p.loopdepth = self.loopdepth
        p.guards = list(self.guards)
        p.effects = list(self.effects)
        p.end = self.end
        p.env = dict(self.env)
        p.heap = dict(self.heap)
        p.unbound = getattr(self, 'unbound', None)
        return p

    # ---- queries used by the rules
    def guard_texts(self, rename=None):
        out = []
        for g, pol in self.guards:
            out.append(canon(g if pol else negate(g), rename))
        return out

    def all_effects(self, into_loops=True):
        """effects in order; loops are flattened (body effects of every body path)"""
        for e in self.effects:
            yield e
            if into_loops and e.kind == 'loop':
                for bp in e.sub['body']:
                    for x in bp.all_effects(True):
                        yield x

    def calls(self, pred=None, into_loops=True):
        return [e for e in self.all_effects(into_loops)
                if e.kind in ('call', 'setattr') and (pred is None or pred(e))]

    def setattrs(self, into_loops=True):
        return [e for e in self.all_effects(into_loops) if e.kind == 'setattr']

    def stores(self, into_loops=True):
        return [e for e in self.all_effects(into_loops) if e.kind in ('store_attr', 'store_sub', 'setattr', 'del')]

    def raises(self):
        return self.end is not None and self.end[0] == 'raise'

    def returns(self):
        return self.end is not None and self.end[0] in ('return', 'fall')

    def ret(self):
        return self.end[1] if self.end and self.end[0] == 'return' else None

    def describe(self):
        return {'guards': self.guard_texts(),
                'effects': [e.text() for e in self.effects],
                'end': [self.end[0], canon(self.end[1]) if self.end and self.end[1] is not None else None]}


def phi(name, n):
    return ast.Name(id='%s@phi%d' % (name, n), ctx=ast.Load())


def _element(v, i):
    """v[i] for a constant i, looking through conditional expressions over displays"""
    if isinstance(v, ast.IfExp):
        return ast.IfExp(test=v.test, body=_element(v.body, i), orelse=_element(v.orelse, i))
    if isinstance(v, (ast.Tuple, ast.List)) and not any(isinstance(x, ast.Starred) for x in v.elts) and -len(v.elts) <= i < len(v.elts):
        return v.elts[i]
    return ast.Subscript(value=v, slice=ast.Constant(value=i), ctx=ast.Load())


def _same_self(bind_self, call):
    """the callee's ``self`` is the caller's: self.m(...) or Class.m(self, ...)"""
    if isinstance(bind_self, ast.Name) and bind_self.id == 'self':
        return True
    return bind_self is None and bool(call.args) and isinstance(call.args[0], ast.Name) and call.args[0].id == 'self'


def is_boolean_expr(e):
    """an expression whose value can only be True / False"""
    if isinstance(e, ast.Constant):
        return isinstance(e.value, bool)
    if isinstance(e, ast.Compare):
        return True
    if isinstance(e, ast.UnaryOp) and isinstance(e.op, ast.Not):
        return True
    if isinstance(e, ast.BoolOp):
        return all(is_boolean_expr(v) for v in e.values)
    if isinstance(e, ast.Call) and isinstance(e.func, ast.Name) and e.func.id in ('bool', 'isinstance', 'callable', 'hasattr', 'issubclass'):
        return True
    return False


def expand_star_dict(kws):
    """f(**{'a': x, 'b': y}) is f(a=x, b=y)"""
    out = []
    for k in kws:
        v = k.value
        if k.arg is None and isinstance(v, ast.Dict) and v.keys and all(
                isinstance(x, ast.Constant) and isinstance(x.value, str) and x.value.isidentifier() for x in v.keys):
            out.extend(ast.keyword(arg=x.value, value=y) for x, y in zip(v.keys, v.values))
        elif k.arg is None and isinstance(v, ast.Call) and isinstance(v.func, ast.Name) and v.func.id == 'dict' and len(v.args) <= 1 \
                and all(kk.arg is not None for kk in v.keywords) and not any(isinstance(a, ast.Starred) for a in v.args):
            # f(**dict(m, a=x)) is f(**m, a=x)   (a key of m that is given again would be replaced: the
            # names given explicitly are the parameters of the callee, which m -- the rest of the
            # keywords the caller itself received -- cannot contain)
            if v.args:
                out.append(ast.keyword(arg=None, value=v.args[0]))
            out.extend(ast.keyword(arg=kk.arg, value=kk.value) for kk in v.keywords)
        else:
            out.append(k)
    return out


def is_phi(e, name=None):
    return isinstance(e, ast.Name) and '@phi' in e.id and (name is None or e.id.startswith(name + '@phi'))


class Walker:
    def __init__(self, resolver=None, max_paths=4096, inline_depth=0, fold=None, tag=None, keep=None):
        self.resolver = resolver        # (call_expr, self_class) -> (FunctionDef, bound self expr, owner) | None
        self.max_paths = max_paths
        self.inline_depth = inline_depth
        self.fold = fold or (lambda e: None)     # expr -> True/False/None (constant guards)
        self._phi = itertools.count()
        self.cls = None
        self.self_cls = None
        self.items = {}                 # loop number -> iterable expression
        self.tag = tag                  # call expr -> short label: result becomes a unique symbol
        self.calltab = {}               # symbol id -> tagged call expression
        self._tagn = itertools.count(1)
        self.keep = set(keep or ())     # callee names that stay calls (never inlined)
        self.const_heap = {}            # canon('self.attr') -> defining expression (compile-time constants)
        self.read_heap = True           # attribute reads are replaced by the value stored earlier on the path
        self.split_ifexp = False        # fork the path at a conditional expression whose test is open

    # ------------------------------------------------------------------ API
    def paths(self, func, bind=None, cls=None, depth=0):
        """path summaries of ``func`` (FunctionDef / Lambda).  ``bind`` maps
        parameter names to argument expressions (used when inlining)."""
        self.cls = cls if cls is not None else self.cls
        self.self_cls = self.cls        # the class of the object ``self`` is (inlining a base method keeps it)
        self.module = getattr(func, '_module', None) or (getattr(self.cls, 'module', None) if self.cls is not None else None)
        st = Path()
        if bind:
            st.env.update(bind)
        if depth == 0 and isinstance(func, ast.FunctionDef):
            a = func.args
            params = {x.arg for x in a.posonlyargs + a.args + a.kwonlyargs} | ({a.vararg.arg} if a.vararg else set()) | ({a.kwarg.arg} if a.kwarg else set())
            stores, skip = set(), set()
            for n in ast.walk(func):
                if isinstance(n, (ast.FunctionDef, ast.Lambda, ast.ListComp, ast.SetComp, ast.DictComp, ast.GeneratorExp)) and n is not func:
                    skip |= {id(x) for x in ast.walk(n)}
                if isinstance(n, (ast.Global, ast.Nonlocal)):
                    params |= set(n.names)
            for n in ast.walk(func):
                if isinstance(n, ast.Name) and isinstance(n.ctx, ast.Store) and id(n) not in skip:
                    stores.add(n.id)
            # names the walker itself does not bind by plain assignment are left alone
            for n in ast.walk(func):
                if isinstance(n, (ast.For, ast.With, ast.ExceptHandler, ast.While, ast.Try, ast.AugAssign, ast.Delete, ast.NamedExpr, ast.Import, ast.ImportFrom)):
                    for x in ast.walk(n):
                        if isinstance(x, ast.Name) and isinstance(x.ctx, (ast.Store, ast.Del)):
                            stores.discard(x.id)
                    if isinstance(n, ast.ExceptHandler) and n.name:
                        stores.discard(n.name)
            self.fn_locals = stores - params
        if isinstance(func, ast.Lambda):
            v = self.ev(func.body, st, depth)
            st.end = ('return', v)
            return [st]
        outs = self.block(func.body, st, depth)
        res = []
        for p, status in outs:
            p.end = status if status is not None else ('fall', None)
            res.append(p)
        return res

    def block_paths(self, stmts, bind=None, depth=0):
        st = Path()
        if bind:
            st.env.update(bind)
        res = []
        for p, status in self.block(stmts, st, depth):
            p.end = status if status is not None else ('fall', None)
            res.append(p)
        return res

    # ------------------------------------------------------------ statements
    def block(self, stmts, st, depth):
        """returns list of (Path, status) where status None = completed normally"""
        live = [(st, None)]
        for s in stmts:
            nxt = []
            for p, status in live:
                if status is not None:
                    nxt.append((p, status))
                else:
                    nxt.extend(self.stmt(s, p, depth))
            live = nxt
            if len(live) > self.max_paths:
                raise Undecided('path bound %d exceeded at line %d' % (self.max_paths, getattr(s, 'lineno', 0)))
        return live

    def stmt(self, s, st, depth):
        if self.split_ifexp and isinstance(s, (ast.Assign, ast.AugAssign, ast.Return, ast.Expr, ast.AnnAssign)):
            sp = self._split_on_ifexp(s, st, depth)
            if sp is not None:
                return sp
        m = getattr(self, 's_' + type(s).__name__, None)
        if m is None:
            raise Undecided('statement kind %s not supported (line %d)' % (type(s).__name__, s.lineno))
        outs = m(s, st, depth)
        if getattr(self, 'unbound_raises', False) and depth == 0:
            # a local read before any assignment on this path: UnboundLocalError
            fixed = []
            for p, status in outs:
                ub = getattr(p, 'unbound', None)
                if ub is not None and (status is None or status[0] in ('return',)):
                    p.unbound = None
                    status = ('raise', ast.Call(func=ast.Name(id='UnboundLocalError', ctx=ast.Load()), args=[ast.Constant(value=ub)], keywords=[]))
                fixed.append((p, status))
            outs = fixed
        return outs

    def _split_on_ifexp(self, s, st, depth):
        """``x = f(a if c else b)`` is walked as ``if c: x = f(a) else: x = f(b)`` when c is a pure
        test that this path has not decided yet: value-level conditionals become path guards"""
        value = getattr(s, 'value', None)
        if value is None:
            return None
        if self.const_heap and getattr(s, '_heap_expanded', 0) < 8:
            # a compile-time constant that is itself a conditional (self.kept = n if flag else 0)
            # is read as that conditional, so that its test becomes a path guard too
            hits = [n for n in _unconditional_nodes(value) if isinstance(n, ast.Attribute) and isinstance(n.ctx, ast.Load) and isinstance(n.value, ast.Name)
                    and ('%s.%s' % (n.value.id, n.attr)) in self.const_heap
                    and any(isinstance(x, ast.IfExp) for x in ast.walk(self.const_heap['%s.%s' % (n.value.id, n.attr)]))]
            if hits:
                n = hits[0]
                s2 = _copy_replacing(s, n, copy.deepcopy(self.const_heap['%s.%s' % (n.value.id, n.attr)]))
                s2._heap_expanded = getattr(s, '_heap_expanded', 0) + 1
                return self.stmt(s2, st, depth)
        target = None
        for n in _unconditional_nodes(value):
            if isinstance(n, ast.IfExp) and _pure_test(n.test):
                target = n
                break
        if target is None:
            # a lookup in a constant table of the module is the chain of conditionals it stands for:
            # T.get(key) with T = {'a': x, 'b': y}   is   x if key == 'a' else (y if key == 'b' else None)
            chain = self._table_lookup_chain(value, st)
            if chain is not None:
                node, repl = chain
                return self.stmt(_copy_replacing(s, node, repl), st, depth)
            return None

        # two copies of the statement, each with one arm in place of the conditional
        def with_arm(arm):
            return _copy_replacing(s, target, arm)
        new = ast.If(test=target.test, body=[with_arm(target.body)], orelse=[with_arm(target.orelse)])
        ast.copy_location(new, s)
        ast.fix_missing_locations(new)
        return self.s_If(new, st, depth)

    def _table_lookup_chain(self, value, st):
        tables = getattr(self, 'module_tables', None)
        mod = getattr(self, 'module', None)
        if tables is None or mod is None:
            return None
        tabs0 = tables(mod)
        for n in _unconditional_nodes(value):
            tabs = tabs0
            name = key = default = None
            if isinstance(n, ast.Call) and isinstance(n.func, ast.Attribute) and n.func.attr == 'get' and isinstance(n.func.value, ast.Name) \
                    and 1 <= len(n.args) <= 2 and not n.keywords:
                name, key = n.func.value.id, n.args[0]
                default = n.args[1] if len(n.args) == 2 else ast.Constant(value=None)
            elif isinstance(n, ast.Subscript) and isinstance(n.value, ast.Name) and isinstance(n.ctx, ast.Load) and not isinstance(n.slice, ast.Slice):
                name, key = n.value.id, n.slice
            ctabs = getattr(self, 'class_tables', None)
            scls = getattr(self, 'self_cls', None) or self.cls
            def class_table(e):
                if ctabs is not None and scls is not None and isinstance(e, ast.Attribute) and isinstance(e.value, ast.Name) and e.value.id in ('self', 'cls') and hasattr(scls, 'node'):
                    return ctabs(scls).get(e.attr)
                return None
            d_direct = None
            if name is None and isinstance(n, ast.Call) and isinstance(n.func, ast.Attribute) and n.func.attr == 'get' and 1 <= len(n.args) <= 2 and not n.keywords:
                d_direct = class_table(n.func.value)
                if d_direct is not None:
                    key = n.args[0]
                    default = n.args[1] if len(n.args) == 2 else ast.Constant(value=None)
                    name = '<class table %s>' % n.func.value.attr
            if name is not None and d_direct is None and name in st.env:
                ev = st.env[name]
                if isinstance(ev, ast.Name) and ev.id in tabs and ev.id not in st.env:
                    name = ev.id          # a local alias of the table
                elif class_table(ev) is not None:
                    d_direct = class_table(ev)
                    name = '<class table %s>' % ev.attr
            if d_direct is not None:
                if isinstance(key, ast.Constant) or not _pure_test(key):
                    continue
                tabs = dict(tabs)
                tabs[name] = d_direct
            if name is None or name not in tabs or name in st.env or isinstance(key, ast.Constant) or not _pure_test(key):
                continue
            d = tabs[name]
            if default is None:
                # T[key]: the residual lookup stands for "none of the keys" (KeyError)
                default = ast.Subscript(value=ast.Name(id='<no such key in %s>' % name, ctx=ast.Load()), slice=copy.deepcopy(key), ctx=ast.Load())
            expr = default
            for k, v in reversed(list(zip(d.keys, d.values))):
                test = ast.Compare(left=copy.deepcopy(key), ops=[ast.Eq()], comparators=[copy.deepcopy(k)])
                expr = ast.IfExp(test=test, body=copy.deepcopy(v), orelse=expr)
            ast.copy_location(expr, n)
            ast.fix_missing_locations(expr)
            return n, expr
        return None

    def s_Pass(self, s, st, d): return [(st, None)]
    def s_Global(self, s, st, d): return [(st, None)]
    def s_Nonlocal(self, s, st, d): return [(st, None)]

    def s_Import(self, s, st, d):
        for a in s.names:
            nm = (a.asname or a.name).split('.')[0]
            st.env.pop(nm, None)
        return [(st, None)]

    s_ImportFrom = s_Import

    def s_FunctionDef(self, s, st, d):
        st.env[s.name] = ast.Name(id='<def %s@%d>' % (s.name, s.lineno), ctx=ast.Load())
        return [(st, None)]

    def s_ClassDef(self, s, st, d):
        st.env[s.name] = ast.Name(id='<class %s@%d>' % (s.name, s.lineno), ctx=ast.Load())
        return [(st, None)]

    def _local_list_mutation(self, call, st, d):
        """``xs.append(v)`` / ``xs.insert(0, v)`` / ``xs.extend([..])`` on a local that still holds the
        list display it was created with: the display is updated (the call effect is recorded too)"""
        f = call.func
        if isinstance(f, ast.Attribute) and isinstance(f.value, ast.Name) and f.attr == 'reverse' and not call.args and not call.keywords and not st.loopdepth:
            # xs = list(E); xs.reverse()   is   xs = list(reversed(E))
            cur = st.env.get(f.value.id)
            if isinstance(cur, ast.List):
                st.env[f.value.id] = ast.List(elts=list(reversed(cur.elts)), ctx=ast.Load())
            elif isinstance(cur, ast.Call) and isinstance(cur.func, ast.Name) and cur.func.id == 'list' and len(cur.args) == 1 and not cur.keywords:
                inner = cur.args[0]
                if isinstance(inner, ast.Call) and isinstance(inner.func, ast.Name) and inner.func.id == 'reversed' and len(inner.args) == 1:
                    new = inner.args[0]
                else:
                    new = ast.Call(func=ast.Name(id='reversed', ctx=ast.Load()), args=[inner], keywords=[])
                st.env[f.value.id] = ast.Call(func=ast.Name(id='list', ctx=ast.Load()), args=[new], keywords=[])
            return
        if not (isinstance(f, ast.Attribute) and isinstance(f.value, ast.Name) and f.attr in ('append', 'insert', 'extend')):
            return
        name = f.value.id
        cur = st.env.get(name)
        if not isinstance(cur, ast.List) or call.keywords or st.loopdepth:
            return
        args = [self._ev_symbolic(a, st, d) for a in call.args]
        if any(a is None for a in args):
            st.env[name] = ast.Name(id='%s@mutated%d' % (name, getattr(call, 'lineno', 0)), ctx=ast.Load())
            return
        # heap reads of the arguments (values stored on local objects) as the normal evaluation sees them
        args = [self.ev(a, st.clone(), d) for a in call.args]
        elts = list(cur.elts)
        if f.attr == 'append' and len(args) == 1:
            elts.append(args[0])
        elif f.attr == 'insert' and len(args) == 2 and isinstance(args[0], ast.Constant) and isinstance(args[0].value, int) and 0 <= args[0].value <= len(elts):
            elts.insert(args[0].value, args[1])
        elif f.attr == 'extend' and len(args) == 1 and isinstance(args[0], (ast.List, ast.Tuple)):
            elts.extend(args[0].elts)
        else:
            st.env[name] = ast.Name(id='%s@mutated%d' % (name, getattr(call, 'lineno', 0)), ctx=ast.Load())
            return
        st.env[name] = ast.List(elts=elts, ctx=ast.Load())

    def s_Expr(self, s, st, d):
        if isinstance(s.value, ast.Call):
            new_env_for = s.value
            inl = self.try_inline_stmt(s.value, st, d)
            if inl is not None:
                return [(p, None if status is None or status[0] in ('return', 'fall') else status)
                        for p, status, _ in inl]
        if isinstance(s.value, (ast.Yield, ast.YieldFrom)):
            v = self.ev(s.value.value, st, d) if s.value.value is not None else None
            st.effects.append(Eff('yield', s, value=v, depth=d))
            return [(st, None)]
        saved_env = st.env.get(s.value.func.value.id) if isinstance(s.value, ast.Call) and isinstance(s.value.func, ast.Attribute) and isinstance(s.value.func.value, ast.Name) else None
        self.ev(s.value, st, d)
        if isinstance(s.value, ast.Call) and (isinstance(saved_env, ast.List) or (isinstance(saved_env, ast.Call) and s.value.func.attr == 'reverse')):
            st.env[s.value.func.value.id] = saved_env
            self._local_list_mutation(s.value, st, d)
        return [(st, None)]

    def s_Return(self, s, st, d):
        if isinstance(s.value, ast.Call):
            inl = self.try_inline_stmt(s.value, st, d)
            if inl is not None:
                out = []
                for p, status, val in inl:
                    if status is not None and status[0] == 'raise':
                        out.append((p, status))
                    else:
                        out.append((p, ('return', val)))
                return out
        v = self.ev(s.value, st, d) if s.value is not None else None
        return [(st, ('return', v))]

    def s_Raise(self, s, st, d):
        v = self.ev(s.exc, st, d) if s.exc is not None else None
        return [(st, ('raise', v))]

    def s_Break(self, s, st, d): return [(st, ('break', None))]
    def s_Continue(self, s, st, d): return [(st, ('continue', None))]

    def s_Delete(self, s, st, d):
        for t in s.targets:
            if isinstance(t, ast.Name):
                st.env.pop(t.id, None)
            else:
                te = self.ev_target(t, st, d)
                st.effects.append(Eff('del', s, obj=te, depth=d))
                st.heap.pop(canon(te), None)
        return [(st, None)]

    def s_Assert(self, s, st, d):
        if getattr(self, 'strip_asserts', False):
            return [(st, None)]          # the reading of python -O: the statement does not exist
        t = self.ev(s.test, st, d)
        known = self.truth(t, st)
        out = []
        if known is not False:
            ok = st.clone() if known is None else st
            if known is None:
                ok.guards.append((t, True))
            out.append((ok, None))
        if known is not True:
            bad = st if known is False else st.clone()
            if known is None:
                bad.guards.append((t, False))
            out.append((bad, ('raise', ast.Call(func=ast.Name(id='AssertionError', ctx=ast.Load()), args=[], keywords=[]))))
        return out

    def s_Assign(self, s, st, d):
        if isinstance(s.value, ast.Call) and len(s.targets) == 1:
            inl = self.try_inline_stmt(s.value, st, d)
            if inl is not None:
                out = []
                for p, status, val in inl:
                    if status is not None and status[0] == 'raise':
                        out.append((p, status))
                    else:
                        self.assign(s.targets[0], val if val is not None else ast.Constant(value=None), p, d, s)
                        out.append((p, None))
                return out
        # element-wise tuple assignment keeps evaluation order: all rhs first
        v = self.ev(s.value, st, d)
        for t in s.targets:
            self.assign(t, v, st, d, s)
        return [(st, None)]

    def s_AnnAssign(self, s, st, d):
        if s.value is not None:
            v = self.ev(s.value, st, d)
            self.assign(s.target, v, st, d, s)
        return [(st, None)]

    def s_AugAssign(self, s, st, d):
        t = s.target
        cur = self.ev(_load(t), st, d)
        v = self.ev(s.value, st, d)
        new = ast.BinOp(left=cur, op=s.op, right=v)
        self.assign(t, new, st, d, s)
        return [(st, None)]

    def assign(self, t, v, st, d, node):
        if isinstance(t, ast.Name):
            st.env[t.id] = v
        elif isinstance(t, (ast.Tuple, ast.List)):
            if isinstance(v, (ast.Tuple, ast.List)) and len(v.elts) == len(t.elts) \
                    and not any(isinstance(x, ast.Starred) for x in list(v.elts) + list(t.elts)):
                for tt, vv in zip(t.elts, v.elts):
                    self.assign(tt, vv, st, d, node)
            else:
                stars = [i for i, tt in enumerate(t.elts) if isinstance(tt, ast.Starred)]
                literal = isinstance(v, (ast.Tuple, ast.List)) and not any(isinstance(x, ast.Starred) for x in v.elts)
                if len(stars) == 1:
                    # a, *rest, z = v
                    k = stars[0]
                    after = len(t.elts) - k - 1
                    if literal and len(v.elts) >= len(t.elts) - 1:
                        n = len(v.elts)
                        for tt, vv in zip(t.elts[:k], v.elts[:k]):
                            self.assign(tt, vv, st, d, node)
                        self.assign(t.elts[k].value, ast.List(elts=list(v.elts[k:n - after]), ctx=ast.Load()), st, d, node)
                        for tt, vv in zip(t.elts[k + 1:], v.elts[n - after:]):
                            self.assign(tt, vv, st, d, node)
                    else:
                        for i, tt in enumerate(t.elts[:k]):
                            self.assign(tt, ast.Subscript(value=v, slice=ast.Constant(value=i), ctx=ast.Load()), st, d, node)
                        hi = ast.Constant(value=-after) if after else None
                        self.assign(t.elts[k].value, ast.Subscript(value=v, slice=ast.Slice(lower=ast.Constant(value=k) if k else None, upper=hi), ctx=ast.Load()), st, d, node)
                        for j, tt in enumerate(t.elts[k + 1:]):
                            self.assign(tt, ast.Subscript(value=v, slice=ast.Constant(value=j - after), ctx=ast.Load()), st, d, node)
                else:
                    rawv = None
                    if isinstance(node, ast.Assign) and len(node.targets) == 1 and node.targets[0] is t:
                        rawv = self._ev_symbolic(node.value, st, d)
                    for i, tt in enumerate(t.elts):
                        if isinstance(tt, ast.Starred):
                            raise Undecided('two starred targets (line %d)' % node.lineno)
                        self.assign(tt, _element(v, i), st, d, node)
                        if rawv is not None and isinstance(tt, ast.Attribute) and st.effects and st.effects[-1].kind == 'store_attr' and st.effects[-1].name == tt.attr:
                            st.effects[-1].raw = _element(rawv, i)
        elif isinstance(t, ast.Attribute):
            obj = self.ev(t.value, st, d)
            eff = Eff('store_attr', node, obj=obj, name=t.attr, value=v, depth=d)
            if isinstance(node, ast.Assign) and len(node.targets) == 1 and node.targets[0] is t:
                eff.raw = self._ev_symbolic(node.value, st, d)
            st.effects.append(eff)
            st.heap[canon(ast.Attribute(value=obj, attr=t.attr, ctx=ast.Load()))] = v
        elif isinstance(t, ast.Subscript):
            obj = self.ev(t.value, st, d)
            idx = self.ev(t.slice, st, d)
            st.effects.append(Eff('store_sub', node, obj=obj, name=idx, value=v, depth=d))
            st.heap[canon(ast.Subscript(value=obj, slice=idx, ctx=ast.Load()))] = v
        else:
            raise Undecided('assignment target %s not supported (line %d)' % (type(t).__name__, node.lineno))

    def ev_target(self, t, st, d):
        if isinstance(t, ast.Attribute):
            return ast.Attribute(value=self.ev(t.value, st, d), attr=t.attr, ctx=ast.Load())
        if isinstance(t, ast.Subscript):
            return ast.Subscript(value=self.ev(t.value, st, d), slice=self.ev(t.slice, st, d), ctx=ast.Load())
        return self.ev(t, st, d)

    def s_If(self, s, st, d):
        if getattr(self, 'split_bool', False) and isinstance(s.test, ast.BoolOp) and len(s.test.values) >= 2:
            # if a or b: X else: Y   is   if a: X elif b: X else: Y      (and dually for ``and``)
            first, rest = s.test.values[0], s.test.values[1:]
            rest_t = rest[0] if len(rest) == 1 else ast.BoolOp(op=s.test.op, values=rest)
            if isinstance(s.test.op, ast.Or):
                inner = ast.If(test=rest_t, body=s.body, orelse=s.orelse)
                new = ast.If(test=first, body=s.body, orelse=[inner])
            else:
                inner = ast.If(test=rest_t, body=s.body, orelse=s.orelse)
                new = ast.If(test=first, body=[inner], orelse=s.orelse)
            ast.copy_location(inner, s)
            ast.copy_location(new, s)
            return self.s_If(new, st, d)
        t = self.ev(s.test, st, d)
        known = self.truth(t, st)
        out = []
        if known is not False:
            a = st.clone() if known is None else st
            if known is None:
                a.guards.append((t, True))
            out.extend(self.block(s.body, a, d))
        if known is not True:
            b = st
            if known is None:
                b.guards.append((t, False))
            out.extend(self.block(s.orelse, b, d))
        return out

    def truth(self, t, st):
        """True/False when the test is decided on this path, else None"""
        if isinstance(t, ast.Constant):
            return bool(t.value)
        c = const_truth(t)
        if c is not None:
            return c
        f = self.fold(t)
        if f is not None:
            return f
        if isinstance(t, ast.UnaryOp) and isinstance(t.op, ast.Not) and getattr(self, '_truth_depth', 0) < 3:
            self._truth_depth = getattr(self, '_truth_depth', 0) + 1
            try:
                inner = self.truth(t.operand, st)
            finally:
                self._truth_depth -= 1
            if inner is not None:
                return not inner
        # a conjunction with a conjunct known false is false, a disjunction with one known true is
        # true (the order of evaluation does not matter for the truth value of tests without effects)
        if isinstance(t, ast.BoolOp) and getattr(self, '_truth_depth', 0) < 3:
            self._truth_depth = getattr(self, '_truth_depth', 0) + 1
            try:
                vals = [self.truth(v, st) for v in t.values]
            finally:
                self._truth_depth -= 1
            if isinstance(t.op, ast.And):
                if any(v is False for v in vals):
                    return False
                if all(v is True for v in vals):
                    return True
            else:
                if any(v is True for v in vals):
                    return True
                if all(v is False for v in vals):
                    return False
        if isinstance(t, ast.Compare) and len(t.ops) == 1 and isinstance(t.left, ast.Constant) and isinstance(t.comparators[0], ast.Constant) \
                and isinstance(t.ops[0], (ast.Eq, ast.NotEq, ast.Lt, ast.LtE, ast.Gt, ast.GtE)):
            try:
                a_, b_ = t.left.value, t.comparators[0].value
                return {ast.Eq: a_ == b_, ast.NotEq: a_ != b_, ast.Lt: a_ < b_, ast.LtE: a_ <= b_, ast.Gt: a_ > b_, ast.GtE: a_ >= b_}[type(t.ops[0])]
            except TypeError:
                pass
        ct = canon(t)
        nt = canon(negate(t))
        for g, pol in st.guards:
            cg = canon(g if pol else negate(g))
            if cg == ct:
                return True
            if cg == nt:
                return False
        # ``E is None`` / ``E is not None`` where this path already knows isinstance(E, <class>):
        # an instance of a class is not None
        if isinstance(t, ast.Compare) and len(t.ops) == 1 and isinstance(t.ops[0], (ast.Is, ast.IsNot)) and isinstance(t.comparators[0], ast.Constant) \
                and t.comparators[0].value is None:
            subj = canon(t.left)
            for g0, pol in st.guards:
                # a value that tested true on this path is not None
                if canon(g0 if pol else negate(g0)) == subj:
                    return isinstance(t.ops[0], ast.IsNot)
            for g0, pol in st.guards:
                g = g0 if pol else negate(g0)
                if isinstance(g, ast.Call) and isinstance(g.func, ast.Name) and g.func.id == 'isinstance' and len(g.args) == 2 and canon(g.args[0]) == subj \
                        and 'NoneType' not in canon(g.args[1]) and 'type(None)' not in canon(g.args[1]):
                    return isinstance(t.ops[0], ast.IsNot)
        return None

    def s_With(self, s, st, d):
        for item in s.items:
            v = self.ev(item.context_expr, st, d)
            if item.optional_vars is not None:
                self.assign(item.optional_vars, v, st, d, s)
        return self.block(s.body, st, d)

    def s_Try(self, s, st, d):
        entry = st.clone()
        out = []
        body_out = self.block(s.body, st, d)
        assigned = _assigned_names(s.body)
        if len(s.body) == 1 and isinstance(s.body[0], (ast.Assign, ast.AugAssign, ast.AnnAssign, ast.Expr, ast.Return)):
            # a single simple statement: the exception is raised while its right-hand
            # side is evaluated, i.e. before the assignment happens
            assigned = set()
        for p, status in body_out:
            if status is None and s.orelse:
                out.extend(self.block(s.orelse, p, d))
            else:
                out.append((p, status))
        for h in s.handlers:
            hp = entry.clone()
            for n in assigned:
                hp.env[n] = ast.Name(id='%s@havoc%d' % (n, s.lineno), ctx=ast.Load())
            hp.heap.clear()
            tname = unparse(h.type) if h.type is not None else 'BaseException'
            hp.guards.append((ast.Call(func=ast.Name(id='caught', ctx=ast.Load()),
                                       args=[ast.Constant(value=tname), ast.Constant(value=s.lineno)],
                                       keywords=[]), True))
            hp.effects.append(Eff('try_partial', s, sub={'body': [p for p, _ in body_out], 'stmts': s.body}, depth=d))
            if h.name:
                hp.env[h.name] = ast.Name(id='%s@exc%d' % (h.name, s.lineno), ctx=ast.Load())
            out.extend(self.block(h.body, hp, d))
        if s.finalbody:
            fin = []
            for p, status in out:
                for q, st2 in self.block(s.finalbody, p, d):
                    fin.append((q, st2 if st2 is not None else status))
            out = fin
        return out

    def _loop(self, s, st, d, kind, target, itr, test):
        assigned = sorted(_assigned_names(s.body) | (_target_names(target) if target is not None else set()))
        n = next(self._phi)
        self.items[n] = itr
        entry = {a: st.env.get(a) for a in assigned}       # values of the carried names before the loop
        body_st = Path()
        body_st.loopdepth = st.loopdepth + 1
        body_st.env = dict(st.env)
        body_st.guards = []
        for a in assigned:
            body_st.env[a] = phi(a, n)
        # attributes stored in the body are loop-carried too: forget the heap
        body_st.heap = {}
        test_e = None
        if test is not None:
            test_e = self.ev(test, body_st, d)
        if target is not None:
            self.assign(target, ast.Name(id='<item of %s>' % n, ctx=ast.Load()), body_st, d, s)
        body = []
        for p, status in self.block(s.body, body_st, d):
            p.end = status if status is not None else ('fall', None)
            body.append(p)
        st.effects.append(Eff('loop', s, sub={'kind': kind, 'target': target, 'iter': itr, 'test': test_e,
                                              'body': body, 'phi': n, 'carried': assigned, 'entry': entry}, depth=d))
        for a in assigned:
            st.env[a] = ast.Name(id='%s@phi%dout' % (a, n), ctx=ast.Load())
        st.heap.clear()
        outs = []
        # a return / raise inside the body ends the function on that path
        for p in body:
            if p.end[0] in ('return', 'raise'):
                q = st.clone()
                q.guards.append((ast.Name(id='<in loop %d>' % n, ctx=ast.Load()), True))
                q.guards.extend(p.guards)
                outs.append((q, p.end))
        if s.orelse:
            outs.extend(self.block(s.orelse, st, d))
        else:
            outs.append((st, None))
        return outs

    def s_For(self, s, st, d):
        itr = self.ev(s.iter, st, d)
        if isinstance(itr, (ast.Tuple, ast.List)) and 0 < len(itr.elts) <= 6 and not any(isinstance(x, ast.Starred) for x in itr.elts) and not st.loopdepth:
            return self._unrolled(s, st, d, itr.elts)
        # a module-level table (a display bound once, never mutated): the same thing as the display
        seqs = getattr(self, 'module_sequences', None)
        if seqs is not None and isinstance(itr, ast.Name) and isinstance(s.iter, ast.Name) and self.module and not st.loopdepth:
            try:
                tab = seqs(self.module).get(itr.id)
            except KeyError:
                tab = None
            if tab is not None and all(isinstance(x, (ast.Tuple, ast.List, ast.Constant)) for x in tab.elts):
                return self._unrolled(s, st, d, tab.elts)
        return self._loop(s, st, d, 'for', s.target, itr, None)

    def _unrolled(self, s, st, d, elts):
        """a loop over a literal tuple / list display is its body once per element, in order"""
        live, done = [(st, None)], []
        for x in elts:
            nxt = []
            for p, status in live:
                self.assign(s.target, copy.deepcopy(x), p, d, s)
                for q, st2 in self.block(s.body, p, d):
                    if st2 is None or st2[0] == 'continue':
                        nxt.append((q, None))
                    elif st2[0] == 'break':
                        done.append((q, ('broken', None)))
                    else:
                        done.append((q, st2))
            live = nxt
            if len(live) + len(done) > self.max_paths:
                raise Undecided('path bound %d exceeded while unrolling the loop at line %d' % (self.max_paths, s.lineno))
        out = []
        for p, status in live:
            if s.orelse:
                out.extend(self.block(s.orelse, p, d))
            else:
                out.append((p, None))
        for p, status in done:
            out.append((p, None if status[0] == 'broken' else status))
        return out

    def s_While(self, s, st, d):
        return self._loop(s, st, d, 'while', None, None, s.test)

    # ----------------------------------------------------------- expressions
    def ev(self, e, st, d, cond=False):
        """substitute locals, record call effects in evaluation order"""
        if e is None:
            return None
        return _Ev(self, st, d).run(e, cond)

    def _ev_symbolic(self, e, st, d):
        """the expression with locals substituted but attribute reads left as they are written
        (no effects recorded)"""
        tmp = st.clone()
        saved = self.read_heap, self.const_heap, self.inline_depth
        self.read_heap, self.const_heap, self.inline_depth = False, {}, 0
        try:
            return self.ev(e, tmp, d)
        except Undecided:
            return None
        finally:
            self.read_heap, self.const_heap, self.inline_depth = saved

    # --------------------------------------------------------------- inlining
    def try_inline_stmt(self, call, st, d):
        """statement-level call to a repository function: fork on its paths.
        returns list of (Path, status, value) or None when not inlined"""
        if self.resolver is None or d >= self.inline_depth:
            return None
        if (call_name(call) or '').split('.')[-1] in self.keep:
            return None
        # a method value parked in an attribute by the compile phase: call what it holds
        k_ = canon(call.func) if isinstance(call.func, ast.Attribute) else None
        if k_ is not None and k_ in self.const_heap and isinstance(self.const_heap[k_], ast.Attribute):
            call = ast.copy_location(ast.Call(func=copy.deepcopy(self.const_heap[k_]), args=call.args, keywords=call.keywords), call)
        r = self.resolver(call, self.cls, st)
        if r is None:
            return None
        func, bind_self, owner = r
        argmap = self.bind_args(func, call, st, d, bind_self)
        if argmap is None:
            return None
        saved_cls, saved_self = self.cls, getattr(self, 'self_cls', None)
        self.cls = owner if owner is not None else self.cls
        if not _same_self(bind_self, call):
            self.self_cls = self.cls
        sub = Path()
        sub.env = argmap
        try:
            res = self.block(func.body, sub, d + 1)
        finally:
            self.cls, self.self_cls = saved_cls, saved_self
        out = []
        for p, status in res:
            q = st.clone()
            q.guards.extend(p.guards)
            q.effects.extend(p.effects)
            q.heap.clear()
            val = None
            if status is not None and status[0] == 'return':
                val = status[1]
            out.append((q, status, val))
        return out

    def bind_args(self, func, call, st, d, bind_self):
        a = func.args
        params = [x.arg for x in a.posonlyargs + a.args]
        env = {}
        pos = []
        for x in call.args:
            if isinstance(x, ast.Starred):
                return None
            pos.append(self.ev(x, st, d))
        if bind_self is not None:
            pos = [bind_self] + pos
        if len(pos) > len(params) and a.vararg is None:
            return None
        for p, v in zip(params, pos):
            env[p] = v
        if a.vararg is not None:
            env[a.vararg.arg] = ast.Tuple(elts=pos[len(params):], ctx=ast.Load())
        extra_kw = []
        for k in call.keywords:
            if k.arg is None:
                extra_kw.append(self.ev(k.value, st, d))
                continue
            v = self.ev(k.value, st, d)
            if k.arg in params or k.arg in [x.arg for x in a.kwonlyargs]:
                env[k.arg] = v
            elif a.kwarg is None:
                return None
        defaults = dict(zip(params[len(params) - len(a.defaults):], a.defaults))
        for x, dv in zip(a.kwonlyargs, a.kw_defaults):
            if dv is not None:
                defaults[x.arg] = dv
        for p in params + [x.arg for x in a.kwonlyargs]:
            if p not in env:
                if p in defaults:
                    env[p] = copy.deepcopy(defaults[p])
                elif extra_kw:
                    env[p] = ast.Subscript(value=extra_kw[0], slice=ast.Constant(value=p), ctx=ast.Load())
                else:
                    return None
        if a.kwarg is not None:
            env[a.kwarg.arg] = extra_kw[0] if len(extra_kw) == 1 else ast.Name(id='<kwargs>', ctx=ast.Load())
        return env


def const_truth(t):
    """truth value of a test built from constants with not / and / or (None when unknown)"""
    if isinstance(t, ast.Constant):
        return bool(t.value)
    if isinstance(t, ast.UnaryOp) and isinstance(t.op, ast.Not):
        v = const_truth(t.operand)
        return None if v is None else not v
    if isinstance(t, ast.BoolOp):
        vals = [const_truth(v) for v in t.values]
        if isinstance(t.op, ast.Or):
            # left to right: a true operand decides when everything before it is false
            for v in vals:
                if v is True:
                    return True
                if v is None:
                    return None
            return False
        for v in vals:
            if v is False:
                return False
            if v is None:
                return None
        return True
    if isinstance(t, (ast.List, ast.Tuple, ast.Dict, ast.Set)):
        n = len(t.elts) if not isinstance(t, ast.Dict) else len(t.keys)
        return n > 0
    if isinstance(t, ast.Lambda):
        return True
    if isinstance(t, ast.Call) and isinstance(t.func, ast.Name) and t.args and isinstance(t.args[0], ast.Lambda):
        if t.func.id == 'callable':
            return True
        if t.func.id == 'isinstance' and len(t.args) == 2:
            names = {n.id for n in ast.walk(t.args[1]) if isinstance(n, ast.Name)} | {n.attr for n in ast.walk(t.args[1]) if isinstance(n, ast.Attribute)}
            if not names & {'FunctionType', 'LambdaType', 'Callable', 'object'}:
                return False
    if isinstance(t, ast.Compare) and len(t.ops) == 1 and isinstance(t.ops[0], (ast.Eq, ast.NotEq, ast.Is, ast.IsNot)):
        a, b = t.left, t.comparators[0]
        for x, y in ((a, b), (b, a)):
            if isinstance(x, ast.Constant) and x.value is None and _never_none(y):
                return isinstance(t.ops[0], (ast.NotEq, ast.IsNot))
    if isinstance(t, ast.Compare) and len(t.ops) == 1 and isinstance(t.left, ast.Constant) and isinstance(t.comparators[0], ast.Constant):
        a, b, op = t.left.value, t.comparators[0].value, t.ops[0]
        if isinstance(op, ast.Is):
            return a is b if (a is None or b is None or isinstance(a, bool) or isinstance(b, bool)) else None
        if isinstance(op, ast.IsNot):
            return a is not b if (a is None or b is None or isinstance(a, bool) or isinstance(b, bool)) else None
        if isinstance(op, ast.Eq):
            return a == b
        if isinstance(op, ast.NotEq):
            return a != b
        num = lambda x: isinstance(x, (int, float)) and not isinstance(x, bool)
        if num(a) and num(b):
            if isinstance(op, ast.Lt): return a < b
            if isinstance(op, ast.LtE): return a <= b
            if isinstance(op, ast.Gt): return a > b
            if isinstance(op, ast.GtE): return a >= b
    return None


def _copy_replacing(node, old, new):
    """deep copy of ``node`` in which the sub-node ``old`` (by identity) is ``new``"""
    if node is old:
        return new
    if isinstance(node, ast.AST):
        c = copy.copy(node)
        for f, v in ast.iter_fields(node):
            if isinstance(v, ast.AST):
                setattr(c, f, _copy_replacing(v, old, new))
            elif isinstance(v, list):
                setattr(c, f, [_copy_replacing(x, old, new) for x in v])
        return c
    return node


def _unconditional_nodes(e):
    """sub-expressions that are evaluated whenever ``e`` is (not inside the later operands of
    and / or, the arms of another conditional, a lambda or a comprehension)"""
    yield e
    if isinstance(e, ast.BoolOp):
        yield from _unconditional_nodes(e.values[0])
    elif isinstance(e, ast.IfExp):
        yield from _unconditional_nodes(e.test)
    elif isinstance(e, (ast.Lambda, ast.ListComp, ast.SetComp, ast.DictComp, ast.GeneratorExp)):
        return
    else:
        for f, v in ast.iter_fields(e):
            if isinstance(v, ast.AST):
                yield from _unconditional_nodes(v)
            elif isinstance(v, list):
                for x in v:
                    if isinstance(x, ast.AST):
                        yield from _unconditional_nodes(x)


def _pure_test(t):
    for n in ast.walk(t):
        if isinstance(n, ast.Call) and not (isinstance(n.func, ast.Name) and n.func.id in ('isinstance', 'callable', 'hasattr', 'len')):
            return False
        if isinstance(n, (ast.NamedExpr, ast.Await, ast.Yield, ast.YieldFrom, ast.Lambda)):
            return False
    return True


_STR_METHODS = {'hexdigest', 'digest', 'encode', 'decode', 'join', 'format', 'lower', 'upper', 'strip', 'replace'}


def _never_none(e):
    """an expression whose value cannot be None (a text / number / display / digest)"""
    if isinstance(e, ast.Constant):
        return e.value is not None
    if isinstance(e, (ast.JoinedStr, ast.List, ast.Tuple, ast.Dict, ast.Set, ast.ListComp, ast.DictComp, ast.SetComp, ast.BinOp, ast.Lambda)):
        return True
    if isinstance(e, ast.Call) and isinstance(e.func, ast.Attribute) and e.func.attr in _STR_METHODS:
        return True
    if isinstance(e, ast.Call) and isinstance(e.func, ast.Name) and e.func.id in ('str', 'repr', 'len', 'int', 'bytes', 'list', 'tuple', 'dict', 'set', 'bool'):
        return True
    return False


def _load(t):
    t = copy.deepcopy(t)
    for n in ast.walk(t):
        if hasattr(n, 'ctx'):
            n.ctx = ast.Load()
    return t


def _target_names(t):
    return {n.id for n in ast.walk(t) if isinstance(n, ast.Name)}


def _assigned_names(stmts):
    out = set()
    for s in stmts:
        for n in ast.walk(s):
            if isinstance(n, ast.Name) and isinstance(n.ctx, (ast.Store, ast.Del)):
                out.add(n.id)
            elif isinstance(n, (ast.FunctionDef, ast.ClassDef)):
                out.add(n.name)
            elif isinstance(n, ast.ExceptHandler) and n.name:
                out.add(n.name)
            elif isinstance(n, (ast.Import, ast.ImportFrom)):
                for a in n.names:
                    out.add((a.asname or a.name).split('.')[0])
    # names bound only inside lambdas / comprehensions are not function locals
    return out - _comprehension_only_names(stmts)


def _comprehension_only_names(stmts):
    inner, outer = set(), set()
    class V(ast.NodeVisitor):
        def __init__(s): s.depth = 0
        def generic_visit(s, n):
            comp = isinstance(n, (ast.ListComp, ast.SetComp, ast.DictComp, ast.GeneratorExp, ast.Lambda))
            if comp: s.depth += 1
            if isinstance(n, ast.Name) and isinstance(n.ctx, (ast.Store, ast.Del)):
                (inner if s.depth else outer).add(n.id)
            ast.NodeVisitor.generic_visit(s, n)
            if comp: s.depth -= 1
    v = V()
    for s in stmts:
        v.visit(s)
    return inner - outer


class _Ev:
    """expression evaluator: substitutes env, reads heap, logs calls"""

    def __init__(self, w, st, d):
        self.w, self.st, self.d = w, st, d
        self.shadow = []

    def run(self, e, cond):
        return self.v(e, cond)

    def v(self, e, cond=False):
        m = getattr(self, 'v_' + type(e).__name__, None)
        if m is not None:
            return m(e, cond)
        # generic: rebuild node with evaluated children
        new = copy.copy(e)
        for f, val in ast.iter_fields(e):
            if isinstance(val, ast.AST):
                setattr(new, f, self.v(val, cond))
            elif isinstance(val, list):
                setattr(new, f, [self.v(x, cond) if isinstance(x, ast.AST) else x for x in val])
        return new

    def v_Constant(self, e, cond): return e

    def v_Name(self, e, cond):
        if any(e.id in s for s in self.shadow):
            return e
        if isinstance(e.ctx, ast.Load) and e.id in self.st.env:
            return copy.deepcopy(self.st.env[e.id])
        if isinstance(e.ctx, ast.Load) and self.d == 0 and getattr(self.w, 'unbound_raises', False) and e.id in getattr(self.w, 'fn_locals', ()) \
                and getattr(self.st, 'unbound', None) is None and not cond:
            self.st.unbound = e.id
        return ast.Name(id=e.id, ctx=ast.Load())

    def _record_member(self, recv, attr, args=None):
        """``R(a, b).field`` is the argument; ``R(a, b).method(x)`` / ``.property`` of a
        one-expression member is that expression over the arguments (records are immutable)"""
        recs = getattr(self.w, 'records', None)
        rc_ = getattr(self.w, 'record_consts', None)
        if rc_ and isinstance(recv, ast.Name) and recv.id in rc_ and not any(recv.id in s for s in self.shadow) and recv.id not in self.st.env:
            recv = rc_[recv.id]
        if not recs or not (isinstance(recv, ast.Call) and isinstance(recv.func, ast.Name) and recv.func.id in recs):
            return None
        fields, meths, props = recs[recv.func.id]
        if any(isinstance(a, ast.Starred) for a in recv.args) or any(k.arg is None for k in recv.keywords):
            return None
        vals = dict(zip(fields, recv.args))
        for k in recv.keywords:
            vals[k.arg] = k.value
        if set(vals) != set(fields) or len(recv.args) > len(fields):
            return None
        if args is None and attr in vals:
            return copy.deepcopy(vals[attr])
        if args is None and attr in props:
            params, body = [], props[attr]
        elif args is not None and attr in meths and len(meths[attr][0]) == len(args):
            params, body = meths[attr]
        else:
            return None
        m = dict(zip(params, args or []))
        if any(isinstance(x, (ast.Lambda, ast.ListComp, ast.GeneratorExp, ast.SetComp, ast.DictComp)) for x in ast.walk(body)):
            return None
        outer = self

        class _S(ast.NodeTransformer):
            bad = False

            def visit_Attribute(self_, n):
                if isinstance(n.value, ast.Name) and n.value.id == 'self':
                    r = outer._record_member(recv, n.attr)
                    if r is None:
                        self_.bad = True
                        return n
                    return r
                return self_.generic_visit(n)

            def visit_Call(self_, n):
                if isinstance(n.func, ast.Attribute) and isinstance(n.func.value, ast.Name) and n.func.value.id == 'self':
                    a2 = [self_.visit(copy.deepcopy(a)) for a in n.args]
                    r = None if n.keywords else outer._record_member(recv, n.func.attr, a2)
                    if r is None:
                        self_.bad = True
                        return n
                    return r
                return self_.generic_visit(n)

            def visit_Name(self_, n):
                if n.id in m:
                    return copy.deepcopy(m[n.id])
                if n.id == 'self':
                    return copy.deepcopy(recv)
                return n
        t = _S()
        res = t.visit(copy.deepcopy(body))
        return None if t.bad else res

    def v_Attribute(self, e, cond):
        new = ast.Attribute(value=self.v(e.value, cond), attr=e.attr, ctx=ast.Load())
        if isinstance(e.ctx, ast.Load):
            r = self._record_member(new.value, e.attr)
            if r is not None:
                return r
        k = canon(new)
        if k in self.st.heap and self.w.read_heap:
            return copy.deepcopy(self.st.heap[k])
        if k in self.w.const_heap and isinstance(e.ctx, ast.Load):
            return self._fold_known(copy.deepcopy(self.w.const_heap[k]))
        # a class-level constant that no instance ever overrides
        cc = getattr(self.w, 'class_constant', None)
        scls = getattr(self.w, 'self_cls', None) or self.w.cls
        if cc is not None and scls is not None and isinstance(new.value, ast.Name) and new.value.id == 'self' and isinstance(e.ctx, ast.Load) \
                and hasattr(scls, 'node'):
            c = cc(scls, e.attr)
            if c is not None:
                return copy.deepcopy(c)
        return new

    def v_Subscript(self, e, cond):
        new = ast.Subscript(value=self.v(e.value, cond), slice=self.v(e.slice, cond), ctx=ast.Load())
        k = canon(new)
        if k in self.st.heap:
            return copy.deepcopy(self.st.heap[k])
        # a literal table indexed on the spot: {k1: a, k2: b}[key]
        d, key = new.value, new.slice
        tabs = getattr(self.w, 'module_tables', None)
        if isinstance(d, ast.Name) and tabs is not None and getattr(self.w, 'module', None) and d.id not in self.st.env and not isinstance(key, ast.Slice):
            t_ = tabs(self.w.module).get(d.id)
            if t_ is not None:
                d = t_          # a constant table of the module, named
        # (x if c else y)[i] is (x[i] if c else y[i]); a display indexed by a constant is its element
        if isinstance(d, ast.IfExp) and isinstance(key, ast.Constant):
            return self.v_IfExpValue(d, key)
        if isinstance(d, (ast.Tuple, ast.List)) and isinstance(key, ast.Constant) and isinstance(key.value, int) and not isinstance(key.value, bool) \
                and not any(isinstance(x, ast.Starred) for x in d.elts) and -len(d.elts) <= key.value < len(d.elts):
            return d.elts[key.value]
        if isinstance(d, ast.Dict) and d.keys and all(isinstance(x, ast.Constant) for x in d.keys):
            ks = [x.value for x in d.keys]
            if isinstance(key, ast.Constant):
                hit = [v for x, v in zip(ks, d.values) if x == key.value and type(x) is type(key.value)]
                if hit:
                    return hit[-1]
            elif len(ks) == 2 and set(map(repr, ks)) == {'True', 'False'} and not isinstance(key, ast.Slice):
                byk = dict(zip(ks, d.values))
                # (an index that is not a bool would be a KeyError: the conditional form assumes it is)
                if is_boolean_expr(key):
                    while isinstance(key, ast.Call) and isinstance(key.func, ast.Name) and key.func.id == 'bool' and len(key.args) == 1 and not key.keywords:
                        key = key.args[0]
                    return ast.IfExp(test=key, body=byk[True], orelse=byk[False])
        return new

    def _fold_known(self, x):
        """a (substituted) value: conditional expressions whose test is decided on this path are
        replaced by the branch taken"""
        if isinstance(x, ast.IfExp):
            known = self.w.truth(x.test, self.st)
            if known is True:
                return self._fold_known(x.body)
            if known is False:
                return self._fold_known(x.orelse)
            b_, o_ = self._fold_known(x.body), self._fold_known(x.orelse)
            if canon(b_) == canon(o_):
                return b_              # both branches are the same expression
            return ast.IfExp(test=x.test, body=b_, orelse=o_)
        return x

    def v_IfExpValue(self, d, key):
        def pick(x):
            if isinstance(x, ast.IfExp):
                return ast.IfExp(test=x.test, body=pick(x.body), orelse=pick(x.orelse))
            if isinstance(x, (ast.Tuple, ast.List)) and isinstance(key.value, int) and not isinstance(key.value, bool) \
                    and not any(isinstance(y, ast.Starred) for y in x.elts) and -len(x.elts) <= key.value < len(x.elts):
                return x.elts[key.value]
            return ast.Subscript(value=x, slice=key, ctx=ast.Load())
        return pick(d)

    def v_Slice(self, e, cond):
        # x[a:None] is x[a:]
        f = lambda x: None if x is None else self.v(x, cond)
        lo, hi, st = f(e.lower), f(e.upper), f(e.step)
        drop = lambda x: None if isinstance(x, ast.Constant) and x.value is None else x
        return ast.Slice(lower=drop(lo), upper=drop(hi), step=drop(st))

    def v_BoolOp(self, e, cond):
        vals = [self.v(e.values[0], cond)] + [self.v(x, True) for x in e.values[1:]]
        return ast.BoolOp(op=e.op, values=vals)

    def v_IfExp(self, e, cond):
        t = self.v(e.test, cond)
        while isinstance(t, ast.Call) and isinstance(t.func, ast.Name) and t.func.id == 'bool' and len(t.args) == 1 and not t.keywords:
            t = t.args[0]           # bool(x) tested for truth is x tested for truth
        known = self.w.truth(t, self.st)
        if known is True:
            return self.v(e.body, cond)
        if known is False:
            return self.v(e.orelse, cond)
        return ast.IfExp(test=t, body=self.v(e.body, True), orelse=self.v(e.orelse, True))

    def v_NamedExpr(self, e, cond):
        val = self.v(e.value, cond)
        self.st.env[e.target.id] = val
        return val

    def v_Lambda(self, e, cond):
        a = e.args
        names = {x.arg for x in a.posonlyargs + a.args + a.kwonlyargs}
        if a.vararg: names.add(a.vararg.arg)
        if a.kwarg: names.add(a.kwarg.arg)
        new = copy.deepcopy(e)
        self.shadow.append(names)
        saved = self.st.effects
        self.st.effects = []                      # calls in a lambda body do not happen now
        try:
            new.body = self.v(e.body, True)
        finally:
            self.st.effects = saved
            self.shadow.pop()
        return new

    def _unrolled_comp(self, e, fields):
        """[f(x) for x in (a, b, c)] over a literal display is the display [f(a), f(b), f(c)]"""
        if len(e.generators) != 1 or e.generators[0].ifs or e.generators[0].is_async or isinstance(e, ast.GeneratorExp):
            return None
        g = e.generators[0]
        it = self.v(g.iter, cond=False)
        if not isinstance(it, (ast.Tuple, ast.List)) or not (0 < len(it.elts) <= 8) or any(isinstance(x, ast.Starred) for x in it.elts):
            return None

        def bind(t, v, out):
            if isinstance(t, ast.Name):
                out[t.id] = v
                return True
            if isinstance(t, (ast.Tuple, ast.List)) and isinstance(v, (ast.Tuple, ast.List)) and len(t.elts) == len(v.elts) \
                    and not any(isinstance(x, ast.Starred) for x in list(t.elts) + list(v.elts)):
                return all(bind(a, b, out) for a, b in zip(t.elts, v.elts))
            return False
        rows = []
        for el in it.elts:
            b = {}
            if not bind(g.target, el, b):
                return None
            rows.append(b)
        results = []
        for b in rows:
            saved = {k: self.st.env.get(k) for k in b}
            self.st.env.update(b)
            try:
                results.append([self.v(getattr(e, f), True) for f in fields])
            finally:
                for k, v in saved.items():
                    if v is None:
                        self.st.env.pop(k, None)
                    else:
                        self.st.env[k] = v
        if isinstance(e, ast.DictComp):
            return ast.Dict(keys=[r[0] for r in results], values=[r[1] for r in results])
        if isinstance(e, ast.SetComp):
            return ast.Set(elts=[r[0] for r in results])
        return ast.List(elts=[r[0] for r in results], ctx=ast.Load())

    def _comp(self, e, fields):
        if not self.shadow:
            u = self._unrolled_comp(e, fields)
            if u is not None:
                return u
        names = set()
        for g in e.generators:
            names |= _target_names(g.target)
        new = copy.deepcopy(e)
        first = True
        pushed = False
        for g_old, g_new in zip(e.generators, new.generators):
            if first:
                g_new.iter = self.v(g_old.iter, cond=False)
                self.shadow.append(names); pushed = True
                first = False
            else:
                g_new.iter = self.v(g_old.iter, True)
            g_new.ifs = [self.v(i, True) for i in g_old.ifs]
        for f in fields:
            setattr(new, f, self.v(getattr(e, f), True))
        if pushed:
            self.shadow.pop()
        return new

    def v_ListComp(self, e, cond): return self._comp(e, ['elt'])
    def v_SetComp(self, e, cond): return self._comp(e, ['elt'])
    def v_GeneratorExp(self, e, cond): return self._comp(e, ['elt'])
    def v_DictComp(self, e, cond): return self._comp(e, ['key', 'value'])

    def v_Call(self, e, cond):
        func = self.v(e.func, cond)
        args = [self.v(a, cond) for a in e.args]
        # f(*(a, b)) is f(a, b)
        if any(isinstance(a, ast.Starred) and isinstance(a.value, (ast.Tuple, ast.List)) and not any(isinstance(x, ast.Starred) for x in a.value.elts) for a in args):
            flat = []
            for a in args:
                if isinstance(a, ast.Starred) and isinstance(a.value, (ast.Tuple, ast.List)) and not any(isinstance(x, ast.Starred) for x in a.value.elts):
                    flat.extend(a.value.elts)
                else:
                    flat.append(a)
            args = flat
        kws = expand_star_dict([ast.keyword(arg=k.arg, value=self.v(k.value, cond)) for k in e.keywords])
        new = ast.Call(func=func, args=args, keywords=kws)
        ast.copy_location(new, e)
        # getattr(x, 'name') is x.name
        if isinstance(func, ast.Name) and func.id == 'getattr' and len(args) == 2 and not kws and isinstance(args[1], ast.Constant) \
                and isinstance(args[1].value, str) and args[1].value.isidentifier():
            return self.v_Attribute(ast.Attribute(value=e.args[0], attr=args[1].value, ctx=ast.Load()), cond)
        in_binder = bool(self.shadow)
        # operator.add(a, b) is a + b (also the in-place spellings: the operands of the rules are numbers / bytes)
        if isinstance(func, ast.Attribute) and isinstance(func.value, ast.Name) and func.value.id == 'operator' and func.attr in OPERATOR_FUNCS and len(args) == 2 and not kws:
            return ast.BinOp(left=args[0], op=OPERATOR_FUNCS[func.attr](), right=args[1])
        if isinstance(func, ast.Attribute) and not kws and not any(isinstance(a, ast.Starred) for a in args):
            r = self._record_member(func.value, func.attr, args)
            if r is not None:
                return r
        # (lambda a, b: E)(x, y) is E with x, y in place of a, b
        if isinstance(func, ast.Lambda) and not kws and not any(isinstance(a, ast.Starred) for a in args):
            la = func.args
            if not la.vararg and not la.kwarg and not la.kwonlyargs and not la.posonlyargs and len(la.args) == len(args) and not la.defaults:
                inner = {x.arg for sub in ast.walk(func.body) if isinstance(sub, ast.Lambda) for x in sub.args.args}
                comp = {x.id for sub in ast.walk(func.body) if isinstance(sub, ast.comprehension) for x in ast.walk(sub.target) if isinstance(x, ast.Name)}
                names = [x.arg for x in la.args]
                if not (set(names) & (inner | comp)):
                    m = dict(zip(names, args))

                    class _B(ast.NodeTransformer):
                        def visit_Name(self_, n):
                            if n.id in m and isinstance(n.ctx, ast.Load):
                                return copy.deepcopy(m[n.id])
                            return n
                    body = _B().visit(copy.deepcopy(func.body))
                    free = {x.id for x in ast.walk(func.body) if isinstance(x, ast.Name)} - set(names)
                    if not (free & set(self.st.env)) and not getattr(self, '_beta', 0):
                        # the names the lambda leaves free mean the same here: evaluate its body
                        # (helper calls in it are followed like anywhere else)
                        self._beta = 1
                        try:
                            return self.v(body, cond)
                        finally:
                            self._beta = 0
                    return body
        # setattr(obj, name, val) is a store
        if isinstance(func, ast.Name) and func.id == 'setattr' and len(args) == 3:
            self.st.effects.append(Eff('setattr', e, obj=args[0], name=args[1], value=args[2], call=new,
                                       cond=cond or in_binder, depth=self.d))
            if isinstance(args[1], ast.Constant) and isinstance(args[1].value, str):
                self.st.heap[canon(ast.Attribute(value=args[0], attr=args[1].value, ctx=ast.Load()))] = args[2]
            else:
                self.st.heap.clear()
            return new
        # single-path repository helper in expression position
        if self.w.resolver is not None and self.d < self.w.inline_depth and not in_binder and not cond \
                and (call_name(new) or '').split('.')[-1] not in self.w.keep:
            r = self.w.resolver(new, self.w.cls, self.st)
            if r is not None:
                fdef, bind_self, owner = r
                argmap = self.w.bind_args(fdef, e, self.st, self.d, bind_self)
                if argmap is not None and isinstance(fdef, ast.FunctionDef):
                    saved, saved_self = self.w.cls, getattr(self.w, 'self_cls', None)
                    self.w.cls = owner if owner is not None else saved
                    if not _same_self(bind_self, new):
                        self.w.self_cls = self.w.cls
                    sub = Path(); sub.env = argmap
                    try:
                        res = self.w.block(fdef.body, sub, self.d + 1)
                    finally:
                        self.w.cls, self.w.self_cls = saved, saved_self
                    if len(res) == 1 and (res[0][1] is None or res[0][1][0] == 'return') and not res[0][0].guards:
                        self.st.effects.extend(res[0][0].effects)
                        self.st.heap.clear()
                        status = res[0][1]
                        return status[1] if status is not None and status[1] is not None else ast.Constant(value=None)
        eff = Eff('call', e, call=new, cond=cond or in_binder, depth=self.d)
        self.st.effects.append(eff)
        if not self.is_pure(func):
            self.st.heap.clear()
        if self.w.tag is not None:
            label = self.w.tag(new)
            if label:
                sym = ast.Name(id='<#%d %s>' % (next(self.w._tagn), label), ctx=ast.Load())
                self.w.calltab[sym.id] = new
                eff.value = sym
                return sym
        return new

    def is_pure(self, func):
        if isinstance(func, ast.Name):
            return func.id in PURE_BUILTINS
        if isinstance(func, ast.Attribute):
            return func.attr in PURE_METHODS
        return False
