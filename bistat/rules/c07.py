"""C07 -- bit fields partition their bytes MSB-first and never disturb neighbours.

Rule family R8 (bit algebra normal form) on Bits._compile / init / unpack / pack:

 (a) _compile: the run is walked backwards from the last member (reversed(fields[:position+1]),
     stopping at the first non-Bits); shift := running sum *before* it is incremented by the
     member's width; the running sum starts at 0; mask == ((1 << w) - 1) << shift;
     first/last membership tests look at the immediate neighbours;
 (b) byte boundary: a raise guarded by  sum % 8 != 0  precedes the compilation of the shared
     Int, whose width is sum // 8;
 (c) unpack stores the member's own bits of the shared word, brought down to bit 0 -- decided on
     the bit-provenance normal form (bitprov.py) of the stored expression, with the masks as
     _compile defines them, so (I & mask) >> shift and (I >> shift) & value_mask are the same;
     I is read from the shared slot after the shared Int was read (only the first member reads
     it, and returns its cursor);
 (d) pack stores into the shared slot the word whose own bits are the low W bits of the value and
     whose other bits are the old word's (confinement: no value, however large or negative,
     reaches a neighbour's bits) -- again by normal form; the shared Int is packed only by the
     last member, after the merge;
 (e) the shared Int is constructed with defaults (unsigned, no endianness) and compiled with a
     configuration that has no endianness key (big-endian whatever the class says);
 (f) init zeroes the shared slot at the first member.
The arithmetic of Python ints is trusted.

Round 4: clauses (c), (d) and the mask of (a) are decided on the bit-provenance normal form
(bistat/bitprov.py) with the masks as __init__ and _compile define them.

Round 5: 'value or default' in the merge; init that never touches the shared slot; the first
member emitting the shared Int (witnessed violations).

Round 6: (a0) the builder keeps class-body order; a run-wide all-ones mask kept on the shared
Int is understood by the bit provenance; membership / init rules three-valued.
Round 7: bits chosen by the truth of the value instead of the value modulo 2^width; (a0') an
override of _describe_yourself never takes entries of the base description away.
Round 8: a class-level container filled by the methods of Bits; the extracted slice plus another
quantity (sign extension); includes clause V of the cache protocol.
Round 9: nothing per class is kept in the user's configuration dictionary (it may be shared by
several classes); the field table is not parked in the namespace of the generated module (C15).
"""
import ast
import copy
import re

from .. import Undecided
from ..expr import canon, lin, or_terms, and_factors, call_name, unparse, negate, conj
from ..model import stmt_text
from .. import bitprov as bp

EXPLANATION = __doc__
LEVEL_RULE = 'one obligation per clause (a)-(f) instance on the paths / loop summary of the four Bits methods'
ASSUMPTIONS = [
    'Python integers are unbounded two\'s complement: (v << s) & m confines any v to the bits of m',
    'Int() defaults (unsigned, endianness None -> conf default big) are checked by C05',
]

GETV = "getattr(pkt, self.field_name)"
GETI = "getattr(pkt, self.I.field_name)"


def C(src):
    return canon(ast.parse(src, mode='eval').body)


def gtexts(p):
    out = set()
    for g, pol in p.guards:
        t = g if pol else negate(g)
        for c in conj(t):
            out.add(canon(c))
    return out


def is_mask_expr(e, w_text, s_text):
    """((1 << w) - 1) << s   or   ((2 ** w) - 1) << s"""
    if not (isinstance(e, ast.BinOp) and isinstance(e.op, ast.LShift)):
        return False
    if canon(e.right) != s_text:
        return False
    m = e.left
    if not (isinstance(m, ast.BinOp) and isinstance(m.op, ast.Sub) and isinstance(m.right, ast.Constant) and m.right.value == 1):
        return False
    p = m.left
    if isinstance(p, ast.BinOp) and isinstance(p.op, ast.Pow) and isinstance(p.left, ast.Constant) and p.left.value == 2 and canon(p.right) == w_text:
        return True
    if isinstance(p, ast.BinOp) and isinstance(p.op, ast.LShift) and isinstance(p.left, ast.Constant) and p.left.value == 1 and canon(p.right) == w_text:
        return True
    return False


def find_run_walk(ctx, comp, paths, rule):
    """the loop that visits the members of the run backwards from this (last) member.  Three
    ways of writing it are recognised; each yields the expression F that denotes the member:
      A  for n, f in reversed(fields[:position + 1]): if not isinstance(f, Bits): break
      B  start = position; while start > 0 and isinstance(fields[start - 1][1], Bits): start -= 1
         for n, f in reversed(fields[start:position + 1])
      C  i = position; while i >= 0 and isinstance(fields[i][1], Bits): ... fields[i] ...; i -= 1
    a recognised scheme with wrong bounds / stop test is a violation; anything else is undecided"""
    loops = []
    for p in paths:
        for e in p.effects:
            if e.kind == 'loop' and id(e.node) not in [id(x.node) for x in loops]:
                loops.append(e)

    def scan_loop(k):
        for e in loops:
            if e.sub['phi'] == k:
                return e
        return None

    found = []
    for lp in loops:
        n = lp.sub['phi']
        if lp.sub['kind'] == 'for':
            it = canon(lp.sub['iter'])
            item = '<item of %d>' % n
            F = '%s[1]' % item
            body = lp.sub['body']
            cont = [b for b in body if b.end[0] == 'fall']
            if it == 'reversed(fields[:(position + 1)])':
                brk = [b for b in body if b.end[0] == 'break']
                if not brk or not any(('not isinstance(%s, Bits)' % F) in gtexts(b) for b in brk):
                    ctx.violation(rule, comp, 'loop body', 'the walk does not stop at the first field that is not a Bits: bits of an earlier, separate run are merged in', lp.lineno, clause='a')
                else:
                    ctx.holds(rule, comp, 'for ... in %s: if not isinstance(f, Bits): break' % it, 'walks backwards from the last member to the first non-Bits field', lp.lineno, clause='a')
                found.append(dict(lp=lp, F=F, cont=cont))
                continue
            m = re.match(r'reversed\(fields\[(\w+)@phi(\d+)out:\(position \+ 1\)\]\)$', it)
            if m:
                var, k = m.group(1), int(m.group(2))
                sc = scan_loop(k)
                S = '%s@phi%d' % (var, k)
                ok = sc is not None and sc.sub['kind'] == 'while' and sc.sub['test'] is not None \
                    and sorted(canon(c) for c in conj(sc.sub['test'])) == sorted(['(-1*%s < 0)' % S, 'isinstance(fields[(%s + -1)][1], Bits)' % S]) \
                    and sc.sub['entry'].get(var) is not None and canon(sc.sub['entry'][var]) == 'position' \
                    and all(b.end[0] == 'fall' and lin(b.env.get(var)) == {S: 1, 1: -1} for b in sc.sub['body'])
                if ok:
                    ctx.holds(rule, comp, 'start = position; while start > 0 and isinstance(fields[start - 1][1], Bits): start -= 1; for ... in %s' % it.replace('@phi%dout' % k, ''),
                              'the run is the maximal block of Bits that ends at this member, walked backwards', lp.lineno, clause='a')
                    found.append(dict(lp=lp, F=F, cont=cont))
                else:
                    ctx.undecided(rule, comp, 'for ... in %s' % it, 'cannot see that %s is the first index of the run of Bits ending at position' % var, lp.lineno, clause='a')
                    return None
                continue
            if it.startswith('reversed(fields[') or it.startswith('fields['):
                ctx.violation(rule, comp, 'for ... in %s' % it, 'the run must be walked backwards from this (last) member: reversed(fields[:position + 1])', lp.lineno, clause='a')
                found.append(dict(lp=lp, F=F, cont=cont))
                continue
        elif lp.sub['test'] is not None:
            lits = [canon(c) for c in conj(lp.sub['test'])]
            m = None
            for t in lits:
                m = m or re.match(r'isinstance\(fields\[(\w+)@phi%d\]\[1\], Bits\)$' % n, t)
            if m:
                var = m.group(1)
                IDX = '%s@phi%d' % (var, n)
                ok = sorted(lits) == sorted(['(-1*%s <= 0)' % IDX, 'isinstance(fields[%s][1], Bits)' % IDX]) \
                    and lp.sub['entry'].get(var) is not None and canon(lp.sub['entry'][var]) == 'position' \
                    and all(b.end[0] == 'fall' and lin(b.env.get(var)) == {IDX: 1, 1: -1} for b in lp.sub['body'])
                if ok:
                    ctx.holds(rule, comp, 'i = position; while i >= 0 and isinstance(fields[i][1], Bits): ...; i -= 1', 'walks backwards from the last member to the first non-Bits field', lp.lineno, clause='a')
                    found.append(dict(lp=lp, F='fields[%s][1]' % IDX, cont=[b for b in lp.sub['body'] if b.end[0] == 'fall']))
                else:
                    ctx.undecided(rule, comp, 'while %s' % canon(lp.sub['test']), 'an index walk over the fields whose start / stop / step the rule cannot confirm', lp.lineno, clause='a')
                    return None
    found = [f for f in found if any(e.kind == 'store_attr' and e.name in ('shift', 'mask') for b in f['cont'] for e in b.effects)] or found
    if len(found) != 1:
        ctx.undecided(rule, comp, 'Bits._compile', 'expected one recognisable walk over the run of Bits, found %d (of %d loops)' % (len(found), len(loops)), comp.node.lineno, clause='a')
        return None
    return found[0]


def bits_eval(bits):
    """evaluator of shift / mask expressions of Bits methods: W = the member's bit_count, S = its
    shift (the running sum of _compile), attributes as the loop of _compile defines them"""
    table, F, PHI = bits['table'], bits['F'], bits['PHI']
    word = C(GETI)
    val = C(GETV)

    def leaf(t, e):
        if t == word:
            return bp.Bits([('I', bp.L(0), bp.L(0), bp.INF)])
        if t == val:
            return bp.Bits([('V', bp.L(0), bp.L(0), bp.INF)])
        if t == PHI:
            return bp.Num(bp.S)
        if t in ('self.bit_count', '%s.bit_count' % F):
            return bp.Num(bp.W)
        for pre in ('self.', F + '.'):
            if t.startswith(pre) and t[len(pre):] in table:
                return table[t[len(pre):]]
        if isinstance(e, ast.Name) and e.id in bits.get('consts', {}):
            return bits['consts'][e.id]
        # an all-ones mask over the whole run kept on the shared Int (I.mask = 2**total - 1): it
        # keeps every bit of the run, which is all the members' slices live in
        if t.startswith('self.I.') and t[len('self.I.'):] in _RUN_MASKS:
            return bp.Ones([(bp.L(0), bp.INF)])
        return None
    return bp.Eval(leaf)


_RUN_MASKS = set()


def _find_run_masks(ci):
    """attributes of the shared Int that Bits._compile sets to 2**<total width> - 1"""
    _RUN_MASKS.clear()
    comp = ci.methods.get('_compile')
    if comp is None:
        return
    for n in ast.walk(comp.node):
        if isinstance(n, ast.Assign) and len(n.targets) == 1 and isinstance(n.targets[0], ast.Attribute) and isinstance(n.targets[0].value, ast.Name) and n.targets[0].value.id != 'self':
            v = n.value
            if isinstance(v, ast.BinOp) and isinstance(v.op, ast.Sub) and isinstance(v.right, ast.Constant) and v.right.value == 1:
                b = v.left
                pow2 = (isinstance(b, ast.BinOp) and isinstance(b.op, ast.Pow) and isinstance(b.left, ast.Constant) and b.left.value == 2) or \
                       (isinstance(b, ast.BinOp) and isinstance(b.op, ast.LShift) and isinstance(b.left, ast.Constant) and b.left.value == 1)
                # the exponent is the accumulated width of the run (the variable the loop adds every bit_count to)
                if pow2 and isinstance(b.right, ast.Name) and any(isinstance(a, ast.AugAssign) and isinstance(a.target, ast.Name) and a.target.id == b.right.id and isinstance(a.op, ast.Add) for a in ast.walk(comp.node)):
                    _RUN_MASKS.add(n.targets[0].attr)


def check_compile(ctx, ci):
    repo = ctx.repo
    comp = ci.methods.get('_compile')
    if comp is None:
        raise Undecided('anchor Bits._compile not found')
    w = repo.walker(max_paths=ctx.max_paths)
    paths = w.paths(comp.node, cls=ci)
    ctx.unit('paths', len(paths))
    # ---- membership tests
    rule = 'R8-bits-run'
    firsts, lasts = set(), set()
    for p in paths:
        for e in p.effects:
            if e.kind == 'store_attr' and canon(e.obj) == 'self' and e.name in ('iam_first', 'iam_last') and isinstance(e.value, ast.Constant) and e.value.value is True:
                # the guard that led here
                for g, pol in p.guards:
                    t = canon(g if pol else negate(g))
                    back = 'fields[(position + -' in t
                    fwd = 'fields[(position + ' in t and not back
                    if 'position' in t and 'isinstance(' in t and ((e.name == 'iam_first' and back) or (e.name == 'iam_last' and fwd)):
                        (firsts if e.name == 'iam_first' else lasts).add(t)
    wf = '((position == 0) or not isinstance(fields[(position + -1)][1], Bits))'
    wl = '((len(fields) + -1*position + -1 == 0) or not isinstance(fields[(position + 1)][1], Bits))'
    for name, got, want in (('iam_first', firsts, wf), ('iam_last', lasts, wl)):
        if got == {want}:
            ctx.holds(rule, comp, '%s iff %s' % (name, want), 'looks at the immediate neighbour', comp.node.lineno, clause='a')
        elif not got:
            stored = any(e.kind == 'store_attr' and canon(e.obj) == 'self' and e.name == name for p in paths for e in p.effects)
            if stored:
                # stored under a test the rule does not read (a class attribute instead of isinstance, a helper): no verdict
                ctx.undecided(rule, comp, name, 'the %s membership test is not in a form the rule reads (position at the edge or the neighbour is not a Bits)' % name, comp.node.lineno, clause='a')
            else:
                ctx.undecided(rule, comp, name, 'Bits._compile does not store %s: the membership of the run is kept in another form' % name, comp.node.lineno, clause='a')
        else:
            ctx.violation(rule, comp, '%s iff %s' % (name, sorted(got)), 'expected %s' % want, comp.node.lineno, clause='a', witness=True)
    # ---- the walk over the run
    walk = find_run_walk(ctx, comp, paths, rule)
    if walk is None:
        return None
    lp, F, n = walk['lp'], walk['F'], walk['lp'].sub['phi']
    cont = walk['cont']
    if len(cont) != 1:
        ctx.undecided(rule, comp, 'loop body', 'expected one continuing body path, found %d' % len(cont), lp.lineno, clause='a')
        return None
    b = cont[0]
    # which carried variable is the running sum?  the one advanced by f.bit_count
    acc = None
    for c in lp.sub['carried']:
        v = b.env.get(c)
        if v is not None and lin(v) == {'%s@phi%d' % (c, n): 1, '%s.bit_count' % F: 1}:
            acc = c
    rule = 'R8-shift-mask'
    if acc is None:
        ctx.violation(rule, comp, 'loop body', 'no running sum is advanced by the member\'s bit_count', lp.lineno, clause='a')
        return None
    PHI = '%s@phi%d' % (acc, n)
    sh = [e for e in b.effects if e.kind == 'store_attr' and canon(e.obj) == F and e.name == 'shift']
    mk = [e for e in b.effects if e.kind == 'store_attr' and canon(e.obj) == F and e.name == 'mask']
    if not sh:
        ctx.violation(rule, comp, 'loop body', 'the member\'s shift is never assigned', lp.lineno, clause='a')
    elif canon(sh[-1].value) == PHI:
        ctx.holds(rule, comp, 'f.shift = running sum (before the increment)', 'LSB-first accumulation from the last member = MSB-first layout', sh[-1].lineno, clause='a')
    else:
        ctx.violation(rule, comp, 'f.shift = %s' % canon(sh[-1].value), 'the shift must be the running sum of the widths of the later members (assigned before the increment)', sh[-1].lineno, clause='a')
    # what the constructor leaves in the attributes (with the values of that moment: a mask derived
    # there from another attribute does not follow a later redefinition), then what the walk assigns
    table = {}
    ctor = ci.methods.get('__init__')
    if ctor is not None:
        cps = [p for p in repo.walker().paths(ctor.node, cls=ci) if not p.raises()]
        if len(cps) == 1:
            stores = [e for e in cps[0].effects if e.kind == 'store_attr' and canon(e.obj) == 'self']
            width_param = [canon(e.value) for e in stores if e.name == 'bit_count' and isinstance(e.value, ast.Name)]

            class _P(ast.NodeTransformer):
                def visit_Name(self, n):
                    if n.id in width_param:
                        return ast.Attribute(value=ast.Name(id='self', ctx=ast.Load()), attr='bit_count', ctx=ast.Load())
                    return n
            for e in stores:
                if e.name != 'bit_count':
                    table[e.name] = _P().visit(copy.deepcopy(e.value))
    for e in b.effects:
        if e.kind == 'store_attr' and canon(e.obj) == F:
            table[e.name] = e.value
    consts = {}
    for st in repo.modules[ci.module]['tree'].body:
        if isinstance(st, ast.Assign) and len(st.targets) == 1 and isinstance(st.targets[0], ast.Name):
            consts[st.targets[0].id] = st.value
    bits = {'table': table, 'F': F, 'PHI': PHI, 'consts': consts}
    if mk:
        try:
            m = bp._coerce(bits_eval(bits).ev(mk[-1].value))
            if isinstance(m, bp.Ones) and m.ivs == bp.own_mask().ivs:
                ctx.holds(rule, comp, 'f.mask = ((1 << w) - 1) << shift', 'exactly the member\'s bits', mk[-1].lineno, clause='a')
            else:
                ctx.violation(rule, comp, 'f.mask = %s' % canon(mk[-1].value), 'expected the ones of the member\'s own bits, ((1 << bit_count) - 1) << shift; this is %s' % (m.text() if hasattr(m, 'text') else type(m).__name__), mk[-1].lineno, clause='a')
        except Undecided as ex:
            ctx.undecided(rule, comp, 'f.mask = %s' % canon(mk[-1].value), str(ex), mk[-1].lineno, clause='a')
    # initial value 0
    init0 = lp.sub['entry'].get(acc)
    init0 = init0.value if isinstance(init0, ast.Constant) else (canon(init0) if init0 is not None else None)
    if init0 == 0 and init0 is not False:
        ctx.holds(rule, comp, '%s starts at 0' % acc, 'the last member occupies the least significant bits', comp.node.lineno, clause='a')
    else:
        ctx.violation(rule, comp, '%s starts at %r' % (acc, init0), 'the running sum must start at 0', comp.node.lineno, clause='a')
    # shared Int assigned to every member
    si = [e for e in b.effects if e.kind == 'store_attr' and canon(e.obj) == F and e.name == 'I']
    if si:
        ctx.holds(rule, comp, 'f.I = %s' % canon(si[-1].value), 'every member shares one Int', si[-1].lineno, clause='a')
    else:
        ctx.violation(rule, comp, 'loop body', 'members do not get the shared Int', lp.lineno, clause='a')
    # ---- (b) byte boundary, (e) shared Int
    rule = 'R8-byte-boundary'
    ok_paths = [p for p in paths if not p.raises() and any(e.kind == 'loop' and e.node is lp.node for e in p.effects)]
    bad_paths = [p for p in paths if p.raises() and any(e.kind == 'loop' and e.node is lp.node for e in p.effects)]

    def out_of(p):
        for e in p.effects:
            if e.kind == 'loop' and e.node is lp.node:
                return '%s@phi%dout' % (acc, e.sub['phi'])
        return None

    if any(('((%s %% 8) != 0)' % out_of(p)) in gtexts(p) and call_name(p.end[1]) in ('Bits.ByteBoundaryError', 'ByteBoundaryError') for p in bad_paths):
        ctx.holds(rule, comp, 'if sum % 8 != 0: raise ByteBoundaryError', 'a run that does not fill whole bytes is rejected at class definition', comp.node.lineno, clause='b')
    else:
        ctx.violation(rule, comp, 'byte boundary test', 'no raise guarded by (sum of widths) % 8 != 0: a run that does not fill whole bytes is accepted', comp.node.lineno, clause='b')
    seen_st = set()
    for p in ok_paths:
        OUT = out_of(p)
        guard_ok = '((%s %% 8) == 0)' % OUT
        compiles = [e for e in p.effects if e.kind == 'call' and isinstance(e.call.func, ast.Attribute) and e.call.func.attr == '_compile' and canon(e.call.func.value) == 'Int()']
        if compiles and guard_ok not in gtexts(p):
            ctx.violation(rule, comp, 'path [%s]' % '; '.join(sorted(gtexts(p)))[:200], 'the shared Int is compiled on a path that did not pass the byte-boundary test', compiles[0].lineno, clause='b')
        bc = [e for e in p.effects if e.kind == 'store_attr' and canon(e.obj) == 'Int()' and e.name == 'byte_count']
        for e in bc:
            st = 'I.byte_count = %s' % canon(e.value)
            if canon(e.value) == '(%s // 8)' % OUT:
                if 'bc' not in seen_st:
                    seen_st.add('bc')
                    ctx.holds(rule, comp, 'I.byte_count = sum // 8', 'the shared Int spans exactly the run', e.lineno, clause='b')
            else:
                ctx.violation(rule, comp, st, 'the width of the shared Int must be (sum of widths) // 8', e.lineno, clause='b')
        for e in compiles:
            conf = None
            for k in e.call.keywords:
                if k.arg == 'bisturi_conf':
                    conf = k.value
            if conf is None and len(e.call.args) >= 3:
                conf = e.call.args[2]
            st = 'I = Int(); I._compile(..., bisturi_conf=%s)' % (canon(conf) if conf is not None else '?')
            if isinstance(conf, ast.Dict) and not any(isinstance(k, ast.Constant) and k.value == 'endianness' for k in conf.keys):
                if 'conf' not in seen_st:
                    seen_st.add('conf')
                    ctx.holds('R8-shared-int', comp, st, 'unsigned by default, no class-level endianness: big-endian', e.lineno, clause='e')
            else:
                ctx.violation('R8-shared-int', comp, st, 'the shared Int sees the class configuration: a little-endian class would reverse the bit groups', e.lineno, clause='e')
    # Int() constructed with no arguments
    ctors = [n_ for n_ in ast.walk(comp.node) if isinstance(n_, ast.Call) and call_name(n_) == 'Int']
    for c in ctors:
        if c.args or c.keywords:
            bad = [k.arg for k in c.keywords if k.arg in ('signed', 'endianness')] or (['positional'] if len(c.args) > 1 else [])
            if bad:
                ctx.violation('R8-shared-int', comp, stmt_text(c), 'the shared Int must be unsigned and without its own endianness', c.lineno, clause='e')
    return bits


def _derive(ctx, ci):
    """the shift / mask definitions of Bits._compile, for a caller that does not report on _compile"""
    from ..report import Ctx
    sub = Ctx(ctx.prop, ctx.repo, ctx.tier, ctx.seed)
    sub.max_paths = getattr(ctx, 'max_paths', 4096)
    try:
        return check_compile(sub, ci)
    except Undecided:
        return None


def check_unpack(ctx, ci, bits='derive'):
    repo = ctx.repo
    bits = _derive(ctx, ci) if bits == 'derive' else bits
    fi = ci.methods.get('unpack')
    rule = 'R8-extract'
    w = repo.walker(inline_depth=2)
    w.split_bool = True
    for p in w.paths(fi.node, cls=ci):
        if p.raises():
            continue
        gt = gtexts(p)
        st_ = [e for e in p.effects if e.kind == 'setattr' and canon(e.obj) == 'pkt' and canon(e.name) == 'self.field_name']
        if 'self.iam_first' in gt:
            label = 'first member'
        elif 'not self.iam_first' in gt:
            label = 'later member'
        else:
            ctx.undecided(rule, fi, 'path [%s]' % '; '.join(sorted(gt))[:120], 'cannot tell whether this is the first member of the run or a later one (the path does not test iam_first)', fi.node.lineno, clause='c')
            continue
        if not st_:
            ctx.violation(rule, fi, label, 'no value is stored', fi.node.lineno, clause='c')
            continue
        v = st_[-1].value
        try:
            if bits is None:
                raise Undecided('the shifts and masks of Bits._compile were not identified')
            got = bits_eval(bits).ev(v)
            if isinstance(got, bp.Bits) and got.key() == bp.field_slice().key():
                ctx.holds(rule, fi, '%s: store (I & mask) >> shift' % label, 'bit provenance %s: exactly the member\'s slice' % got.text(), st_[-1].lineno, clause='c')
            else:
                ctx.violation(rule, fi, '%s: store %s' % (label, canon(v)), 'expected the member\'s own bits of the shared word at bit 0, (I & self.mask) >> self.shift; this is %s' % (got.text() if hasattr(got, 'text') else 'not a value made of bits of the shared word'), st_[-1].lineno, clause='c')
        except Undecided as ex:
            # Round 8: the slice plus / minus another quantity (a sign extension, a bias): the member's
            # value is no longer the unsigned number its bits spell
            shifted = None
            if isinstance(v, ast.BinOp) and isinstance(v.op, (ast.Add, ast.Sub)):
                for side, other in ((v.left, v.right), (v.right, v.left)):
                    try:
                        g_ = bits_eval(bits).ev(side) if bits is not None else None
                    except Undecided:
                        g_ = None
                    if isinstance(g_, bp.Bits) and g_.key() == bp.field_slice().key() and not (isinstance(other, ast.Constant) and other.value == 0):
                        shifted = other
            if shifted is not None:
                ctx.violation(rule, fi, '%s: store %s' % (label, canon(v)[:120]), 'the member\'s slice is extracted correctly and then %s is added to / subtracted from it: the value is not the unsigned number 0 .. 2^width - 1 that the bits of the member spell' % canon(shifted)[:50], st_[-1].lineno, clause='c', witness=True)
            else:
                ctx.undecided(rule, fi, '%s: store %s' % (label, canon(v)), str(ex), st_[-1].lineno, clause='c')
        reads = [e for e in p.effects if e.kind == 'call' and isinstance(e.call.func, ast.Attribute) and e.call.func.attr == 'unpack' and canon(e.call.func.value) == 'self.I']
        r = p.ret()
        if 'self.iam_first' in gt:
            if len(reads) != 1:
                ctx.violation(rule, fi, label, 'the first member must read the shared Int exactly once', fi.node.lineno, clause='c')
            else:
                c = reads[0].call
                args = [canon(a) for a in c.args] + ['%s=%s' % (k.arg, canon(k.value)) for k in c.keywords if k.arg]
                idx_read = p.effects.index(reads[0])
                idx_store = p.effects.index(st_[-1])
                if idx_read > idx_store:
                    ctx.violation(rule, fi, label, 'the slice is extracted before the shared Int is read', st_[-1].lineno, clause='c')
                elif r is None or canon(r) != canon(c):
                    ctx.violation(rule, fi, '%s returns %s' % (label, canon(r) if r is not None else None), 'the first member must return the cursor after the shared Int', fi.node.lineno, clause='c')
                elif not ({'pkt', 'raw', 'offset'} <= set(args) or {'pkt=pkt', 'raw=raw', 'offset=offset'} <= set(args)):
                    ctx.violation(rule, fi, '%s: %s' % (label, canon(c)), 'the shared Int is not read at the current cursor of the same buffer', reads[0].lineno, clause='c')
                else:
                    ctx.holds(rule, fi, '%s: offset = self.I.unpack(pkt, raw, offset)' % label, 'one shared read at the run\'s first byte', reads[0].lineno, clause='c')
        else:
            if reads:
                ctx.violation(rule, fi, label, 'a later member reads the shared Int again: the run consumes its bytes twice', reads[0].lineno, clause='c')
            elif r is None or canon(r) != 'offset':
                ctx.violation(rule, fi, '%s returns %s' % (label, canon(r) if r is not None else None), 'later members must not move the cursor', fi.node.lineno, clause='c')
            else:
                ctx.holds(rule, fi, '%s: cursor unchanged' % label, 'the run\'s bytes are consumed once', fi.node.lineno, clause='c')


def check_pack(ctx, ci, bits='derive'):
    _find_run_masks(ci)
    repo = ctx.repo
    bits = _derive(ctx, ci) if bits == 'derive' else bits
    fi = ci.methods.get('pack')
    rule = 'R8-confinement'
    w = repo.walker(inline_depth=2)
    w.split_bool = True
    for p in w.paths(fi.node, cls=ci):
        if p.raises():
            continue
        gt = gtexts(p)
        if 'self.iam_last' in gt:
            label = 'last member'
        elif 'not self.iam_last' in gt:
            label = 'earlier member'
        else:
            emits = [e for e in p.effects if e.kind == 'call' and canon(e.call.func) == 'self.I.pack']
            if 'self.iam_first' in gt and emits:
                # the first member of a run of several is not the last: the later members have not merged yet
                ctx.violation(rule, fi, 'path [%s]: %s' % ('; '.join(sorted(gt))[:80], emits[0].text()[:60]), 'the shared Int is emitted by the first member of the run, before the later members merged their bits', emits[0].lineno, clause='d', witness=True)
                continue
            if 'not self.iam_first' in gt and not emits and not any('iam_last' in g for g in gt):
                ctx.violation(rule, fi, 'path [%s]: nothing emitted' % '; '.join(sorted(gt))[:80], 'no member after the first emits the shared Int: the last member of a run of several never writes the merged bits', fi.node.lineno, clause='d', witness=True)
                continue
            ctx.undecided(rule, fi, 'path [%s]' % '; '.join(sorted(gt))[:120], 'cannot tell whether this is the last member of the run or an earlier one (the path does not test iam_last)', fi.node.lineno, clause='d')
            continue
        st_ = [e for e in p.effects if e.kind == 'setattr' and canon(e.obj) == 'pkt']
        merges = [e for e in st_ if canon(e.name) == 'self.I.field_name']
        if len(merges) != 1:
            ctx.violation(rule, fi, label, 'expected exactly one merge into the shared slot, found %d' % len(merges), fi.node.lineno, clause='d')
            continue
        v = merges[0].value
        # "value or fallback" is the fallback for the legitimate value 0
        VAL = canon(ast.parse('getattr(pkt, self.field_name)', mode='eval').body)
        swapped = [b for b in ast.walk(v) if isinstance(b, ast.BoolOp) and isinstance(b.op, ast.Or) and any(canon(x) == VAL for x in b.values[:-1])
                   and not (isinstance(b.values[-1], ast.Constant) and b.values[-1].value in (0, False))]
        if swapped:
            ctx.violation(rule, fi, '%s: %s' % (label, canon(swapped[0])), 'a member whose value is 0 is written as %s: its slice does not hold the value modulo 2^width' % canon(swapped[0].values[-1]), merges[0].lineno, clause='d', witness=True)
            continue
        # the bits written chosen by the truth of the value: every bit of the value decides them,
        # so a value that is 0 modulo 2^width but not 0 (2 for a flag) sets bits
        truthy = [b for b in ast.walk(v) if isinstance(b, ast.IfExp) and (canon(b.test) == VAL or (isinstance(b.test, ast.UnaryOp) and isinstance(b.test.op, ast.Not) and canon(b.test.operand) == VAL)
                                                                            or canon(b.test) in ('(%s != 0)' % VAL, 'bool(%s)' % VAL, '(%s == 0)' % VAL))]
        truthy_guard = [g for g in gt if g in (VAL, 'not ' + VAL, '(%s != 0)' % VAL, '(%s == 0)' % VAL, 'bool(%s)' % VAL, 'not bool(%s)' % VAL)]
        if truthy or truthy_guard:
            ctx.violation(rule, fi, '%s: %s' % (label, canon(truthy[0])[:100] if truthy else 'path [%s]' % truthy_guard[0]), 'the bits written are chosen by whether the value is non-zero, not by the value modulo 2^width: a value such as 2 for a one-bit member sets the bit although 2 mod 2 is 0', merges[0].lineno, clause='d', witness=True)
            continue
        try:
            if bits is None:
                raise Undecided('the shifts and masks of Bits._compile were not identified')
            got = bits_eval(bits).ev(v)
            if isinstance(got, bp.Bits) and got.key() == bp.merged().key():
                ctx.holds(rule, fi, '%s: shared := ((value << shift) & mask) | (I & ~mask)' % label, 'bit provenance %s: confinement' % got.text(), merges[0].lineno, clause='d')
            elif isinstance(got, bp.Bits) and got.truncated:
                ctx.violation(rule, fi, '%s: %s' % (label, canon(v)), 'the rest of the shared slot must be kept as I & ~mask, at every width of the shared Int; this keeps only bits below a fixed position: %s' % got.text(), merges[0].lineno, clause='d')
            elif isinstance(got, bp.Bits):
                vs = [x for x in got.slices if x[0] == 'V']
                want_v = [x for x in bp.merged().slices if x[0] == 'V']
                if vs != want_v:
                    why = 'the member\'s value must enter as (value << shift) & mask: without the mask a large or negative value overwrites the neighbours'
                else:
                    why = 'the rest of the shared slot must be kept as I & ~mask'
                ctx.violation(rule, fi, '%s: %s' % (label, canon(v)), '%s; this is %s' % (why, got.text()), merges[0].lineno, clause='d')
            else:
                ctx.violation(rule, fi, '%s: %s' % (label, canon(v)), 'the merge must be (value term) | (I & ~mask)', merges[0].lineno, clause='d')
        except Undecided as ex:
            ctx.undecided(rule, fi, '%s: %s' % (label, canon(v)), str(ex), merges[0].lineno, clause='d')
        others = [e for e in st_ if e not in merges]
        for e in others:
            ctx.violation(rule, fi, '%s: %s' % (label, e.text()), 'pack writes another packet attribute', e.lineno, clause='d')
        packs = [e for e in p.effects if e.kind == 'call' and isinstance(e.call.func, ast.Attribute) and e.call.func.attr == 'pack' and canon(e.call.func.value) == 'self.I']
        if 'self.iam_last' in gt:
            if len(packs) != 1 or p.effects.index(packs[0]) < p.effects.index(merges[0]):
                ctx.violation(rule, fi, label, 'the shared Int must be packed once, after this member\'s merge', fi.node.lineno, clause='d')
            else:
                c = packs[0].call
                args = [canon(a) for a in c.args] + ['%s=%s' % (k.arg, canon(k.value)) for k in c.keywords if k.arg]
                if ('pkt' in args or 'pkt=pkt' in args) and ('fragments' in args or 'fragments=fragments' in args):
                    ctx.holds(rule, fi, '%s: self.I.pack(pkt, fragments) after the merge' % label, 'the run is emitted once, complete', packs[0].lineno, clause='d')
                else:
                    ctx.violation(rule, fi, '%s: %s' % (label, canon(c)), 'the shared Int is not packed from this packet into this buffer', packs[0].lineno, clause='d')
        elif packs:
            ctx.violation(rule, fi, label, 'an earlier member emits the shared Int before the later members merged their bits', packs[0].lineno, clause='d')
        else:
            ctx.holds(rule, fi, '%s: nothing emitted' % label, 'only the last member emits the run', fi.node.lineno, clause='d')


def check_init(ctx, ci):
    repo = ctx.repo
    fi = ci.methods.get('init')
    rule = 'R8-init-zero'
    w = repo.walker()
    seen_first = False
    for p in w.paths(fi.node, cls=ci):
        gt = gtexts(p)
        z = [e for e in p.effects if e.kind == 'setattr' and canon(e.name) == 'self.I.field_name']
        if 'self.iam_first' in gt:
            seen_first = True
            own_init = [e for e in p.effects if e.kind == 'call' and canon(e.call.func) == 'self.I.init' and len(e.call.args) == 2
                        and isinstance(e.call.args[1], ast.Dict) and not e.call.args[1].keys]
            if z and isinstance(z[0].value, ast.Constant) and z[0].value.value == 0:
                ctx.holds(rule, fi, 'first member: shared slot := 0', 'pack merges into a defined value', z[0].lineno, clause='f')
            elif not z and own_init:
                ctx.holds(rule, fi, 'first member: self.I.init(packet, {})', 'the shared Int initialises its own slot with its default, 0 (Int() is built with defaults: C05 / C19 constructor rule)', own_init[0].lineno, clause='f')
            elif not z and any(e.kind == 'call' and isinstance(e.call.func, ast.Attribute) and canon(e.call.func.value) == 'self.I' for e in p.effects):
                ctx.undecided(rule, fi, 'first member: %s' % [e.text()[:60] for e in p.effects if e.kind == 'call'][:2], 'the shared Int is asked to initialise its slot through a method the rule does not follow', fi.node.lineno, clause='f')
            else:
                ctx.violation(rule, fi, 'first member: %s' % [e.text() for e in z], 'the shared slot must be zeroed by the first member', fi.node.lineno, clause='f')
    if not seen_first:
        mentions = any(isinstance(n, ast.Attribute) and n.attr == 'iam_first' for n in ast.walk(fi.node))
        if mentions:
            ctx.violation(rule, fi, 'Bits.init', 'no path initialises the shared slot for the first member', fi.node.lineno, clause='f')
        elif not any(isinstance(n, ast.Attribute) and n.attr == 'I' and canon(n.value) == 'self' for n in ast.walk(fi.node)):
            ctx.violation(rule, fi, 'Bits.init', 'init never touches the shared slot (self.I): the read-modify-write of the first pack reads an attribute nobody set', fi.node.lineno, clause='f', witness=True)
        else:
            ctx.undecided(rule, fi, 'Bits.init', 'the method does not test iam_first: cannot tell which path is the first member\'s', fi.node.lineno, clause='f')


def _leaves(v):
    """the alternatives of a selection expression (conditional expressions, literal tables)"""
    if isinstance(v, ast.IfExp):
        return _leaves(v.body) + _leaves(v.orelse)
    if isinstance(v, ast.Subscript) and isinstance(v.value, ast.Dict):
        return [x for d in v.value.values for x in _leaves(d)]
    if isinstance(v, ast.Subscript) and isinstance(v.value, (ast.Tuple, ast.List)):
        return [x for d in v.value.elts for x in _leaves(d)]
    return [v]


def check_bits_strategies(ctx, ci):
    """every surviving path of Bits._compile leaves Bits.pack / Bits.unpack behind .pack / .unpack
    (a fast path that installs another object's codec bypasses the mask / shift arithmetic)"""
    comp = ci.methods.get('_compile')
    w = ctx.repo.walker(max_paths=ctx.max_paths)
    seen = set()
    for p in w.paths(comp.node, cls=ci):
        for e in p.effects:
            if e.kind == 'store_attr' and canon(e.obj) == 'self' and e.name in ('pack', 'unpack'):
                t = 'self.%s = %s' % (e.name, canon(e.value))
                if t in seen:
                    continue
                seen.add(t)
                leaves = _leaves(e.value)
                if leaves and all(isinstance(x, ast.Attribute) and isinstance(x.value, ast.Name) and x.value.id == 'self' and ctx.repo.method(ci, x.attr) is not None for x in leaves):
                    ctx.undecided('R8-confinement', comp, t, 'Bits._compile selects among methods of Bits itself: the analysis of the bit arithmetic reads Bits.pack / Bits.unpack and does not follow this arrangement', e.lineno, clause='d')
                    continue
                ctx.violation('R8-confinement', comp, t, 'Bits._compile replaces the bit-field %s by another codec on some path: the value is no longer reduced modulo 2^width into its own slice' % e.name, e.lineno, clause='d')
    if not seen:
        ctx.holds('R8-confinement', comp, 'Bits._compile installs no other pack / unpack', 'every bit field runs Bits.pack / Bits.unpack', comp.node.lineno, clause='d')


def check_descriptions_keep_the_field(ctx, rule='R8-bits-run'):
    """Round 7.  (a0') a run of bit fields ends at the next entry of the field table that is not a
    bit field.  Every declared field contributes itself to that table (Field._describe_yourself:
    [moves..., (name, self)]); an override may add entries after it (the fields of an embedded
    packet) but never takes entries of the base description away: a field that vanishes from the
    table no longer separates the bit fields declared before it from those that follow"""
    repo = ctx.repo
    n = 0
    for ci in repo.field_classes():
        fi = ci.methods.get('_describe_yourself')
        if fi is None or ci.name == 'Field':
            continue
        n += 1
        base = [x.targets[0].id for x in ast.walk(fi.node) if isinstance(x, ast.Assign) and len(x.targets) == 1 and isinstance(x.targets[0], ast.Name)
                and isinstance(x.value, ast.Call) and isinstance(x.value.func, ast.Attribute) and x.value.func.attr == '_describe_yourself']
        st = '%s._describe_yourself' % ci.name
        if not base:
            ctx.undecided(rule, fi, st, 'the override does not start from the base description', fi.node.lineno, clause='a')
            continue
        D_ = base[0]
        bad = None
        for x in ast.walk(fi.node):
            if isinstance(x, ast.Subscript) and isinstance(x.ctx, (ast.Store, ast.Del)) and canon(x.value) == D_:
                bad = x
            elif isinstance(x, ast.Call) and isinstance(x.func, ast.Attribute) and canon(x.func.value) == D_ and x.func.attr in ('pop', 'remove', 'clear', 'reverse', 'sort'):
                bad = x
            elif isinstance(x, ast.Assign) and any(isinstance(t, ast.Name) and t.id == D_ for t in x.targets) and not (isinstance(x.value, ast.Call) and isinstance(x.value.func, ast.Attribute)
                                                                                                               and x.value.func.attr == '_describe_yourself'):
                # rebinding: fine when the new list starts with the old one (desc = desc + [...])
                v = x.value
                if not (isinstance(v, ast.BinOp) and isinstance(v.op, ast.Add) and canon(v.left) == D_):
                    bad = x
        rets = [r for r in ast.walk(fi.node) if isinstance(r, ast.Return) and r.value is not None]
        if bad is not None:
            ctx.violation(rule, fi, '%s: %s' % (st, stmt_text(bad)[:100]), 'entries of the base description ([moves..., (name, self)]) are taken away: the field itself no longer stands in the field table, so bit fields declared before it and bit fields that follow it (its embedded packet\'s) are merged into one run', getattr(bad, 'lineno', fi.node.lineno), clause='a', witness=True)
        elif all(canon(r.value) == D_ or (isinstance(r.value, ast.BinOp) and isinstance(r.value.op, ast.Add) and canon(r.value.left) == D_) for r in rets) and rets:
            ctx.holds(rule, fi, st, 'the base description is kept; entries are only added after it', fi.node.lineno, clause='a')
        else:
            ctx.undecided(rule, fi, st, 'cannot see that what is returned starts with the base description', fi.node.lineno, clause='a')
    ctx.unit('describe_overrides', n)


def check_declaration_order(ctx, rule='R8-bits-run'):
    """Round 6.  (a0) the run a bit field belongs to, and its place in it, is its place in the
    class body: the class builder keeps the fields in the order of the class namespace
    (self.attrs.items(), ordered since Python 3.6) -- no sorting by another key, no reversal, no
    set.  A list sorted by creation time puts a field object made before the class body (a
    module-level Bits(3) used in two declarations, a field built by a helper) at the front of its
    run, where it takes the most significant bits"""
    repo = ctx.repo
    pb = repo.classes.get('PacketClassBuilder')
    fi = pb.methods.get('collect_the_fields_from_class_definition') if pb is not None else None
    if fi is None:
        ctx.undecided(rule, ('bisturi/packet_builder.py', 'PacketClassBuilder'), 'field collection', 'anchor collect_the_fields_from_class_definition not found', 0, clause='a')
        return
    seen = False
    for p in repo.walker().paths(fi.node, cls=pb):
        if p.raises():
            continue
        for e in p.effects:
            if e.kind == 'store_attr' and canon(e.obj) == 'self' and e.name == 'fields_in_class':
                seen = True
                v = e.value
                st = 'self.fields_in_class = %s' % canon(v)[:110]
                reorder = [x for x in ast.walk(v) if isinstance(x, ast.Call) and (call_name(x) in ('sorted', 'reversed', 'set', 'frozenset', 'heapq.nsmallest', 'heapq.nlargest', 'random.sample', 'random.shuffle'))]
                inplace = [x for x in p.effects if x.kind == 'call' and isinstance(x.call.func, ast.Attribute) and x.call.func.attr in ('sort', 'reverse') and 'fields_in_class' in canon(x.call.func.value)]
                if reorder or inplace:
                    ctx.violation(rule, fi, st, 'the collected fields are reordered (%s): a field object created before its place in the class body (shared between declarations, made by a helper) moves inside its run of bit fields and takes other bits' % (call_name(reorder[0]) if reorder else '.%s()' % inplace[0].call.func.attr), e.lineno, clause='a', witness=True)
                elif 'self.attrs.items()' in canon(v) or 'self.attrs' in canon(v):
                    ctx.holds(rule, fi, st, 'class-body order (the order of the class namespace), filtered only', e.lineno, clause='a')
                else:
                    ctx.undecided(rule, fi, st, 'cannot see that the list follows the class namespace order', e.lineno, clause='a')
    if not seen:
        ctx.undecided(rule, fi, 'collect_the_fields_from_class_definition', 'no store of fields_in_class found', fi.node.lineno, clause='a')


def check(ctx):
    repo = ctx.repo
    check_declaration_order(ctx)
    from ..model import check_conf_dict_holds_no_per_class_tables
    check_conf_dict_holds_no_per_class_tables(ctx, 'R8-bits-run')
    check_descriptions_keep_the_field(ctx)
    from ..model import check_no_class_level_accumulator
    check_no_class_level_accumulator(ctx, 'R8-bits-run', ['Bits'], clause='a')
    # Round 8: the per-field calls of a class with bit fields are the generated code of *this*
    # declaration: what is installed was generated now or carries this declaration's cookie (C15-V)
    try:
        from ..cache import CacheModel
        from .c16 import check_protocol
        check_protocol(ctx, CacheModel(ctx.repo, max_paths=max(ctx.max_paths, 65536)), 'V')
    except Undecided as e:
        ctx.undecided('R10-validate-before-install', ('bisturi/codegen.py', 'CodeGenerator.generate_code'), 'generate_code', str(e), 0)
    # Round 9: ... and that code finds the field table (shifts and masks of *this* class) through
    # the packet at call time, not in the namespace of a module that same-named classes share
    from .c15 import check_module_namespace
    check_module_namespace(ctx, rule='R8-bits-run')
    ci = repo.cls('Bits')
    _find_run_masks(ci)
    for m in ('_compile', 'init', 'unpack', 'pack'):
        if m not in ci.methods:
            raise Undecided('anchor Bits.%s not found' % m)
    ctx.unit('functions', 4)
    bits = check_compile(ctx, ci)
    check_unpack(ctx, ci, bits)
    check_pack(ctx, ci, bits)
    check_init(ctx, ci)
    # the shared Int encodes / decodes exactly (no wrapping, strict): C05 rule R1 on Int
    from .c05 import check_codecs
    check_codecs(ctx, repo.cls('Int'))
    check_bits_strategies(ctx, ci)
    ctx.floor('obligations', len(ctx.obs), 18)
    from ..model import check_conf_plumbing
    check_conf_plumbing(ctx, 'R8-conf-plumbing', 'field positions')
    ctx.trust(*ASSUMPTIONS)
