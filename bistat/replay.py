"""--replay: re-analyse and print exactly the obligations stored in a replay file"""
import json


def show(ctx, path, out):
    with open(path) as f:
        data = json.load(f)
    want = [(v['rule'], v['file'], v['function']) for v in data.get('violations', [])]
    hit = 0
    for o in ctx.obs:
        if (o.rule, o.file, o.function) in want and o.verdict != 'HOLDS':
            hit += 1
            print('REPLAY %s %s:%d in %s' % (o.verdict, o.file, o.line, o.function), file=out)
            print('   rule:      %s' % o.rule, file=out)
            print('   construct: %s' % o.statement, file=out)
            print('   reason:    %s' % o.reason, file=out)
            mod = o.file.split('/')[-1][:-3]
            m = ctx.repo.modules.get(mod)
            if m and o.line:
                lo, hi = max(1, o.line - 3), min(len(m['lines']), o.line + 3)
                for i in range(lo, hi + 1):
                    print('   %4d%s %s' % (i, '>' if i == o.line else ' ', m['lines'][i - 1]), file=out)
    if hit:
        print('VIOLATION property=%s replay=%s' % (ctx.prop, path), file=out)
        return 1
    print('REPLAY: none of the %d stored violations is present in the current tree' % len(want), file=out)
    return 0
