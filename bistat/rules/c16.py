"""C16 -- the code cache survives crashes and concurrent definitions.

Rule family R10 on CodeGenerator.generate_code (necessary conditions of crash and
concurrency safety of the cache file protocol; interleavings and crash points are
not enumerated -- these are the conditions under which enumeration is unnecessary):

 (A) atomic publication: no open-for-write of a path that aliases the path that is
     loaded; writing a distinct temporary file followed by os.replace/rename onto
     the load path is the accepted idiom (a crash leaves the old file or the new
     one, never a torn one);
 (T) tolerant load: every load of the cache file is inside a try whose handler
     covers Exception (a torn or foreign file raises SyntaxError / ValueError /
     NameError / AttributeError, not only ImportError);
 (V) validate-before-install: on every path to the installation of
     module.pack_impl / unpack_impl the module is a loaded one whose cookie was
     compared equal on that path after that load, or was built in memory from this
     run's generated source (a concurrent writer may have replaced the file
     between our write and our reload);
 (R) race-tolerant file operations: makedirs(exist_ok=True); remove inside a try
     that tolerates a vanished file (not exists()-then-remove()).

Round 4: (R10-no-waiting-on-other-writers) no lock file / OS lock / wait loop in the cache
update; (R10-removes-only-its-own) only its own temporary and the published module's bytecode are removed.

Round 6: the temporary name carries process id and thread id read at write time (or a name of
its own); publication after close, by os.replace and not by a copying primitive.
Round 7: includes the closedness rules E of C15 (the blocks rely only on names every driver binds
itself: a field table bound in the module by the builder is shared by same-named classes).
Round 8: includes the hash-coverage rules H of C15.
Round 9: constant placeholders in the cookie line; an attribute that holds the load path names
that file.
"""
import ast

from .. import Undecided
from ..expr import canon, unparse, call_name, kwarg
from ..cache import CacheModel, concat_operands, strip_encode
from ..model import stmt_text

EXPLANATION = __doc__
LEVEL_RULE = 'one obligation per (clause, file-system / load / install event) of generate_code, over all its paths'
ASSUMPTIONS = [
    'os.replace / os.rename within one directory is atomic (POSIX rename)',
    'importlib validates a .pyc by the source mtime (seconds) and size only',
    'exec(compile(src, ...), module.__dict__) runs exactly src',
]


def mode_of(call):
    m = kwarg(call, 'mode', 1)
    if m is None:
        return 'r'
    if isinstance(m, ast.Constant) and isinstance(m.value, str):
        return m.value
    return None


def check_publish_after_close(ctx, model):
    """(A') the temporary file is published after it was closed: an os.replace / rename placed
    inside the ``with open(tmp) as f:`` block that writes it renames a file whose last buffer is
    still in memory -- a crash (or a reader) right after sees a truncated module under the final
    name, and when the cut falls between two functions it is valid Python with a matching cookie"""
    fi = model.fi
    funcs = [fi] + [f for f in ctx.repo.functions.values() if f.module == fi.module and f is not fi and f.cls is None]
    n = 0
    for f in funcs:
        for w_ in ast.walk(f.node):
            if not isinstance(w_, ast.With):
                continue
            opened = [(it.context_expr, it.optional_vars) for it in w_.items if isinstance(it.context_expr, ast.Call) and call_name(it.context_expr) in ('open', 'io.open', 'os.fdopen')]
            if not opened:
                continue
            for c in [x for b in w_.body for x in ast.walk(b)]:
                if isinstance(c, ast.Call) and call_name(c) in ('os.replace', 'os.rename', 'shutil.move') and c.args:
                    for oc, _v in opened:
                        if oc.args and canon(oc.args[0]) == canon(c.args[0]) and any(ch in (mode_of(oc) or 'r') for ch in WRITE_CH):
                            n += 1
                            ctx.violation('R10-atomic-publish', f, '%s inside "with %s"' % (stmt_text(c)[:60], stmt_text(oc)[:40]), 'the file is renamed into place while it is still open for writing: what sits in the write buffer reaches the disk only at the close, after the publication -- a crash in between (or a concurrent import) finds a truncated module under the final name', c.lineno, clause='A', witness=True)
    # published by a copying primitive: shutil.move falls back to copy + delete across file systems
    for f in funcs:
        for c in ast.walk(f.node):
            if isinstance(c, ast.Call) and call_name(c) in ('shutil.move', 'shutil.copy', 'shutil.copyfile', 'shutil.copy2', 'shutil.copyfileobj'):
                n += 1
                ctx.violation('R10-atomic-publish', f, stmt_text(c)[:100], '%s is not an atomic rename: when source and destination are on different file systems (a scratch file in the system temporary folder) the content is copied into place, so a writer that dies -- or a concurrent reader -- meets a partly written module under the final name' % call_name(c), c.lineno, clause='A', witness=True)
    return n


def check_protocol(ctx, model, clauses):
    fi = model.fi
    seen = set()
    node_label = {}
    if 'A' in clauses:
        check_publish_after_close(ctx, model)

    def once(rule, st, node=None):
        k = (rule, st) if node is None else (rule, id(node))
        if k in seen:
            return False
        seen.add(k)
        return True

    def label(st, node):
        """same statement text at several places: number them in source order"""
        same = sorted({n.lineno for n in ast.walk(fi.node) if isinstance(n, type(node)) and stmt_text(n) == stmt_text(node)})
        if len(same) > 1:
            return '%s (occurrence %d of %d)' % (st, same.index(node.lineno) + 1, len(same))
        return st

    nload = ninstall = nwrite = 0
    load_paths = set()
    for p in model.paths:
        for ev in model.events(p):
            if ev['ev'] == 'load':
                lp = model.load_path_of(ev['call'])
                if lp is not None:
                    load_paths.add(canon(lp))
    # an attribute that holds the load path (``self.module_pathname = <the path>``, its only store
    # in the package) names the same file wherever it is read later
    stores = {}
    for info in ctx.repo.modules.values():
        for x in ast.walk(info['tree']):
            if isinstance(x, ast.Attribute) and not isinstance(x.ctx, ast.Load):
                stores[x.attr] = stores.get(x.attr, 0) + 1
    for p in model.paths:
        for e in p.all_effects():
            if e.kind == 'store_attr' and canon(e.obj) == 'self' and stores.get(e.name) == 1 and e.value is not None and canon(e.value) in load_paths:
                load_paths.add('self.%s' % e.name)
    ctx.unit('paths', len(model.paths))
    for p in model.paths:
        evs = model.events(p)
        guards = model.cookie_guards(p)
        # computed cookie on this path: X.hexdigest() of a hash symbol
        for i, ev in enumerate(evs):
            line = ev['eff'].lineno
            # ------------------------------------------------------------- (T)
            if ev['ev'] == 'load' and 'T' in clauses:
                st = label('load ' + stmt_text(ev['eff'].node), ev['eff'].node)
                if once('R10-tolerant-load', st, ev['eff'].node):
                    nload += 1
                    ok, ts = model.handler_covers(ev['eff'].node)
                    if ok:
                        ctx.holds('R10-tolerant-load', fi, st, 'inside a try whose handler covers Exception', line, clause='T')
                    else:
                        narrow, nts = model.handler_covers(ev['eff'].node, names=('ImportError', 'OSError', 'SyntaxError', 'IOError', 'FileNotFoundError'))
                        ctx.violation('R10-tolerant-load', fi, st,
                                      ('the load is guarded only by except %s' % nts if narrow else 'the load is not inside any try') +
                                      ': a torn or foreign cache file (SyntaxError, ValueError, NameError...) makes the class definition fail', line, clause='T')
            # ------------------------------------------------------------- (A)
            if ev['ev'] == 'open' and 'A' in clauses:
                c = ev['call']
                nm = call_name(c)
                mode = mode_of(c)
                if nm == 'os.fdopen':
                    continue
                writing = mode is None or any(ch in mode for ch in WRITE_CH)
                if not writing:
                    continue
                path = c.args[0] if c.args else kwarg(c, 'file')
                st = 'open(%s, %r)' % ('<the cache module path>' if (path is not None and canon(path) in load_paths) else short(path) if path is not None and 'os.path.join' not in canon(path) else '<temporary path>', mode)
                if once('R10-atomic-publish', st, ev['eff'].node):
                    nwrite += 1
                    if path is not None and canon(path) in load_paths:
                        ctx.violation('R10-atomic-publish', fi, st,
                                      'the cache file is written in place: a crash (or a concurrent reader) sees a truncated module, which either fails to import or imports with a matching cookie and a missing body', line, clause='A')
                    else:
                        # must be followed by a replace onto the load path
                        later = [x for x in evs[i:] if x['ev'] == 'replace' and canon(x['src']) == canon(path) and canon(x['dst']) in load_paths]
                        names_ = {call_name(x) for x in ast.walk(path)} if path is not None else set()
                        own = path is not None and (bool(names_ & {'uuid.uuid4', 'uuid4', 'tempfile.mktemp'}) or any(model.sym(x) and model.kind(x) == 'tmp' for x in ast.walk(path)))
                        has_pid = bool(names_ & {'os.getpid', 'getpid'})
                        has_tid = bool(names_ & {'threading.get_ident', 'get_ident', 'threading.get_native_id', 'get_native_id'})
                        # unique per writer: a name of its own (uuid / mkstemp), or the process id AND the
                        # thread id, both read when the file is written (a pid read at import time is
                        # the parent's in a forked worker)
                        uniq = own or (has_pid and has_tid)
                        if later and not uniq and (has_pid or has_tid):
                            ctx.violation('R10-atomic-publish', fi, st + ' [temporary name: %s]' % tmp_name_parts(path), 'the temporary path carries %s but not %s (read at the moment of writing): %s write the same temporary file, and the second os.replace fails with FileNotFoundError or publishes a mix' % (
                                'the process id' if has_pid else 'the thread id', 'the thread id' if has_pid else 'the process id',
                                'two threads of one process defining same-named classes' if has_pid else 'two processes (e.g. workers forked after the import) whose threads have the same id'), line, clause='A', witness=True)
                            continue
                        if later and not uniq:
                            ctx.violation('R10-atomic-publish', fi, st + ' [temporary name: %s]' % tmp_name_parts(path), 'the temporary path is not unique per process (no pid / mkstemp): two processes defining the class at the same time write the same temporary file and the second os.replace fails with FileNotFoundError or publishes a mix', line, clause='A')
                        elif later:
                            ctx.holds('R10-atomic-publish', fi, st + ' ... ' + later[0]['eff'].text()[:40], 'written to a distinct, per-process temporary path and published with an atomic replace', line, clause='A')
                        else:
                            ctx.undecided('R10-atomic-publish', fi, st, 'a file is opened for writing that is neither the load path nor replaced onto it', line, clause='A')
            if ev['ev'] == 'tmp' and 'A' in clauses:
                st = 'temporary file ' + canon(ev['call'])[:80]
                if once('R10-atomic-publish', st):
                    nwrite += 1
                    # mkstemp(...)[1] must be replaced onto the load path later
                    later = [x for x in evs[i:] if x['ev'] == 'replace' and ev['sym'].id in canon(x['src']) and canon(x['dst']) in load_paths]
                    d = kwarg(ev['call'], 'dir')
                    if not later:
                        ctx.violation('R10-atomic-publish', fi, st, 'the temporary file is never renamed onto the cache path', line, clause='A')
                    elif d is None:
                        ctx.violation('R10-atomic-publish', fi, st, 'the temporary file is not created in the cache directory (dir=...): os.replace across file systems is not atomic / fails', line, clause='A')
                    else:
                        ctx.holds('R10-atomic-publish', fi, st, 'unique temporary file in the cache directory, published with an atomic replace', line, clause='A')
            # ------------------------------------------------------------- (R)
            if ev['ev'] == 'makedirs' and 'R' in clauses:
                st = stmt_text(ev['eff'].node)
                if once('R10-race-tolerant-fs', st):
                    eo = kwarg(ev['call'], 'exist_ok', 2)
                    if isinstance(eo, ast.Constant) and eo.value is True:
                        ctx.holds('R10-race-tolerant-fs', fi, st, 'exist_ok=True', line, clause='R')
                    elif model.handler_covers(ev['eff'].node, names=('OSError', 'FileExistsError', 'Exception', None))[0]:
                        ctx.holds('R10-race-tolerant-fs', fi, st, 'inside a try that tolerates an existing directory', line, clause='R')
                    else:
                        ctx.violation('R10-race-tolerant-fs', fi, st, 'two processes creating the cache directory at the same time: the loser dies with FileExistsError', line, clause='R')
            if ev['ev'] == 'remove' and 'R' in clauses:
                st = stmt_text(ev['eff'].node)
                if once('R10-race-tolerant-fs', st):
                    ok, ts = model.handler_covers(ev['eff'].node, names=('OSError', 'FileNotFoundError', 'Exception', 'IOError', None))
                    mo = kwarg(ev['eff'].call, 'missing_ok')
                    if ok or (isinstance(mo, ast.Constant) and mo.value is True):
                        ctx.holds('R10-race-tolerant-fs', fi, st, 'tolerates a file that vanished', line, clause='R')
                    else:
                        ctx.violation('R10-race-tolerant-fs', fi, st, 'exists()-then-remove(): when another process removes the file in between, the class definition dies with FileNotFoundError', line, clause='R')
            # ------------------------------------------------------------- (V)
            if ev['ev'] == 'install' and 'V' in clauses:
                v = ev['value']
                m = v.value if isinstance(v, ast.Attribute) else None
                st = 'install %s = %s' % (ev['attr'], canon(v))
                if m is None and isinstance(v, ast.Call) and isinstance(v.func, ast.Name) and v.func.id == 'getattr' and v.args and model.sym(v.args[0]):
                    # setattr(cls, name, getattr(module, name, None)) in a loop over names
                    if once('R10-validate-before-install', 'dynamic install'):
                        ctx.violation('R10-validate-before-install', fi, st, 'whatever the module namespace happens to hold is installed (the generate_for_pack / generate_for_unpack options are not consulted): a function left there by an earlier same-named module is installed although this declaration did not generate it', line, clause='V')
                    continue
                if m is None and isinstance(v, ast.Call) and isinstance(v.func, ast.Attribute) and canon(v.func.value) == 'self' and fi.cls is not None \
                        and v.func.attr in fi.cls.methods and any(model.sym(a) for a in v.args):
                    # Round 9.  a wrapper made by a method of the generator around the module: if the
                    # function it returns looks the generated function up *in the module when it is
                    # called*, a module that came from load_module() -- the sys.modules object that
                    # later loads of the file re-execute in place -- gives it another declaration's code
                    wfi = fi.cls.methods[v.func.attr]
                    idx = next(i for i, a in enumerate(v.args) if model.sym(a))
                    ps = [a.arg for a in wfi.node.args.args][1:]
                    late = []
                    if idx < len(ps):
                        for inner in ast.walk(wfi.node):
                            if inner is not wfi.node and isinstance(inner, (ast.FunctionDef, ast.Lambda)):
                                for x in ast.walk(inner):
                                    if isinstance(x, ast.Attribute) and isinstance(x.value, ast.Name) and x.value.id == ps[idx] and x.attr in ('pack_impl', 'unpack_impl'):
                                        late.append(x)
                    kind_ = model.kind(v.args[idx])
                    if once('R10-validate-before-install', st[:160]):
                        if late and kind_ == 'load':
                            ctx.violation('R10-validate-before-install', fi, st[:200], 'the installed wrapper (%s) reads %s in the module each time it is called: the module came from load_module(), the sys.modules object that every later load of that file re-executes in place, so an earlier class runs the code of a later same-named declaration' % (wfi.qual, canon(late[0])), line, clause='V', witness=True)
                        elif late:
                            ctx.holds('R10-validate-before-install', fi, st[:200], 'the wrapper looks the function up at call time in a module made in memory for this class alone', line, clause='V')
                        else:
                            ctx.undecided('R10-validate-before-install', fi, st[:200], 'the installed function is made by %s: cannot see what it runs' % wfi.qual, line, clause='V')
                    continue
                if m is not None and not model.sym(m) and _from_process_memo(ctx.repo, fi, m):
                    # functions of a module remembered from an earlier definition in this process
                    if once('R10-validate-before-install', st):
                        ctx.violation('R10-validate-before-install', fi, st[:200], 'the installed function comes from a table that outlives the class definition (a module kept from an earlier definition in this process), looked up by a key that is not the cookie of the text generated now: a same-named class declared differently gets the earlier code', line, clause='V', witness=True)
                    continue
                if m is not None and not model.sym(m) and _class_level_table(ctx.repo, fi, m) is not None:
                    # Round 9.  a table on the generator class: it outlives the definition.  What
                    # it may keep is a module made in memory from this run's text; a module that
                    # came from load_module() is the sys.modules object that every later load of
                    # that file re-executes in place -- it changes under the table
                    tbl = _class_level_table(ctx.repo, fi, m)
                    kinds_ = set()
                    for p2 in model.paths:
                        for e2 in p2.all_effects():
                            if e2.kind == 'store_sub' and canon(e2.obj) in ('self.%s' % tbl, '%s.%s' % (fi.cls.name if fi.cls else '', tbl), 'type(self).%s' % tbl, 'self.__class__.%s' % tbl):
                                s2 = next((n for n in ast.walk(e2.value) if model.sym(n)), None) if e2.value is not None else None
                                kinds_.add(model.kind(s2) if s2 is not None else '?')
                    if once('R10-validate-before-install', st[:120]):
                        if 'load' in kinds_:
                            ctx.violation('R10-validate-before-install', fi, st[:200], 'the installed function comes from a table that outlives the class definition and that keeps modules obtained from load_module(): that is the sys.modules object every later load of the file re-executes in place, so the entry found under this cookie may by now hold the code of another declaration -- and it is installed without comparing its cookie', line, clause='V', witness=True)
                        else:
                            ctx.undecided('R10-validate-before-install', fi, st[:200], 'the installed function comes from a table on the generator class (kept: %s)' % sorted(kinds_), line, clause='V')
                    continue
                if m is None or not model.sym(m):
                    if once('R10-validate-before-install', st):
                        ctx.undecided('R10-validate-before-install', fi, st, 'the installed function is not an attribute of a loaded / in-memory module', line, clause='V')
                    continue
                if isinstance(v, ast.Attribute) and v.attr != ev['attr']:
                    if once('R10-validate-before-install', st):
                        ctx.violation('R10-validate-before-install', fi, st, 'module.%s is installed as %s' % (v.attr, ev['attr']), line, clause='V')
                    continue
                k = model.kind(m)
                how = provenance(model, p, evs, m, guards)
                # distinguish by provenance, not by symbol number
                st2 = 'install %s from %s module [%s]' % (ev['attr'], {'load': 'loaded', 'mem': 'in-memory'}.get(k, k), how[1])
                if once('R10-validate-before-install', st2):
                    ninstall += 1
                    if how[0]:
                        ctx.holds('R10-validate-before-install', fi, st2, how[2], line, clause='V')
                    else:
                        ctx.violation('R10-validate-before-install', fi, st2, how[2], line, clause='V')
    return dict(loads=nload, installs=ninstall, writes=nwrite, load_paths=load_paths)


WRITE_CH = 'wax+'


def short(e):
    if e is None:
        return '?'
    t = canon(e)
    return t if len(t) < 60 else '<cache module path>' if 'os.path.join' in t else t[:57] + '...'


def tmp_name_parts(path):
    if isinstance(path, ast.BinOp) and isinstance(path.op, ast.Mod):
        args = path.right.elts if isinstance(path.right, ast.Tuple) else [path.right]
        return '%s %% (%s)' % (canon(path.left), ', '.join('<module path>' if 'os.path.join' in canon(a) else canon(a)[:40] for a in args))
    return canon(path)[:80]


def provenance(model, p, evs, m, guards):
    """(ok, tag, reason) for the module symbol installed on this path"""
    k = model.kind(m)
    if k == 'load':
        # index of this load among the loads of the path (first load / reload)
        loads = [e for e in evs if e['ev'] == 'load']
        idx = [i for i, e in enumerate(loads) if e['sym'].id == m.id]
        wrote_before = False
        for e in evs:
            if e['ev'] == 'load' and e['sym'].id == m.id:
                break
            if e['ev'] in ('write', 'replace'):
                wrote_before = True
        tag = 'reloaded after rewriting' if wrote_before else 'loaded from the existing file'
        eq = [g for g in guards if model.sym(g[0]) and g[0].id == m.id and g[3] is True]
        if eq:
            # the cookie it is compared with must be this run's digest
            ok_cookie = any(is_digest(model, g[2]) for g in eq)
            if ok_cookie:
                return True, tag + ', cookie verified', 'the cookie of this very load was compared equal to this run\'s digest on the path'
            return False, tag + ', compared with something else', 'the module attribute is compared with %s, which is not the digest of this run\'s code' % canon(eq[0][2])
        return False, tag + ', not verified', ('the module %s is installed without comparing its cookie: a stale .pyc of equal size and mtime, or a file replaced by a concurrent definition of a same-named class, makes this class run code generated for another declaration' % tag)
    if k == 'mem':
        ex = [e for e in evs if e['ev'] == 'exec' and e['ns'] is not None and m.id in canon(e['ns'])]
        if not ex:
            return False, 'in-memory, never executed', 'an empty in-memory module is installed'
        code = ex[-1]['code']
        src = code.args[0] if isinstance(code, ast.Call) and call_name(code) == 'compile' and code.args else code
        bad = foreign_operands(model, p, evs, src)
        if bad:
            return False, 'in-memory from foreign text', 'the in-memory module is built from %s, which is not this run\'s generated code' % canon(bad[0])[:80]
        return True, 'in-memory from this run\'s source', 'built by exec(compile(source)) where every operand of source is a constant, the cookie line or an input of the hash'
    return False, 'unknown provenance', 'cannot tell where the installed module comes from'


def is_digest(model, e):
    return isinstance(e, ast.Call) and isinstance(e.func, ast.Attribute) and e.func.attr in ('hexdigest', 'digest') and model.sym(e.func.value) and model.kind(e.func.value) == 'hash'


def hash_inputs(model, evs):
    out = []
    for e in evs:
        if e['ev'] == 'hash-update' and e['arg'] is not None:
            # hashing a concatenation covers each of its operands
            for op in concat_operands(strip_encode(e['arg'])):
                out.append(canon(strip_encode(op)))
    return out


def _module_text_constant(model, e, depth=0):
    """a module-level name of the generator's module bound exactly once to a string literal (or a
    concatenation of such names and literals) is that constant text"""
    if not isinstance(e, ast.Name) or depth > 4:
        return e
    try:
        tree = model.repo.modules[model.fi.module]['tree']
    except Exception:
        return e
    binds = [st for st in tree.body if isinstance(st, (ast.Assign, ast.AugAssign, ast.FunctionDef, ast.ClassDef, ast.Import, ast.ImportFrom)) and (
        (isinstance(st, ast.Assign) and any(isinstance(t, ast.Name) and t.id == e.id for t in st.targets)) or
        (isinstance(st, ast.AugAssign) and isinstance(st.target, ast.Name) and st.target.id == e.id) or getattr(st, 'name', None) == e.id)]
    if len(binds) != 1 or not isinstance(binds[0], ast.Assign):
        return e
    # a local of the function with the same name hides it
    if any(isinstance(n, ast.Name) and n.id == e.id and isinstance(n.ctx, ast.Store) for n in ast.walk(model.fi.node)):
        return e
    for fn in model.repo.functions.values():
        if fn.module == model.fi.module and any(isinstance(n, ast.Global) and e.id in n.names for n in ast.walk(fn.node)):
            return e

    def text(v, d):
        if isinstance(v, ast.Constant) and isinstance(v.value, str):
            return v.value
        if isinstance(v, ast.BinOp) and isinstance(v.op, ast.Add):
            a, b = text(v.left, d), text(v.right, d)
            return a + b if a is not None and b is not None else None
        if isinstance(v, ast.Name) and d < 4:
            r = _module_text_constant(model, v, d + 1)
            return r.value if isinstance(r, ast.Constant) and isinstance(r.value, str) else None
        return None
    t = text(binds[0].value, depth)
    return ast.copy_location(ast.Constant(value=t), e) if t is not None else e


def foreign_operands(model, p, evs, src):
    """operands of a written / executed text that are neither constants, nor the
    cookie line, nor inputs of the hash"""
    hin = set(hash_inputs(model, evs))
    bad = []
    for op in concat_operands(src):
        if canon(strip_encode(op)) in hin:
            continue
        op = _module_text_constant(model, op)
        if isinstance(op, ast.BinOp) and isinstance(op.op, ast.Mod):
            l_ = _module_text_constant(model, op.left)
            if l_ is not op.left:
                op = ast.copy_location(ast.BinOp(left=l_, op=op.op, right=op.right), op)
        if isinstance(op, ast.Constant):
            continue
        t = canon(strip_encode(op))
        if t in hin:
            continue
        if isinstance(op, ast.JoinedStr) and all(isinstance(v, ast.Constant) or (isinstance(v, ast.FormattedValue) and (is_digest(model, v.value) or isinstance(v.value, ast.Constant))) for v in op.values):
            continue
        if isinstance(op, ast.BinOp) and isinstance(op.op, ast.Mod) and isinstance(op.left, ast.Constant):
            vals = op.right.elts if isinstance(op.right, ast.Tuple) else [op.right]
            if all(is_digest(model, v) or isinstance(v, ast.Constant) for v in vals):
                continue
        bad.append(op)
    return bad


def _class_level_table(repo, fi, m):
    """name T when ``m`` is ``self.T.get(..)`` / ``self.T[..]`` / ``Cls.T...`` and T is a dict
    assigned in the body of the class the function belongs to"""
    if fi.cls is None:
        return None
    recv = None
    if isinstance(m, ast.Call) and isinstance(m.func, ast.Attribute) and m.func.attr in ('get', 'setdefault', 'pop'):
        recv = m.func.value
    elif isinstance(m, ast.Subscript):
        recv = m.value
    if not (isinstance(recv, ast.Attribute) and canon(recv.value) in ('self', fi.cls.name, 'type(self)', 'self.__class__', 'cls')):
        return None
    v = fi.cls.attrs.get(recv.attr)
    if isinstance(v, ast.Dict) or (isinstance(v, ast.Call) and (call_name(v) or '').split('.')[-1] in ('dict', 'OrderedDict', 'WeakValueDictionary', 'defaultdict')):
        return recv.attr
    return None


def _from_process_memo(repo, fi, m):
    """``m`` is an entry of a module-level table (TABLE.get(key) / TABLE[key] / TABLE.setdefault) of
    the module the function lives in"""
    tbl = None
    if isinstance(m, ast.Call) and isinstance(m.func, ast.Attribute) and m.func.attr in ('get', 'setdefault', 'pop') and isinstance(m.func.value, ast.Name):
        tbl = m.func.value.id
    elif isinstance(m, ast.Subscript) and isinstance(m.value, ast.Name):
        tbl = m.value.id
    if tbl is None:
        return False
    tree = repo.modules[fi.module]['tree']
    for st in tree.body:
        if isinstance(st, ast.Assign) and any(isinstance(t, ast.Name) and t.id == tbl for t in st.targets) \
                and (isinstance(st.value, ast.Dict) or (isinstance(st.value, ast.Call) and (call_name(st.value) or '').split('.')[-1] in ('dict', 'OrderedDict', 'WeakValueDictionary', 'defaultdict'))):
            return True
    return False


def check_no_blocking(ctx):
    """"every later definition still succeeds" after a crash at any point: nothing the cache update
    does may wait for another writer -- a lock taken by a process that died is never released.
    No lock file, no OS lock, no wait loop in generate_code or anything it calls"""
    repo = ctx.repo
    rule = 'R10-no-waiting-on-other-writers'
    cg = repo.cls('CodeGenerator')
    gen = cg.methods.get('generate_code')
    if gen is None:
        raise Undecided('anchor CodeGenerator.generate_code not found')
    # generate_code and the package functions it reaches, also through ``with helper(...)``
    todo, seen = [gen], {gen.id: gen}
    while todo:
        fi = todo.pop()
        for f in repo.reach(fi, depth=3):
            if f.id not in seen:
                seen[f.id] = f
        for n in ast.walk(fi.node):
            if isinstance(n, ast.Call) and isinstance(n.func, ast.Name):
                g = repo.functions.get('%s::%s' % (fi.file, n.func.id))
                if g is not None and g.id not in seen:
                    seen[g.id] = g
                    todo.append(g)
    found = 0
    for fi in seen.values():
        for n in ast.walk(fi.node):
            what = None
            if isinstance(n, ast.Call):
                nm = call_name(n) or ''
                flags = ' '.join(unparse(a) for a in n.args[1:]) + ' '.join(unparse(k.value) for k in n.keywords)
                if nm in ('os.open',) and 'O_EXCL' in flags:
                    what = 'an exclusive-create lock file'
                elif nm in ('open',) and any(isinstance(a, ast.Constant) and isinstance(a.value, str) and 'x' in a.value for a in n.args[1:2]):
                    what = 'an exclusive-create lock file'
                elif nm.split('.')[-1] in ('flock', 'lockf') or nm in ('msvcrt.locking',):
                    what = 'an OS file lock'
                elif nm.split('.')[-1] == 'acquire' and not nm.startswith('self.'):
                    what = 'a lock'
            elif isinstance(n, (ast.While, ast.For)):
                if any(isinstance(c, ast.Call) and (call_name(c) or '') in ('time.sleep', 'sleep') for c in ast.walk(n)):
                    what = 'a wait loop (sleep inside a loop)'
            if what:
                found += 1
                ctx.violation(rule, fi, stmt_text(n)[:100], 'the cache update waits on %s: a writer that died while holding it blocks every later definition of the class for ever' % what, n.lineno, clause='C', witness=True)
    if not found:
        ctx.holds(rule, gen, 'generate_code and the %d functions it reaches' % (len(seen) - 1), 'no lock file, OS lock or wait loop: a definition never waits for another writer', gen.node.lineno, clause='C')
    ctx.unit('functions_reached', len(seen))


def check_removes_own_files_only(ctx, model):
    """under any interleaving: a definition removes nothing another live definition still needs.
    What it may remove: the bytecode next to the module it just published, its own temporary"""
    rule = 'R10-removes-only-its-own'
    fi = model.fi if hasattr(model, 'fi') else ctx.repo.cls('CodeGenerator').methods['generate_code']
    seen = set()
    for p in model.paths:
        for ev in model.events(p):
            if ev['ev'] != 'remove':
                continue
            pth = ev['path']
            st = stmt_text(ev['eff'].node)[:100]
            if st in seen:
                continue
            seen.add(st)
            own = any(model.sym(n) and model.kind(n) == 'tmp' for n in ast.walk(pth))
            pyc = (isinstance(pth, ast.Attribute) and pth.attr == '__cached__') or (isinstance(pth, ast.Call) and (call_name(pth) or '').endswith('cache_from_source')) \
                or (isinstance(pth, ast.IfExp) and all((isinstance(a, ast.Attribute) and a.attr == '__cached__') or (call_name(a) or '').endswith('cache_from_source') for a in (pth.body, pth.orelse)))
            if own or pyc:
                ctx.holds(rule, fi, st, 'its own temporary file' if own else 'the bytecode of the module it published', ev['eff'].lineno, clause='C')
            elif isinstance(pth, ast.Name) and pth.id.startswith('<item'):
                ctx.violation(rule, fi, st, 'files found by listing the directory are removed: one of them can be the temporary file of a live writer that is about to publish it -- its definition then fails', ev['eff'].lineno, clause='C', witness=True)
            else:
                ctx.undecided(rule, fi, st + ' [%s]' % canon(pth)[:60], 'cannot see whose file this is', ev['eff'].lineno, clause='C')
    if not seen:
        ctx.holds(rule, fi, 'generate_code removes nothing', '', fi.node.lineno, clause='C')


def check(ctx):
    model = CacheModel(ctx.repo, max_paths=max(ctx.max_paths, 65536))
    check_no_blocking(ctx)
    check_removes_own_files_only(ctx, model)
    ctx.unit('functions')
    r = check_protocol(ctx, model, 'ATVR')
    ctx.unit('load_sites', r['loads'])
    ctx.unit('install_provenances', r['installs'])
    ctx.unit('write_sites', r['writes'])
    ctx.floor('paths of generate_code', len(model.paths), 8)
    ctx.floor('load sites', r['loads'], 1)
    ctx.floor('write / publish sites', r['writes'], 1)
    ctx.floor('install provenances', r['installs'], 2)
    # Round 7: "packs / unpacks according to its own declaration" while several processes and classes
    # define same-named classes: the module a class installs is shared through sys.modules, so the
    # generated functions depend on nothing but their own text and arguments (C15-E)
    from .c15 import check_templates_closed, check_module_namespace, check_hashed_parts_are_written, check_hash_covers_generated_code
    check_templates_closed(ctx, ctx.repo)
    check_module_namespace(ctx, model)
    # Round 8: ... and the cookie tells apart every two files the generator can write (C15-H)
    check_hash_covers_generated_code(ctx)
    check_hashed_parts_are_written(ctx, model)
    ctx.trust(*ASSUMPTIONS)
