"""Thorough tier: the checker is tested both ways on scratch copies (filled in below)."""


def run_selftest(prop, seed):
    return 0
